(* networkx_to_pcmci, order-independently: the table produced by writing ANY compatible edge list in ANY order is
   determined by the SET of edges (Section Fold).  This is the core of the unbounded round-trip theorems. *)
From Coq Require Import List Arith ZArith QArith Bool Lia Permutation.
From CE Require Import Model.GraphConv Proofs.GraphConvProofs.
Import ListNotations.
Local Open Scope nat_scope.

(* ---- basic facts about tables ---- *)
Lemma cid_eqb_eq a b : cid_eqb a b = true <-> a = b.
Proof.
  destruct a as [[a1 a2] a3], b as [[b1 b2] b3]. unfold cid_eqb. rewrite !andb_true_iff, !Nat.eqb_eq.
  split; [intros [[-> ->] ->]; reflexivity|intros E; injection E as -> -> ->; auto].
Qed.
Lemma cid_eqb_refl a : cid_eqb a a = true.
Proof. apply cid_eqb_eq. reflexivity. Qed.
Lemma cid_eqb_neq a b : a <> b -> cid_eqb a b = false.
Proof. intros N. destruct (cid_eqb a b) eqn:E; [apply cid_eqb_eq in E; contradiction|reflexivity]. Qed.

Lemma get_put t c e c' : get (put t c e) c' = if cid_eqb c' c then e else get t c'.
Proof. reflexivity. Qed.

Lemma find_snoc {A} (f : A -> bool) l e :
  find f (l ++ [e]) = match find f l with Some x => Some x | None => if f e then Some e else None end.
Proof. induction l as [|a l IH]; cbn [app find]; [destruct (f e); reflexivity|]. destruct (f a); [reflexivity|exact IH]. Qed.

(* ---- the set-level description of the written table ---- *)
Definition at3 (u v l : nat) (e : gedge) : bool := Nat.eqb (g_src e) u && Nat.eqb (g_dst e) v && Nat.eqb (g_lag e) l.
Definition sym_kind (k : kind) : bool := match k with Undirected | Conflicting => true | _ => false end.
Definition pD (u v l : nat) (e : gedge) : bool := kind_eqb (g_kind e) Directed && at3 u v l e.
Definition pP (u v l : nat) (e : gedge) : bool := kind_eqb (g_kind e) PossibleDirected && at3 u v l e.
Definition pS (u v l : nat) (e : gedge) : bool := sym_kind (g_kind e) && (at3 u v l e || at3 v u l e).
Definition ent (m : mark) (e : gedge) : entry := {| e_mark := m; e_val := g_val e; e_p := g_p e |}.

Definition expected (P : list gedge) (c : cellid) : entry :=
  let '(i, j, l) := c in
  match find (pD i j l) P with
  | Some e => ent Fwd e
  | None =>
    match find (pP i j l) P with
    | Some e => ent Poss e
    | None =>
      match find (pS i j l) P with
      | Some e => ent (mark_of_kind (g_kind e)) e
      | None =>
        if Nat.eqb l 0 && negb (Nat.eqb i j)
        then match find (pD j i l) P with Some e => ent Bwd e | None => empty_entry end
        else empty_entry
      end
    end
  end.

(* what the edge list must satisfy (all of it follows from the consistency of a PCMCI pattern, see
   GraphConvRoundtrip.v, and from the graph-side hypotheses of the property) *)
Definition touches (u v l : nat) (e : gedge) : bool := at3 u v l e || at3 v u l e.
Record compat (P : list gedge) : Prop := {
  c_keys : NoDup (map gkey P);
  (* a symmetric link excludes every other link between the same two nodes at the same lag, and its two
     stored directions carry the same kind and numbers *)
  c_sym : forall e e', In e P -> In e' P -> sym_kind (g_kind e) = true ->
          touches (g_src e) (g_dst e) (g_lag e) e' = true ->
          g_kind e' = g_kind e /\ g_val e' = g_val e /\ g_p e' = g_p e;
  (* '-->' and '-?>' are not both stored for the same ordered pair and lag *)
  c_dp : forall e e', In e P -> In e' P -> g_kind e = Directed -> g_kind e' = PossibleDirected ->
         at3 (g_src e) (g_dst e) (g_lag e) e' = false
}.

Lemma nodup_app_l {A} (l1 l2 : list A) : NoDup (l1 ++ l2) -> NoDup l1.
Proof.
  induction l1 as [|a l1 IH]; intros H; [constructor|]. cbn in H. inversion H as [|? ? Hn H']; subst. constructor.
  - intros Hin. apply Hn. apply in_or_app. left. exact Hin.
  - apply IH. exact H'.
Qed.

Lemma compat_prefix P Q : compat (P ++ Q) -> compat P.
Proof.
  intros [K S D]. split.
  - rewrite map_app in K. apply nodup_app_l in K. exact K.
  - intros a b Ha Hb. apply S; apply in_or_app; left; assumption.
  - intros a b Ha Hb. apply D; apply in_or_app; left; assumption.
Qed.

Lemma at3_true u v l e : at3 u v l e = true <-> g_src e = u /\ g_dst e = v /\ g_lag e = l.
Proof. unfold at3. rewrite !andb_true_iff, !Nat.eqb_eq. tauto. Qed.

Lemma find_none_not {A} (f : A -> bool) l x : find f l = None -> In x l -> f x = false.
Proof. intros H Hx. apply (find_none f l H x Hx). Qed.

(* with duplicate-free keys, an edge of the list with the searched kind and position is THE result *)
Lemma find_unique (k : kind) u v l P e : NoDup (map gkey P) -> In e P -> g_kind e = k -> at3 u v l e = true ->
  find (fun x => kind_eqb (g_kind x) k && at3 u v l x) P = Some e.
Proof.
  intros ND Hin Hk Hat. induction P as [|a P IH]; [destruct Hin|]. cbn [find].
  cbn [map] in ND. inversion ND as [|? ? Hn ND']; subst.
  destruct (kind_eqb (g_kind a) (g_kind e) && at3 u v l a) eqn:Ea.
  - destruct Hin as [->|Hin]; [reflexivity|exfalso].
    apply andb_prop in Ea. destruct Ea as [Ek Eat]. apply kind_eqb_eq in Ek. apply at3_true in Eat, Hat.
    apply Hn. apply in_map_iff. exists e. split; [|exact Hin]. unfold gkey.
    destruct Eat as [-> [-> ->]], Hat as [-> [-> ->]]. rewrite Ek. reflexivity.
  - destruct Hin as [->|Hin]; [|apply IH; assumption].
    rewrite Hat in Ea. assert (kind_eqb (g_kind e) (g_kind e) = true) as R by (apply kind_eqb_eq; reflexivity). rewrite R in Ea. discriminate.
Qed.

Section Fold.
(* state invariant after writing the edges of P, in any order *)
Definition Inv (P : list gedge) (st : table * list cellid) : Prop :=
  (forall c, get (fst st) c = expected P c) /\
  (forall u v l, existsb (cid_eqb (Nat.min u v, Nat.max u v, l)) (snd st) = true <-> find (pS u v l) P <> None).

Lemma Inv_nil : Inv [] ([], []).
Proof.
  split.
  - intros [[i j] l]. cbn. destruct (Nat.eqb l 0 && negb (Nat.eqb i j)); reflexivity.
  - intros u v l. cbn. split; [discriminate|congruence].
Qed.

Lemma mark_of_kind_nonempty k : mark_of_kind k <> Empty.
Proof. destruct k; discriminate. Qed.

Lemma pS_sym u v l e : pS u v l e = pS v u l e.
Proof. unfold pS. rewrite (orb_comm (at3 u v l e)). reflexivity. Qed.

Lemma pS_sym_ext u v l P : find (pS v u l) P = find (pS u v l) P.
Proof. induction P as [|a P IH]; [reflexivity|]. cbn [find]. rewrite (pS_sym v u l a), IH. reflexivity. Qed.

Lemma minmax_key u v l x y l' :
  cid_eqb (Nat.min x y, Nat.max x y, l') (Nat.min u v, Nat.max u v, l) = true <->
  ((x = u /\ y = v) \/ (x = v /\ y = u)) /\ l' = l.
Proof. rewrite cid_eqb_eq. split; [intros E; injection E as E1 E2 ->; lia|intros [[[-> ->]|[-> ->]] ->]; f_equal; f_equal; lia]. Qed.

(* ----------------------------------------------------------------------------------------------- *)
Lemma step_directed P st e : g_kind e = Directed -> compat (P ++ [e]) -> Inv P st -> Inv (P ++ [e]) (write_edge st e).
Proof.
  intros Hk C [Ht Hs]. destruct st as [t seen]. cbn [fst snd] in *.
  set (u := g_src e) in *. set (v := g_dst e) in *. set (l := g_lag e) in *.
  assert (Hat : at3 u v l e = true) by (apply at3_true; auto).
  assert (HpD : pD u v l e = true) by (unfold pD; rewrite Hk, Hat; reflexivity).
  assert (HnS : forall a b c, pS a b c e = false) by (intros; unfold pS; rewrite Hk; reflexivity).
  assert (HnP : forall a b c, pP a b c e = false) by (intros; unfold pP; rewrite Hk; reflexivity).
  (* no other Directed edge with the same position in P *)
  assert (HfD : find (pD u v l) P = None).
  { destruct (find (pD u v l) P) as [x|] eqn:F; [exfalso|reflexivity].
    apply find_some in F. destruct F as [Hx Px]. unfold pD in Px. apply andb_prop in Px. destruct Px as [Kx Ax].
    apply kind_eqb_eq in Kx. apply at3_true in Ax. destruct C as [K _ _]. rewrite map_app in K. cbn [map] in K.
    apply NoDup_remove_2 in K. rewrite app_nil_r in K. apply K. apply in_map_iff. exists x. split; [|exact Hx].
    unfold gkey. destruct Ax as [-> [-> ->]]. rewrite Kx, Hk. reflexivity. }
  (* expected after adding e, at a cell other than (u,v,l) and (v,u,l) *)
  assert (Hother : forall c, c <> (u, v, l) -> (c <> (v, u, l) \/ l <> 0 \/ u = v) -> expected (P ++ [e]) c = expected P c).
  { intros [[i j] l'] N1 N2. unfold expected. rewrite !find_snoc, HnS, HnP.
    assert (E1 : pD i j l' e = false).
    { unfold pD. rewrite Hk. cbn. destruct (at3 i j l' e) eqn:A; [|reflexivity]. apply at3_true in A. exfalso. apply N1.
      destruct A as [A1 [A2 A3]]. subst u v l. congruence. }
    rewrite E1.
    destruct (find (pD i j l') P); [reflexivity|]. destruct (find (pP i j l') P); [reflexivity|].
    destruct (find (pS i j l') P); [reflexivity|].
    destruct (Nat.eqb l' 0 && negb (Nat.eqb i j)) eqn:B; [|reflexivity].
    assert (E2 : pD j i l' e = false).
    { unfold pD. rewrite Hk. cbn. destruct (at3 j i l' e) eqn:A; [|reflexivity]. apply at3_true in A. exfalso.
      destruct A as [A1 [A2 A3]]. apply andb_prop in B. destruct B as [B1 B2]. apply Nat.eqb_eq in B1.
      apply negb_true_iff, Nat.eqb_neq in B2. subst u v l.
      destruct N2 as [N2|[N2|N2]]; [apply N2; congruence|congruence|congruence]. }
    rewrite E2. destruct (find (pD j i l') P); reflexivity. }
  assert (Hmain : expected (P ++ [e]) (u, v, l) = ent Fwd e).
  { unfold expected. rewrite find_snoc, HfD, HpD. reflexivity. }
  split.
  2:{ (* seen unchanged; no symmetric edge added *)
    intros a b c. unfold write_edge. rewrite Hk. fold u v l.
    destruct (Nat.eqb l 0 && negb (Nat.eqb u v) && mark_eqb (e_mark (get (put t (u, v, l) _) (v, u, l))) Empty);
      cbn [snd]; rewrite find_snoc, HnS; rewrite (Hs a b c); destruct (find (pS a b c) P); split; congruence. }
  intros c. unfold write_edge. rewrite Hk. fold u v l.
  set (en := {| e_mark := mark_of_kind Directed; e_val := g_val e; e_p := g_p e |}).
  change en with (ent Fwd e).
  destruct (Nat.eqb l 0 && negb (Nat.eqb u v)) eqn:B; cbn [andb].
  - apply andb_prop in B. destruct B as [B1 B2]. apply Nat.eqb_eq in B1. apply negb_true_iff, Nat.eqb_neq in B2.
    assert (Nvu : (v, u, l) <> (u, v, l)) by congruence.
    rewrite get_put, (cid_eqb_neq _ _ Nvu), (Ht (v, u, l)).
    destruct (mark_eqb (e_mark (expected P (v, u, l))) Empty) eqn:M; cbn [fst].
    + (* mirror '<--' written into the empty slot *)
      apply mark_eqb_eq in M.
      assert (Hexp : expected (P ++ [e]) (v, u, l) = ent Bwd e).
      { unfold expected in M |- *. rewrite !find_snoc, HnS, HnP.
        assert (E1 : pD v u l e = false).
        { unfold pD. rewrite Hk. cbn. destruct (at3 v u l e) eqn:A; [|reflexivity]. apply at3_true in A. subst u v. destruct A as [A _]. congruence. }
        rewrite E1.
        destruct (find (pD v u l) P); [discriminate M|]. destruct (find (pP v u l) P); [discriminate M|].
        destruct (find (pS v u l) P) as [x|]; [cbn in M; exfalso; exact (mark_of_kind_nonempty _ M)|].
        rewrite B1 in *. cbn [Nat.eqb andb]. assert (R : negb (Nat.eqb v u) = true) by (apply negb_true_iff, Nat.eqb_neq; congruence).
        rewrite R. rewrite HfD, HpD. reflexivity. }
      rewrite !get_put. destruct (cid_eqb c (v, u, l)) eqn:E1.
      * apply cid_eqb_eq in E1. subst c. symmetry. exact Hexp.
      * destruct (cid_eqb c (u, v, l)) eqn:E2.
        -- apply cid_eqb_eq in E2. subst c. symmetry. exact Hmain.
        -- rewrite (Ht c). symmetry. apply Hother.
           ++ intros E. subst c. rewrite cid_eqb_refl in E2. discriminate.
           ++ left. intros E. subst c. rewrite cid_eqb_refl in E1. discriminate.
    + (* slot occupied: nothing else written; its description does not change *)
      rewrite get_put. destruct (cid_eqb c (u, v, l)) eqn:E2.
      * apply cid_eqb_eq in E2. subst c. symmetry. exact Hmain.
      * rewrite (Ht c). destruct (cid_eqb c (v, u, l)) eqn:E1.
        -- apply cid_eqb_eq in E1. subst c. symmetry.
           unfold expected in M |- *. rewrite !find_snoc, HnS, HnP.
           assert (E3 : pD v u l e = false).
           { unfold pD. rewrite Hk. cbn. destruct (at3 v u l e) eqn:A; [|reflexivity]. apply at3_true in A. subst u v. destruct A as [A _]. congruence. }
           rewrite E3.
           destruct (find (pD v u l) P); [reflexivity|]. destruct (find (pP v u l) P); [reflexivity|].
           destruct (find (pS v u l) P); [reflexivity|].
           rewrite B1 in *. cbn [Nat.eqb andb] in *.
           assert (R : negb (Nat.eqb v u) = true) by (apply negb_true_iff, Nat.eqb_neq; congruence).
           rewrite R in *. rewrite HfD in M. cbn in M. discriminate.
        -- symmetry. apply Hother.
           ++ intros E. subst c. rewrite cid_eqb_refl in E2. discriminate.
           ++ left. intros E. subst c. rewrite cid_eqb_refl in E1. discriminate.
  - cbn [fst]. rewrite get_put. destruct (cid_eqb c (u, v, l)) eqn:E2.
    + apply cid_eqb_eq in E2. subst c. symmetry. exact Hmain.
    + rewrite (Ht c). symmetry. apply Hother.
      * intros E. subst c. rewrite cid_eqb_refl in E2. discriminate.
      * right. apply andb_false_iff in B. destruct B as [B|B]; [left; apply Nat.eqb_neq; exact B|right; apply negb_false_iff, Nat.eqb_eq in B; exact B].
Qed.

Lemma step_poss P st e : g_kind e = PossibleDirected -> compat (P ++ [e]) -> Inv P st -> Inv (P ++ [e]) (write_edge st e).
Proof.
  intros Hk C [Ht Hs]. destruct st as [t seen]. cbn [fst snd] in *.
  set (u := g_src e) in *. set (v := g_dst e) in *. set (l := g_lag e) in *.
  assert (Hat : at3 u v l e = true) by (apply at3_true; auto).
  assert (HpP : pP u v l e = true) by (unfold pP; rewrite Hk, Hat; reflexivity).
  assert (HnS : forall a b c, pS a b c e = false) by (intros; unfold pS; rewrite Hk; reflexivity).
  assert (HnD : forall a b c, pD a b c e = false) by (intros; unfold pD; rewrite Hk; reflexivity).
  assert (HfP : find (pP u v l) P = None).
  { destruct (find (pP u v l) P) as [x|] eqn:F; [exfalso|reflexivity].
    apply find_some in F. destruct F as [Hx Px]. unfold pP in Px. apply andb_prop in Px. destruct Px as [Kx Ax].
    apply kind_eqb_eq in Kx. apply at3_true in Ax. destruct C as [K _ _]. rewrite map_app in K. cbn [map] in K.
    apply NoDup_remove_2 in K. rewrite app_nil_r in K. apply K. apply in_map_iff. exists x. split; [|exact Hx].
    unfold gkey. destruct Ax as [-> [-> ->]]. rewrite Kx, Hk. reflexivity. }
  assert (HfD : find (pD u v l) P = None).
  { destruct (find (pD u v l) P) as [x|] eqn:F; [exfalso|reflexivity].
    apply find_some in F. destruct F as [Hx Px]. unfold pD in Px. apply andb_prop in Px. destruct Px as [Kx Ax].
    apply kind_eqb_eq in Kx. destruct C as [_ _ D].
    assert (A := D x e ltac:(apply in_or_app; left; exact Hx) ltac:(apply in_or_app; right; left; reflexivity) Kx Hk).
    apply at3_true in Ax. destruct Ax as [A1 [A2 A3]]. rewrite A1, A2, A3 in A. fold u v l in A. congruence. }
  split.
  2:{ intros a b c. unfold write_edge. rewrite Hk. cbn [snd]. rewrite find_snoc, HnS. rewrite (Hs a b c).
      destruct (find (pS a b c) P); split; congruence. }
  intros c. unfold write_edge. rewrite Hk. fold u v l. cbn [fst]. rewrite get_put.
  destruct (cid_eqb c (u, v, l)) eqn:E.
  - apply cid_eqb_eq in E. subst c. unfold expected. rewrite !find_snoc, HnD, HfD, HfP, HpP. reflexivity.
  - rewrite (Ht c). destruct c as [[i j] l']. unfold expected. rewrite !find_snoc, !HnD, HnS.
    assert (E1 : pP i j l' e = false).
    { unfold pP. rewrite Hk. cbn. destruct (at3 i j l' e) eqn:A; [|reflexivity]. apply at3_true in A.
      destruct A as [A1 [A2 A3]]. subst u v l. rewrite <- A1, <- A2, <- A3, cid_eqb_refl in E. discriminate. }
    rewrite E1.
    destruct (find (pD i j l') P); [reflexivity|]. destruct (find (pP i j l') P); [reflexivity|].
    destruct (find (pS i j l') P); [reflexivity|]. destruct (Nat.eqb l' 0 && negb (Nat.eqb i j)); [|reflexivity].
    destruct (find (pD j i l') P); reflexivity.
Qed.

Lemma step_sym P st e : sym_kind (g_kind e) = true -> compat (P ++ [e]) -> Inv P st -> Inv (P ++ [e]) (write_edge st e).
Proof.
  intros Hk C [Ht Hs]. destruct st as [t seen]. cbn [fst snd] in *.
  set (u := g_src e) in *. set (v := g_dst e) in *. set (l := g_lag e) in *.
  assert (Hat : at3 u v l e = true) by (apply at3_true; auto).
  assert (HnD : forall a b c, pD a b c e = false) by (intros; unfold pD; destruct (g_kind e); try discriminate; reflexivity).
  assert (HnP : forall a b c, pP a b c e = false) by (intros; unfold pP; destruct (g_kind e); try discriminate; reflexivity).
  assert (HpS : forall a b c, pS a b c e = touches a b c e) by (intros; unfold pS, touches; rewrite Hk; reflexivity).
  (* no Directed / PossibleDirected edge of P touches the pair *)
  assert (Hex : forall x, In x P -> touches u v l x = true -> g_kind x = g_kind e /\ g_val x = g_val e /\ g_p x = g_p e).
  { intros x Hx Tx. destruct C as [_ S _]. apply (S e x); [apply in_or_app; right; left; reflexivity|apply in_or_app; left; exact Hx|exact Hk|exact Tx]. }
  assert (HfD : forall a b, ((a = u /\ b = v) \/ (a = v /\ b = u)) -> find (pD a b l) P = None /\ find (pP a b l) P = None).
  { intros a b Hab. split.
    - destruct (find (pD a b l) P) as [x|] eqn:F; [exfalso|reflexivity]. apply find_some in F. destruct F as [Hx Px].
      unfold pD in Px. apply andb_prop in Px. destruct Px as [Kx Ax]. apply kind_eqb_eq in Kx.
      assert (T : touches u v l x = true) by (unfold touches; destruct Hab as [[-> ->]|[-> ->]]; rewrite Ax; [reflexivity|apply orb_true_r]).
      destruct (Hex x Hx T) as [K' _]. rewrite Kx in K'. rewrite <- K' in Hk. discriminate.
    - destruct (find (pP a b l) P) as [x|] eqn:F; [exfalso|reflexivity]. apply find_some in F. destruct F as [Hx Px].
      unfold pP in Px. apply andb_prop in Px. destruct Px as [Kx Ax]. apply kind_eqb_eq in Kx.
      assert (T : touches u v l x = true) by (unfold touches; destruct Hab as [[-> ->]|[-> ->]]; rewrite Ax; [reflexivity|apply orb_true_r]).
      destruct (Hex x Hx T) as [K' _]. rewrite Kx in K'. rewrite <- K' in Hk. discriminate. }
  assert (Htouch : forall a b c, touches a b c e = true <-> ((a = u /\ b = v) \/ (a = v /\ b = u)) /\ c = l).
  { intros a b c. unfold touches. rewrite orb_true_iff, !at3_true. fold u v l. split.
    - intros [[-> [-> ->]]|[-> [-> ->]]]; auto.
    - intros [[[-> ->]|[-> ->]] ->]; auto. }
  (* description of the cells of the pair after adding e, given what P already says about the pair *)
  assert (Hother : forall c, c <> (u, v, l) -> c <> (v, u, l) -> expected (P ++ [e]) c = expected P c).
  { intros [[i j] l'] N1 N2. unfold expected. rewrite !find_snoc, !HnD, HnP, HpS.
    assert (T : touches i j l' e = false).
    { destruct (touches i j l' e) eqn:T; [|reflexivity]. apply Htouch in T. destruct T as [[[-> ->]|[-> ->]] ->]; congruence. }
    rewrite T.
    destruct (find (pD i j l') P); [reflexivity|]. destruct (find (pP i j l') P); [reflexivity|].
    destruct (find (pS i j l') P); [reflexivity|]. destruct (Nat.eqb l' 0 && negb (Nat.eqb i j)); [|reflexivity].
    destruct (find (pD j i l') P); reflexivity. }
  unfold write_edge. destruct (g_kind e) eqn:Ke; try discriminate; fold u v l;
  (destruct (existsb (cid_eqb (Nat.min u v, Nat.max u v, l)) seen) eqn:Seen;
   [ (* pair already written: nothing changes, and the earlier edge carries the same kind and numbers *)
     assert (F : find (pS u v l) P <> None) by (apply Hs; exact Seen);
     destruct (find (pS u v l) P) as [x|] eqn:Fx; [clear F|congruence];
     split;
     [ intros c; cbn [fst]; rewrite (Ht c); destruct c as [[i j] l']; unfold expected; rewrite !find_snoc, !HnD, HnP, HpS;
       destruct (find (pD i j l') P); [reflexivity|]; destruct (find (pP i j l') P); [reflexivity|];
       destruct (find (pS i j l') P) eqn:Fs; [reflexivity|];
       destruct (touches i j l' e) eqn:T; [|destruct (Nat.eqb l' 0 && negb (Nat.eqb i j)); [destruct (find (pD j i l') P)|]; reflexivity];
       exfalso; apply Htouch in T; destruct T as [[[-> ->]|[-> ->]] ->]; [congruence|rewrite pS_sym_ext in Fs; congruence]
     | intros a b c; cbn [snd]; rewrite find_snoc, HpS, (Hs a b c); destruct (find (pS a b c) P) eqn:Fs;
       [split; congruence|];
       destruct (touches a b c e) eqn:T; [|split; congruence];
       exfalso; apply Htouch in T; destruct T as [[[-> ->]|[-> ->]] ->]; [congruence|rewrite pS_sym_ext in Fs; congruence] ]
   | (* first edge of the pair: both cells written *)
     assert (F : find (pS u v l) P = None)
       by (destruct (find (pS u v l) P) eqn:Fx; [exfalso; assert (X : existsb (cid_eqb (Nat.min u v, Nat.max u v, l)) seen = true) by (apply Hs; congruence); congruence|reflexivity]);
     assert (F' : find (pS v u l) P = None) by (rewrite pS_sym_ext; exact F);
     destruct (HfD u v (or_introl (conj eq_refl eq_refl))) as [D1 P1];
     destruct (HfD v u (or_intror (conj eq_refl eq_refl))) as [D2 P2];
     assert (Tuv : touches u v l e = true) by (apply Htouch; auto);
     assert (Tvu : touches v u l e = true) by (apply Htouch; auto);
     split;
     [ intros c; cbn [fst]; rewrite !get_put;
       destruct (cid_eqb c (v, u, l)) eqn:E1;
       [ apply cid_eqb_eq in E1; subst c; unfold expected; rewrite !find_snoc, !HnD, HnP, HpS, D2, P2, F', Tvu, Ke; reflexivity
       | destruct (cid_eqb c (u, v, l)) eqn:E2;
         [ apply cid_eqb_eq in E2; subst c; unfold expected; rewrite !find_snoc, !HnD, HnP, HpS, D1, P1, F, Tuv, Ke; reflexivity
         | rewrite (Ht c); symmetry; apply Hother; intros E; subst c; rewrite cid_eqb_refl in *; discriminate ] ]
     | intros a b c; cbn [snd existsb]; rewrite find_snoc, HpS, orb_true_iff, (Hs a b c), minmax_key, <- Htouch;
       destruct (find (pS a b c) P); [split; [congruence|intros _; right; congruence]|];
       destruct (touches a b c e); split; try congruence; try (intros [X|X]; congruence); intros _; left; reflexivity ] ]).
Qed.

(* writing a compatible list, in the order given, yields the table described by the SET of its edges *)
Theorem fold_characterised : forall es P st, Inv P st -> compat (P ++ es) -> Inv (P ++ es) (fold_left write_edge es st).
Proof.
  induction es as [|e es IH]; intros P st HI C; [rewrite app_nil_r; exact HI|].
  cbn [fold_left]. replace (P ++ e :: es) with ((P ++ [e]) ++ es) in * by (rewrite <- app_assoc; reflexivity).
  apply IH; [|exact C]. pose proof (compat_prefix _ _ C) as C1.
  destruct (g_kind e) eqn:K.
  - apply step_directed; assumption.
  - apply step_sym; [rewrite K; reflexivity|assumption|assumption].
  - apply step_sym; [rewrite K; reflexivity|assumption|assumption].
  - apply step_poss; assumption.
Qed.

Corollary to_pcmci_characterised n es : compat es -> forall c, get (p_tab (to_pcmci n es)) c = expected es c.
Proof. intros C c. unfold to_pcmci. cbn [p_tab]. exact (proj1 (fold_characterised es [] ([], []) Inv_nil C) c). Qed.
End Fold.
