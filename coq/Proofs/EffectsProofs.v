(* Lemmas about Model/Effects.v (C07): the boolean checks evaluated on the regenerated effect table mean what
   they say, for EVERY table -- in particular the reachable set they quantify over contains every function
   reachable in the table's call graph (completeness, via the checked closedness; no fuel argument needed) and
   nothing else (soundness). *)
From Coq Require Import List ZArith Bool String Lia.
From CE Require Import Model.Effects.
Import ListNotations.

(* reachability in the call graph of a table *)
Inductive Reach (t : table) (root : string) : string -> Prop :=
| reach_root : Reach t root root
| reach_step f g : Reach t root f -> In g (succs t f) -> Reach t root g.

Lemma mem_In s l : mem s l = true <-> In s l.
Proof.
  unfold mem. rewrite existsb_exists. split.
  - intros (x & Hx & E). apply String.eqb_eq in E. subst. exact Hx.
  - intros H. exists s. split; [exact H | apply String.eqb_refl].
Qed.

Lemma closed_complete t s root : mem root s = true -> closed t s = true -> forall f, Reach t root f -> In f s.
Proof.
  intros Hr Hc f HR. induction HR as [|f g _ IH Hg]; [apply mem_In; exact Hr|].
  unfold closed in Hc. rewrite forallb_forall in Hc. specialize (Hc f IH).
  unfold succs in Hg. destruct (lookup_fn t f) as [e|]; [|discriminate].
  rewrite forallb_forall in Hc. apply in_map_iff in Hg as (c & <- & Hin). apply mem_In. apply Hc. exact Hin.
Qed.

Lemma reach_sound t root : forall fuel seen frontier,
  (forall x, In x seen -> Reach t root x) -> (forall x, In x frontier -> Reach t root x) ->
  forall x, In x (reach fuel t seen frontier) -> Reach t root x.
Proof.
  induction fuel as [|k IH]; intros seen frontier Hs Hf x Hx; cbn [reach] in Hx; [auto|].
  destruct frontier as [|f rest]; [auto|].
  destruct (mem f seen) eqn:E.
  - apply (IH seen rest); auto. intros y Hy. apply Hf. right. exact Hy.
  - apply (IH (f :: seen) (succs t f ++ rest)%list); auto.
    + intros y [<-|Hy]; [apply Hf; left; reflexivity | auto].
    + intros y Hy. apply in_app_or in Hy as [Hy|Hy].
      * apply reach_step with f; [apply Hf; left; reflexivity | exact Hy].
      * apply Hf. right. exact Hy.
Qed.

(* when the scope check passes, the computed set IS the set of reachable functions *)
Theorem reach_set_exact t root : scope_ok t root = true ->
  forall f, In f (reach_set t root) <-> Reach t root f.
Proof.
  unfold scope_ok. intros H. apply andb_true_iff in H as [Hr Hc]. intros f. split.
  - apply reach_sound; [intros x [] | intros x [<-|[]]; constructor].
  - apply closed_complete; assumption.
Qed.

Theorem reachable_defined t root : scope_ok t root = true ->
  forall f, Reach t root f -> exists e, lookup_fn t f = Some e.
Proof.
  intros H f HR. apply (reach_set_exact t root H) in HR.
  unfold scope_ok in H. apply andb_true_iff in H as [_ Hc]. unfold closed in Hc. rewrite forallb_forall in Hc.
  specialize (Hc f HR). destruct (lookup_fn t f) as [e|]; [eauto | discriminate].
Qed.

(* no function reachable from the root touches hidden or ambient state *)
Theorem no_global_rng_sound t root : no_global_rng_reachable t root = true ->
  forall f, Reach t root f -> exists e, lookup_fn t f = Some e /\ flags e = [].
Proof.
  unfold no_global_rng_reachable. intros H. apply andb_true_iff in H as [Hs Hf]. intros f HR.
  apply (reach_set_exact t root Hs) in HR. rewrite forallb_forall in Hf. specialize (Hf f HR).
  destruct (lookup_fn t f) as [e|]; [|discriminate]. exists e. split; [reflexivity|].
  destruct (flags e); [reflexivity | discriminate].
Qed.

Theorem seed_is_literal_sound t root : seed_is_literal t root = true ->
  exists e k, lookup_fn t root = Some e /\ rngk e = RngSeeded k.
Proof.
  unfold seed_is_literal. destruct (lookup_fn t root) as [e|]; [|discriminate].
  destruct (rngk e) as [|k| |] eqn:E; try discriminate. eauto.
Qed.

(* at every call site inside a reachable function, a callee that takes a generator receives the caller's own
   generator, and the caller has one (made from a literal seed, or itself received under the same rule); every
   test function is reachable and takes its generator as a parameter *)
Theorem rng_threaded_sound t root tests : rng_threaded_to_every_test t root tests = true ->
  (forall f, Reach t root f -> exists e, lookup_fn t f = Some e /\ rngk e <> RngBad /\
     forall g a, In (g, a) (calls e) -> exists ge, lookup_fn t g = Some ge /\ rngk ge <> RngBad /\
       (rngk ge = RngParam -> a = ArgRng /\ carries (rngk e) = true))
  /\ tests <> [] /\ (forall x, In x tests -> Reach t root x /\ exists e, lookup_fn t x = Some e /\ rngk e = RngParam).
Proof.
  unfold rng_threaded_to_every_test. intros H. rewrite !andb_true_iff in H. destruct H as [[[Hs Hf] Hn] Ht].
  split; [|split].
  - intros f HR. apply (reach_set_exact t root Hs) in HR. rewrite forallb_forall in Hf. specialize (Hf f HR).
    destruct (lookup_fn t f) as [e|]; [|discriminate]. exists e. split; [reflexivity|].
    apply andb_true_iff in Hf as [Hk Hc]. split; [intros E; rewrite E in Hk; discriminate|].
    intros g a Hin. rewrite forallb_forall in Hc. specialize (Hc _ Hin). unfold site_ok in Hc. cbn [fst snd] in Hc.
    destruct (lookup_fn t g) as [ge|]; [|discriminate]. exists ge. split; [reflexivity|].
    destruct (rngk ge) eqn:Eg; try discriminate; (split; [discriminate|]); try discriminate.
    intros _. apply andb_true_iff in Hc as [Ha Hc]. split; [destruct a; try discriminate; reflexivity | exact Hc].
  - destruct tests; [discriminate | discriminate].
  - intros x Hx. rewrite forallb_forall in Ht. specialize (Ht x Hx). apply andb_true_iff in Ht as [Hm He].
    split; [apply (reach_set_exact t root Hs); apply mem_In; exact Hm|].
    destruct (lookup_fn t x) as [e|]; [|discriminate]. exists e. split; [reflexivity|].
    destruct (rngk e); try discriminate; reflexivity.
Qed.

Theorem covers_sound t root obs : scope_ok t root = true -> covers t root obs = true ->
  forall f, In f obs -> Reach t root f.
Proof.
  intros Hs H f Hf. unfold covers in H. rewrite forallb_forall in H.
  apply (reach_set_exact t root Hs). apply mem_In. apply H. exact Hf.
Qed.

(* ---- a small table: what passes, and the five kinds of change that do not *)
Open Scope string_scope.
Definition ex_table (flag_est : list string) (seed : rng_kind) (arg : rng_arg) : table :=
  [mk_fn "d:discover" [("d:forward", ArgRng); ("d:test", arg); ("i:cmi", ArgNA)] [] seed;
   mk_fn "d:forward" [("i:cmi", ArgNA); ("d:test", ArgRng)] [] RngParam;
   mk_fn "d:test" [("i:cmi", ArgNA)] [] RngParam;
   mk_fn "i:cmi" [("i:est", ArgNA)] [] NoRng;
   mk_fn "i:est" [] flag_est NoRng;
   mk_fn "p:plot" [] ["numpy.random.rand"] NoRng].
Example ex_table_ok :
  let t := ex_table [] (RngSeeded 42) ArgRng in
  no_global_rng_reachable t "d:discover" = true /\ seed_is_literal t "d:discover" = true /\
  rng_threaded_to_every_test t "d:discover" ["d:test"] = true /\
  reach_set t "d:discover" = ["d:test"; "i:est"; "i:cmi"; "d:forward"; "d:discover"].
Proof. vm_compute. auto. Qed.
Example ex_table_bad :
  no_global_rng_reachable (ex_table ["numpy.random.permutation"] (RngSeeded 42) ArgRng) "d:discover" = false /\
  seed_is_literal (ex_table [] NoRng ArgRng) "d:discover" = false /\
  rng_threaded_to_every_test (ex_table [] NoRng ArgRng) "d:discover" ["d:test"] = false /\
  rng_threaded_to_every_test (ex_table [] (RngSeeded 42) ArgMissing) "d:discover" ["d:test"] = false /\
  rng_threaded_to_every_test (ex_table [] (RngSeeded 42) ArgRng) "d:discover" ["d:absent"] = false.
Proof. vm_compute. auto. Qed.
