(* Further unbounded facts about the lag-subnetwork model (Model/LagNet.v, [subnet]):
   edge counts add up over the lags, taking a subnetwork is idempotent, subnetworks of different
   lags of a subnetwork are empty, and uniqueness of edges is inherited.  Proofs only. *)
From Coq Require Import List Arith Lia Permutation.
From CE Require Import Model.LagNet Proofs.LagNetProofs.
Import ListNotations.
Local Open Scope nat_scope.

Lemma length_flat_map {A B} (f : A -> list B) l :
  length (flat_map f l) = fold_right (fun a s => length (f a) + s) 0 l.
Proof. induction l as [|a l IH]; cbn [flat_map fold_right]; [reflexivity|]. rewrite app_length, IH. reflexivity. Qed.

Lemma subnet_counts_add_up es K : (forall e, In e es -> lag e <= K) ->
  length es = fold_right (fun k s => length (subnet k es) + s) 0 (seq 0 (S K)).
Proof.
  intros H. rewrite <- (length_flat_map (fun k => subnet k es)).
  apply Permutation_length, subnets_partition, H.
Qed.

Lemma subnet_idempotent k es : subnet k (subnet k es) = subnet k es.
Proof.
  unfold subnet. induction es as [|e es IH]; cbn [filter]; [reflexivity|].
  destruct (Nat.eqb (lag e) k) eqn:E; cbn [filter]; [rewrite E, IH; reflexivity|exact IH].
Qed.

Lemma subnet_of_other_lag_empty k1 k2 es : k1 <> k2 -> subnet k1 (subnet k2 es) = [].
Proof.
  intros Hne. unfold subnet. induction es as [|e es IH]; cbn [filter]; [reflexivity|].
  destruct (Nat.eqb (lag e) k2) eqn:E; cbn [filter]; [|exact IH].
  apply Nat.eqb_eq in E.
  destruct (Nat.eqb (lag e) k1) eqn:E1; [apply Nat.eqb_eq in E1; congruence|exact IH].
Qed.

Lemma subnet_NoDup k es : NoDup es -> NoDup (subnet k es).
Proof. intros H. unfold subnet. apply NoDup_filter, H. Qed.

(* subnetworks keep the relative order of the edges (they are sublists) *)
Lemma subnet_app k es1 es2 : subnet k (es1 ++ es2) = subnet k es1 ++ subnet k es2.
Proof. unfold subnet. apply filter_app. Qed.
