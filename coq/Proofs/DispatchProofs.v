From Coq Require Import QArith Qminmax String List Bool.
From CE Require Import Model.Dispatch Proofs.DiscoverProofs.
Import ListNotations.
Open Scope string_scope.

(* dispatcher result = floor0 (named estimator's value); unknown name = error *)
Theorem dispatch_is_floored_estimator tbl est name zp r :
  lookup_route tbl name zp = Some r -> dispatch tbl est name zp = Some (floor0 (est r)).
Proof. intros H. unfold dispatch. rewrite H. reflexivity. Qed.

Theorem dispatch_never_finite_negative tbl est name zp v :
  dispatch tbl est name zp = Some v -> finite_negative v = false.
Proof.
  unfold dispatch. destruct (lookup_route tbl name zp); [|discriminate]. intros H. injection H as <-.
  apply floor0_never_finite_negative.
Qed.

Theorem nonfinite_passes_through tbl est name zp r :
  lookup_route tbl name zp = Some r ->
  (est r = NaN -> dispatch tbl est name zp = Some NaN) /\
  (est r = PInf -> dispatch tbl est name zp = Some PInf) /\
  (est r = NInf -> dispatch tbl est name zp = Some NInf).
Proof. intros H. unfold dispatch. rewrite H. repeat split; intros ->; reflexivity. Qed.

Theorem unknown_name_raises est name zp :
  mem name names = false -> dispatch modelled_routes est name zp = None.
Proof.
  intros H. unfold dispatch.
  destruct (lookup_route modelled_routes name zp) as [r|] eqn:E; [|reflexivity].
  unfold lookup_route in E. apply find_some in E. destruct E as [Hin Hb].
  apply andb_true_iff in Hb. destruct Hb as [Hn _]. apply String.eqb_eq in Hn. subst name.
  exfalso. revert H. cbn in Hin.
  repeat (destruct Hin as [<-|Hin]; [cbn; discriminate|]). destruct Hin.
Qed.

(* 'kde' and 'kernel_density' are treated alike, with and without a conditioning set *)
Theorem kde_alias est zp :
  (forall r r', r_callee r = r_callee r' -> r_forwards r = r_forwards r' -> r_zpresent r = r_zpresent r' -> est r = est r') ->
  dispatch modelled_routes est "kde" zp = dispatch modelled_routes est "kernel_density" zp.
Proof. intros H. destruct zp; cbn; f_equal; f_equal; apply H; reflexivity. Qed.

(* every route except (geometric_knn, Z absent) forwards every setting its callee accepts ... *)
Theorem forwards_partial : forall r, In r modelled_routes -> is_K1 r = false -> forwards_all r = true.
Proof.
  assert (H : forallb (fun r => forwards_all r || is_K1 r) modelled_routes = true) by (vm_compute; reflexivity).
  intros r Hin Hk. rewrite forallb_forall in H. specialize (H r Hin). rewrite Hk, orb_false_r in H. exact H.
Qed.

(* ... and that one route drops k and metric: known finding K1 (pinned by a baseline test) *)
Theorem forwards_refuted : exists r, In r modelled_routes /\ is_K1 r = true /\
  mem "k" (accepts (r_callee r)) = true /\ mem "k" (r_forwards r) = false /\ mem "metric" (r_forwards r) = false.
Proof.
  exists {| r_name := "geometric_knn"; r_zpresent := false; r_callee := "geometric_knn_mutual_information"; r_forwards := [] |}.
  repeat split; try reflexivity. cbn. do 9 right. left. reflexivity.
Qed.
