From Coq Require Import List Arith ZArith QArith Bool Lia Lqa.
From CE Require Import Model.Poisson.
Import ListNotations.
Open Scope Q_scope.

Lemma Qle_bool_false a b : Qle_bool a b = false -> b < a.
Proof. intros H. apply Qnot_le_lt. intros K. apply Qle_bool_iff in K. congruence. Qed.

Section Dom.
Variable left : nat -> nat -> bool.
Variable prob : nat -> nat -> Q.
Variable lam : nat -> Q.
Hypothesis prob_le_1 : forall j i, prob j i <= 1.

Notation loop := (Poisson.loop left prob lam).
Notation maxlam := (Poisson.maxlam lam).
Notation pick := (Poisson.pick prob).

Lemma qmaxl_ge_d d l : d <= qmaxl d l.
Proof.
  induction l as [|a l IH]; cbn [qmaxl fold_right]; [lra|]. fold (qmaxl d l).
  destruct (Qle_bool (qmaxl d l) a) eqn:E; [apply Qle_bool_iff in E; lra|exact IH].
Qed.

Lemma qmaxl_ge_in d l x : In x l -> x <= qmaxl d l.
Proof.
  induction l as [|a l IH]; [intros []|]. cbn [qmaxl fold_right]. fold (qmaxl d l). intros [->|H].
  - destruct (Qle_bool (qmaxl d l) x) eqn:E; [lra|apply Qle_bool_false in E; lra].
  - specialize (IH H). destruct (Qle_bool (qmaxl d l) a) eqn:E; [apply Qle_bool_iff in E; lra|exact IH].
Qed.

Lemma qmaxl_le_1 l : forall d, d <= 1 -> (forall x, In x l -> x <= 1) -> qmaxl d l <= 1.
Proof.
  induction l as [|x l IHl]; intros d Hd Hl; cbn [qmaxl fold_right]; [exact Hd|]. fold (qmaxl d l).
  destruct (Qle_bool (qmaxl d l) x); [apply Hl; left; reflexivity|apply IHl; [exact Hd|intros y Hy; apply Hl; right; exact Hy]].
Qed.

Lemma maxlam_ge els j : In j els -> lam j <= maxlam els.
Proof.
  destruct els as [|a r]; [intros []|]. cbn [Poisson.maxlam]. intros [->|H].
  - apply qmaxl_ge_d.
  - apply qmaxl_ge_in. apply in_map. exact H.
Qed.

Lemma pick_max_ge els j i : In j els -> prob j i <= pick MaxRule els i.
Proof.
  destruct els as [|a r]; [intros []|]. cbn [Poisson.pick]. intros [->|H].
  - apply qmaxl_ge_d.
  - apply qmaxl_ge_in. apply (in_map (fun k => prob k i)). exact H.
Qed.

Lemma pick_max_le_1 els i : pick MaxRule els i <= 1.
Proof.
  destruct els as [|a r]; cbn [Poisson.pick]; [lra|]. apply qmaxl_le_1; [apply prob_le_1|].
  intros x Hx. apply in_map_iff in Hx. destruct Hx as (k & <- & _). apply prob_le_1.
Qed.

Lemma loop_ge ru els : forall fuel i s, (i <= loop ru els fuel i s)%nat.
Proof.
  induction fuel as [|f IH]; intros i s; cbn [Poisson.loop]; [lia|].
  destruct (_ && _); [|lia]. eapply Nat.le_trans; [|apply IH]. lia.
Qed.

(* the vector call never stops before the scalar call of any of its elements would: each element
   receives at least every term its own scalar call sums (the coupling of finding F2 is gone) *)
Lemma maxrule_dominates_gen els j : In j els ->
  forall fuel i sv sj, sj <= sv -> (sv == 1 \/ maxlam els <= inject_Z (Z.of_nat i) - 1) ->
  (loop MaxRule [j] fuel i sj <= loop MaxRule els fuel i sv)%nat.
Proof.
  intros Hj. induction fuel as [|f IH]; intros i sv sj Hs Hinv; cbn [Poisson.loop]; [lia|].
  cbn [existsb]. rewrite orb_false_r.
  destruct (left j (i - 1) && negb (Qle_bool sj delta)) eqn:Cj.
  - (* the scalar call continues: so does the vector call *)
    apply andb_true_iff in Cj. destruct Cj as [Lj Dj]. apply negb_true_iff in Dj. apply Qle_bool_false in Dj.
    assert (Ev : existsb (fun k => left k (i - 1)) els = true) by (apply existsb_exists; exists j; split; assumption).
    assert (Dv : Qle_bool sv delta = false) by (apply not_true_is_false; intros K; apply Qle_bool_iff in K; lra).
    rewrite Ev, Dv. cbn [andb negb].
    assert (Hi : inject_Z (Z.of_nat (S i)) - 1 == inject_Z (Z.of_nat i)).
    { rewrite Nat2Z.inj_succ. unfold Z.succ. rewrite inject_Z_plus. ring. }
    cbn [Poisson.maxlam map qmaxl fold_right Poisson.pick].
    destruct (Qle_bool (maxlam els) (inject_Z (Z.of_nat i))) eqn:Mv.
    + apply Qle_bool_iff in Mv. pose proof (maxlam_ge els j Hj) as Hm.
      assert (Mj : Qle_bool (lam j) (inject_Z (Z.of_nat i)) = true) by (apply Qle_bool_iff; lra).
      rewrite Mj. apply IH; [apply pick_max_ge; exact Hj|right; rewrite Hi; exact Mv].
    + apply Qle_bool_false in Mv.
      assert (Hsv : sv == 1) by (destruct Hinv as [H|H]; [exact H|lra]).
      destruct (Qle_bool (lam j) (inject_Z (Z.of_nat i))).
      * apply IH; [rewrite Hsv; apply prob_le_1|left; exact Hsv].
      * apply IH; [exact Hs|left; exact Hsv].
  - (* the scalar call stops at i; the vector call stops at i or later *)
    destruct (existsb _ els && negb (Qle_bool sv delta)); [|lia].
    eapply Nat.le_trans; [|apply loop_ge]. lia.
Qed.

Theorem maxrule_dominates els j fuel : In j els ->
  (terms left prob lam MaxRule [j] fuel <= terms left prob lam MaxRule els fuel)%nat.
Proof. intros Hj. unfold terms. apply maxrule_dominates_gen; [exact Hj|lra|left; reflexivity]. Qed.
End Dom.

(* the pinned MIN rule lets the smallest rate stop the series of the largest: finding F2 inside Coq.
   Two elements: A has a tiny rate (its pmf terms fall below 1e-75 at once), B has rate 5 and needs ~30 terms. *)
Definition wl (j m : nat) : bool := match j with O => false | _ => Nat.ltb m 30 end.
Definition wp (j i : nat) : Q := match j with O => 1 / inject_Z (10 ^ (Z.of_nat (30 * i))) | _ => 1 / inject_Z (Z.of_nat (i * i + 40)) end.
Definition wlam (j : nat) : Q := match j with O => 1 / inject_Z (10 ^ 30) | _ => 5 end.
Theorem minrule_refuted :
  terms wl wp wlam MinRule [0; 1]%nat 100 = 6%nat /\ terms wl wp wlam MinRule [1]%nat 100 = 31%nat /\
  terms wl wp wlam MaxRule [0; 1]%nat 100 = 31%nat.
Proof. vm_compute. repeat split; reflexivity. Qed.

(* zero rate: the loop does not run at all when no mass is left after the first term (lambda = 0: exp(-0) = 1) *)
Theorem zero_rate_no_terms prob lam ru els fuel :
  terms (fun _ _ => false) prob lam ru els fuel = 1%nat.
Proof.
  unfold terms. destruct fuel; cbn [Poisson.loop]; [reflexivity|].
  assert (E : existsb (fun _ : nat => false) els = false) by (induction els; cbn; auto). rewrite E. reflexivity.
Qed.

(* ---------- joint entropy ------------------------------------------------------------------------ *)
Lemma qsum_app a b : qsum (a ++ b) == qsum a + qsum b.
Proof. induction a as [|x a IH]; cbn [app qsum]; [ring|]. rewrite IH. ring. Qed.

(* the triangular part really is "column index strictly greater than row index", for rows of any length *)
Lemma triu1_row_nth C i j : (i < length C)%nat -> (j < length (nth i C []))%nat ->
  nth j (nth i (triu1 C) []) 0 = if Nat.ltb i j then ent C i j else 0.
Proof.
  intros Hi Hj. unfold triu1, ent.
  set (f := fun ir : nat * list Q => map (fun jx : nat * Q => if Nat.ltb (fst ir) (fst jx) then snd jx else 0)
                                        (combine (seq 0 (length (snd ir))) (snd ir))).
  assert (E : map (fun '(i0, row) => map (fun '(j0, x) => if Nat.ltb i0 j0 then x else 0) (combine (seq 0 (length row)) row))
                  (combine (seq 0 (length C)) C) = map f (combine (seq 0 (length C)) C)).
  { apply map_ext. intros [i0 row]. unfold f. cbn [fst snd]. apply map_ext. intros [j0 x]. reflexivity. }
  rewrite E. clear E.
  rewrite (nth_indep _ [] (f (0%nat, []))) by (rewrite map_length, combine_length, seq_length; lia).
  rewrite (map_nth f). rewrite combine_nth by (rewrite seq_length; reflexivity).
  rewrite seq_nth by exact Hi. unfold f. cbn [fst snd Nat.add].
  set (g := fun jx : nat * Q => if Nat.ltb i (fst jx) then snd jx else 0).
  rewrite (nth_indep _ 0 (g (0%nat, 0))) by (rewrite map_length, combine_length, seq_length; lia).
  rewrite (map_nth g). rewrite combine_nth by (rewrite seq_length; reflexivity).
  rewrite seq_nth by exact Hj. unfold g. cbn [fst snd Nat.add]. reflexivity.
Qed.

Theorem joint_entropy_def h C :
  joint_entropy h C = qsum (map (fun x => h (Qabs' x)) (diag C)) + qsum (map qsum (triu1 C)).
Proof. reflexivity. Qed.

Example joint_instance :
  joint_entropy (fun x => x * x) [[2; 1#2; 7]; [100; -3; 1#4]; [100; 100; 1]] == 4 + 9 + 1 + (1#2) + 7 + (1#4).
Proof. vm_compute. reflexivity. Qed.
