From Coq Require Import List ZArith QArith Bool Lia Lra Lqa Field.
From CE Require Import Model.Stats.
Import ListNotations.
Open Scope Z_scope.

(* ---------- finite sums ---------------------------------------------------- *)
Lemma sumn_ext n g h : (forall i, (i < n)%nat -> g i = h i) -> sumn n g = sumn n h.
Proof.
  induction n as [|n IH]; cbn [sumn]; intros H; [reflexivity|].
  rewrite IH by (intros i Hi; apply H; lia). rewrite H by lia. reflexivity.
Qed.

Lemma sumn_add n g h : sumn n (fun i => g i + h i) = sumn n g + sumn n h.
Proof. induction n as [|n IH]; cbn [sumn]; [reflexivity|]. rewrite IH. lia. Qed.

Lemma sumn_const n c : sumn n (fun _ => c) = Z.of_nat n * c.
Proof. induction n as [|n IH]; cbn [sumn]; [lia|]. rewrite IH. lia. Qed.

Lemma sumn_nonneg n g : (forall i, (i < n)%nat -> 0 <= g i) -> 0 <= sumn n g.
Proof.
  induction n as [|n IH]; cbn [sumn]; intros H; [lia|].
  specialize (IH ltac:(intros i Hi; apply H; lia)). specialize (H n ltac:(lia)). lia.
Qed.

Lemma sumn_zero n g : (forall i, (i < n)%nat -> g i = 0) -> sumn n g = 0.
Proof. intros H. rewrite (sumn_ext n g (fun _ => 0) H), sumn_const. lia. Qed.

Lemma sumn_offdiag_out n i c : (n <= i)%nat -> sumn n (fun j => if Nat.eqb i j then 0 else c) = Z.of_nat n * c.
Proof.
  intros Hi. rewrite <- sumn_const. apply sumn_ext. intros j Hj.
  destruct (Nat.eqb_spec i j); [lia|reflexivity].
Qed.

Lemma sumn_offdiag n i c : (i < n)%nat -> sumn n (fun j => if Nat.eqb i j then 0 else c) = (Z.of_nat n - 1) * c.
Proof.
  induction n as [|n IH]; intros Hi; [lia|]. cbn [sumn].
  destruct (Nat.eqb_spec i n) as [E|E].
  - subst i. rewrite sumn_offdiag_out by lia. lia.
  - rewrite IH by lia. lia.
Qed.

Lemma sum2_ext n f g : (forall i j, (i < n)%nat -> (j < n)%nat -> f i j = g i j) -> sum2 n f = sum2 n g.
Proof. intros H. unfold sum2. apply sumn_ext. intros i Hi. apply sumn_ext. intros j Hj. apply H; assumption. Qed.

Lemma sum2_add n f g : sum2 n (fun i j => f i j + g i j) = sum2 n f + sum2 n g.
Proof. unfold sum2. rewrite <- sumn_add. apply sumn_ext. intros i _. apply sumn_add. Qed.

Lemma sum2_nonneg n f : (forall i j, (i < n)%nat -> (j < n)%nat -> 0 <= f i j) -> 0 <= sum2 n f.
Proof. intros H. unfold sum2. apply sumn_nonneg. intros i Hi. apply sumn_nonneg. intros j Hj. apply H; assumption. Qed.

Lemma sum2_zero n f : (forall i j, (i < n)%nat -> (j < n)%nat -> f i j = 0) -> sum2 n f = 0.
Proof. intros H. unfold sum2. apply sumn_zero. intros i Hi. apply sumn_zero. intros j Hj. apply H; assumption. Qed.

Lemma offdiag_pairs n : sum2 n (fun i j => if Nat.eqb i j then 0 else 1) = Z.of_nat n * (Z.of_nat n - 1).
Proof.
  unfold sum2. rewrite (sumn_ext n _ (fun _ => (Z.of_nat n - 1) * 1)).
  - rewrite sumn_const. lia.
  - intros i Hi. apply sumn_offdiag. exact Hi.
Qed.

(* ---------- pointwise facts ------------------------------------------------- *)
Section Pointwise.
Variables (n : nat) (A B : mat).
Hypothesis HA : binary n A.
Hypothesis HB : binary n B.
Hypothesis DA : zero_diag n A.
Hypothesis DB : zero_diag n B.

Ltac cell i j Hi Hj :=
  unfold offd, ind;
  destruct (Nat.eqb_spec i j) as [E|E];
  [ subst; rewrite ?(DA _ Hi), ?(DB _ Hi); reflexivity
  | destruct (HA i j Hi Hj) as [Ea|Ea]; destruct (HB i j Hi Hj) as [Eb|Eb]; rewrite Ea, Eb; reflexivity ].

Lemma fn_code_is_FN : fn_code n A B = FN n A B.
Proof. apply sum2_ext. intros i j Hi Hj. cell i j Hi Hj. Qed.

Lemma fp_code_is_FP : fp_code n A B = FP n A B.
Proof. apply sum2_ext. intros i j Hi Hj. cell i j Hi Hj. Qed.

Lemma pos_code_is_TP_FN : pos_code n A = TP n A B + FN n A B.
Proof.
  unfold pos_code, TP, FN. rewrite <- sum2_add. apply sum2_ext. intros i j Hi Hj. cell i j Hi Hj.
Qed.

Lemma four_cells : TP n A B + FN n A B + FP n A B + TN n A B = Z.of_nat n * (Z.of_nat n - 1).
Proof.
  rewrite <- offdiag_pairs. unfold TP, FN, FP, TN. rewrite <- !sum2_add.
  apply sum2_ext. intros i j Hi Hj. cell i j Hi Hj.
Qed.

Lemma neg_code_is_FP_TN : neg_code n A = FP n A B + TN n A B.
Proof. unfold neg_code. rewrite pos_code_is_TP_FN. pose proof four_cells. lia. Qed.

Lemma counts_nonneg : 0 <= TP n A B /\ 0 <= FN n A B /\ 0 <= FP n A B /\ 0 <= TN n A B.
Proof.
  repeat split; apply sum2_nonneg; intros i j _ _; unfold offd, ind;
    destruct (Nat.eqb i j); try lia; match goal with |- context [if ?b then _ else _] => destruct b end; lia.
Qed.

(* the code's expressions equal the confusion-matrix definitions, as rationals *)
Theorem tpr_code_is_def : (tpr_code n A B == tpr_def n A B)%Q.
Proof.
  unfold tpr_code, tpr_def. rewrite fn_code_is_FN, pos_code_is_TP_FN.
  destruct counts_nonneg as (Htp & Hfn & _ & _).
  destruct (Z.eqb_spec (TP n A B + FN n A B) 0) as [E|E].
  - rewrite E. cbn. reflexivity.
  - destruct (Z.ltb_spec 0 (TP n A B + FN n A B)) as [L|L]; [|lia].
    rewrite inject_Z_plus.
    assert (Hnz : ~ (inject_Z (TP n A B) + inject_Z (FN n A B) == 0)%Q).
    { rewrite <- inject_Z_plus. intros H. unfold Qeq, inject_Z in H; cbn [Qnum Qden] in H. lia. }
    field. exact Hnz.
Qed.

Theorem fpr_code_is_def : (fpr_code n A B == fpr_def n A B)%Q.
Proof.
  unfold fpr_code, fpr_def. rewrite fp_code_is_FP, neg_code_is_FP_TN.
  destruct counts_nonneg as (_ & _ & Hfp & Htn).
  destruct (Z.eqb_spec (FP n A B + TN n A B) 0) as [E|E].
  - rewrite E. cbn. reflexivity.
  - destruct (Z.ltb_spec 0 (FP n A B + TN n A B)) as [L|L]; [|lia]. reflexivity.
Qed.

(* both rates lie in [0,1] *)
Lemma Qdiv_unit (a b : Z) : 0 <= a -> 0 <= b -> a + b <> 0 ->
  (0 <= inject_Z a / inject_Z (a + b) /\ inject_Z a / inject_Z (a + b) <= 1)%Q.
Proof.
  intros Ha Hb Hnz.
  assert (Hpos : (0 < inject_Z (a + b))%Q) by (rewrite <- (Zlt_Qlt 0); lia).
  split.
  - apply Qle_shift_div_l; [exact Hpos|]. rewrite Qmult_0_l. rewrite <- (Zle_Qle 0). exact Ha.
  - apply Qle_shift_div_r; [exact Hpos|]. rewrite Qmult_1_l. rewrite <- Zle_Qle. lia.
Qed.

Theorem tpr_def_unit : (0 <= tpr_def n A B /\ tpr_def n A B <= 1)%Q.
Proof.
  unfold tpr_def. destruct counts_nonneg as (Htp & Hfn & _ & _).
  destruct (Z.eqb_spec (TP n A B + FN n A B) 0) as [E|E]; [split; discriminate|].
  apply Qdiv_unit; assumption.
Qed.

Theorem fpr_def_unit : (0 <= fpr_def n A B /\ fpr_def n A B <= 1)%Q.
Proof.
  unfold fpr_def. destruct counts_nonneg as (_ & _ & Hfp & Htn).
  destruct (Z.eqb_spec (FP n A B + TN n A B) 0) as [E|E]; [split; discriminate|].
  apply Qdiv_unit; assumption.
Qed.

Theorem rates_code_unit :
  (0 <= tpr_code n A B /\ tpr_code n A B <= 1 /\ 0 <= fpr_code n A B /\ fpr_code n A B <= 1)%Q.
Proof.
  rewrite tpr_code_is_def, fpr_code_is_def.
  destruct tpr_def_unit, fpr_def_unit. repeat split; assumption.
Qed.
End Pointwise.

(* identical matrices give (1, 0) -- needs no hypothesis at all on the entries *)
Theorem identical_gives_1_0 n A : (tpr_code n A A == 1 /\ fpr_code n A A == 0)%Q.
Proof.
  assert (F : fn_code n A A = 0) by (apply sum2_zero; intros i j _ _; rewrite Z.sub_diag; reflexivity).
  assert (G : fp_code n A A = 0) by (apply sum2_zero; intros i j _ _; rewrite Z.sub_diag; reflexivity).
  unfold tpr_code, fpr_code. rewrite F, G. split.
  - destruct (0 <? pos_code n A) eqn:E; [|reflexivity].
    apply Z.ltb_lt in E. unfold Qdiv. rewrite Qmult_0_l. reflexivity.
  - destruct (0 <? neg_code n A); [|reflexivity]. unfold Qdiv. rewrite Qmult_0_l. reflexivity.
Qed.

(* predicting the off-diagonal complement of a truth with both edges and non-edges gives (0, 1) *)
Lemma ent_complement n A i j : (i < n)%nat -> (j < n)%nat ->
  ent (complement n A) i j = if Nat.eqb i j then 0 else 1 - ent A i j.
Proof.
  intros Hi Hj. unfold ent at 1, complement.
  rewrite (nth_indep _ [] (map (fun j0 => if Nat.eqb 0 j0 then 0 else 1 - ent A 0 j0) (seq 0 n)))
    by (rewrite map_length, seq_length; exact Hi).
  rewrite (map_nth (fun i0 => map (fun j0 => if Nat.eqb i0 j0 then 0 else 1 - ent A i0 j0) (seq 0 n)) (seq 0 n) 0%nat i).
  rewrite seq_nth by exact Hi. cbn [Nat.add].
  rewrite (nth_indep _ 0 ((fun j0 => if Nat.eqb i j0 then 0 else 1 - ent A i j0) 0%nat))
    by (rewrite map_length, seq_length; exact Hj).
  rewrite (map_nth (fun j0 => if Nat.eqb i j0 then 0 else 1 - ent A i j0) (seq 0 n) 0%nat j).
  rewrite seq_nth by exact Hj. reflexivity.
Qed.

Theorem complement_gives_0_1 n A :
  binary n A -> zero_diag n A -> 0 < pos_code n A -> 0 < neg_code n A ->
  (tpr_code n A (complement n A) == 0 /\ fpr_code n A (complement n A) == 1)%Q.
Proof.
  intros HA DA HP HN.
  assert (F : fn_code n A (complement n A) = pos_code n A).
  { apply sum2_ext. intros i j Hi Hj. rewrite ent_complement by assumption. unfold ind.
    destruct (Nat.eqb_spec i j) as [E|E].
    - subst. rewrite (DA _ Hi). reflexivity.
    - destruct (HA i j Hi Hj) as [Ea|Ea]; rewrite Ea; reflexivity. }
  assert (G : fp_code n A (complement n A) = neg_code n A).
  { unfold neg_code, fp_code, pos_code. rewrite <- offdiag_pairs.
    apply Z.add_cancel_r with (p := sum2 n (fun i j => ent A i j)). rewrite Z.sub_add.
    rewrite <- sum2_add. apply sum2_ext. intros i j Hi Hj. rewrite ent_complement by assumption. unfold ind.
    destruct (Nat.eqb_spec i j) as [E|E].
    - subst. rewrite (DA _ Hi). reflexivity.
    - destruct (HA i j Hi Hj) as [Ea|Ea]; rewrite Ea; reflexivity. }
  unfold tpr_code, fpr_code. rewrite F, G.
  apply Z.ltb_lt in HP as HP'. apply Z.ltb_lt in HN as HN'. rewrite HP', HN'.
  assert (Hp : ~ (inject_Z (pos_code n A) == 0)%Q) by (intros H; unfold Qeq, inject_Z in H; cbn [Qnum Qden] in H; lia).
  assert (Hn : ~ (inject_Z (neg_code n A) == 0)%Q) by (intros H; unfold Qeq, inject_Z in H; cbn [Qnum Qden] in H; lia).
  split; field; assumption.
Qed.

(* boolean hypotheses imply the propositional ones *)
Lemma binary_b_sound n A : binary_b n A = true -> binary n A.
Proof.
  unfold binary_b, binary. intros H i j Hi Hj.
  rewrite forallb_forall in H. specialize (H i ltac:(apply in_seq; lia)).
  rewrite forallb_forall in H. specialize (H j ltac:(apply in_seq; lia)).
  apply orb_true_iff in H. destruct H as [H|H]; apply Z.eqb_eq in H; auto.
Qed.
Lemma zero_diag_b_sound n A : zero_diag_b n A = true -> zero_diag n A.
Proof.
  unfold zero_diag_b, zero_diag. intros H i Hi. rewrite forallb_forall in H.
  apply Z.eqb_eq, H, in_seq. lia.
Qed.

(* ---------- AUC -------------------------------------------------------------- *)
Open Scope Q_scope.

(* a monotone polyline, given as ordinates ys over abscissae xs *)
Fixpoint nondecr (l : list Q) : Prop :=
  match l with
  | a :: ((b :: _) as r) => a <= b /\ nondecr r
  | _ => True
  end.

Lemma auc_cons2 y0 y1 ys x0 x1 xs :
  auc (y0 :: y1 :: ys) (x0 :: x1 :: xs) = (x1 - x0) * (y0 + y1) / 2 + auc (y1 :: ys) (x1 :: xs).
Proof. reflexivity. Qed.

Lemma last_cons {A} (l : list A) : forall (d a : A), last (a :: l) d = last l a.
Proof.
  induction l as [|b l IH]; intros d a; [reflexivity|].
  change (last (a :: b :: l) d) with (last (b :: l) d). rewrite !IH. reflexivity.
Qed.

(* generalised bound: ordinates in [lo,hi] => lo*(xlast - x0) <= auc <= hi*(xlast - x0) *)
Lemma auc_bounds : forall ys xs x0 y0,
  length ys = length xs -> nondecr (x0 :: xs) ->
  Forall (fun y => 0 <= y /\ y <= 1) (y0 :: ys) ->
  0 <= auc (y0 :: ys) (x0 :: xs) /\ auc (y0 :: ys) (x0 :: xs) <= last xs x0 - x0.
Proof.
  induction ys as [|y1 ys IH]; intros xs x0 y0 Hlen Hx Hy.
  - destruct xs; [|discriminate]. cbn. split; lra.
  - destruct xs as [|x1 xs]; [discriminate|].
    rewrite auc_cons2.
    assert (Hlen' : length ys = length xs) by (cbn in Hlen; lia).
    destruct Hx as [Hx01 Hx'].
    inversion Hy as [|? ? Hy0 Hy']; subst.
    specialize (IH xs x1 y1 Hlen' Hx' Hy').
    inversion Hy' as [|? ? Hy1 _]; subst.
    assert (Hl : last (x1 :: xs) x0 = last xs x1) by apply last_cons.
    rewrite Hl. destruct IH as [IH1 IH2]. destruct Hy0, Hy1.
    assert (P1 : 0 <= (x1 - x0) * (y0 + y1)) by (apply Qmult_le_0_compat; lra).
    assert (P2 : 0 <= (x1 - x0) * (2 - (y0 + y1))) by (apply Qmult_le_0_compat; lra).
    assert (P3 : 0 <= (x1 - x0) * (y0 + y1) / 2) by (apply Qle_shift_div_l; lra).
    assert (P4 : (x1 - x0) * (y0 + y1) / 2 <= x1 - x0) by (apply Qle_shift_div_r; lra).
    split; lra.
Qed.

Lemma nondecr_bounds : forall l a, nondecr (a :: l) -> Forall (fun y => a <= y /\ y <= last l a) (a :: l).
Proof.
  induction l as [|b l IH]; intros a H.
  - constructor; [cbn; split; lra|constructor].
  - destruct H as [Hab H']. specialize (IH b H').
    assert (Hl : last (b :: l) a = last l b) by apply last_cons.
    rewrite Hl.
    assert (Hb : b <= last l b) by (inversion IH as [|? ? [_ Hb'] _]; exact Hb').
    constructor; [split; lra|].
    eapply Forall_impl; [|exact IH]. cbn. intros y [H1 H2]. split; lra.
Qed.

Theorem auc_in_unit ys xs x0 y0 :
  length ys = length xs ->
  nondecr (x0 :: xs) -> nondecr (y0 :: ys) ->
  x0 == 0 -> y0 == 0 -> last xs x0 == 1 -> last ys y0 == 1 ->
  0 <= auc (y0 :: ys) (x0 :: xs) /\ auc (y0 :: ys) (x0 :: xs) <= 1.
Proof.
  intros Hlen Hx Hy Ex0 Ey0 Ex1 Ey1.
  assert (Hb : Forall (fun y => 0 <= y /\ y <= 1) (y0 :: ys)).
  { eapply Forall_impl; [|apply nondecr_bounds; exact Hy]. cbn. intros y [H1 H2]. split; lra. }
  destruct (auc_bounds ys xs x0 y0 Hlen Hx Hb) as [H1 H2]. split; lra.
Qed.

(* the diagonal (chance) curve has area exactly 1/2 *)
Example auc_diagonal : auc [0; 1] [0; 1] == 1 # 2.
Proof. reflexivity. Qed.

(* non-vacuity: a concrete pair of matrices meets every hypothesis, with all four cells populated *)
Example hyps_satisfiable :
  let A := [[0;1;0];[0;0;1];[1;0;0]]%Z in let B := [[0;1;1];[0;0;0];[1;0;0]]%Z in
  binary_b 3 A = true /\ binary_b 3 B = true /\ zero_diag_b 3 A = true /\ zero_diag_b 3 B = true /\
  (TP 3 A B, FN 3 A B, FP 3 A B, TN 3 A B) = (2, 1, 1, 2)%Z /\
  tpr_code 3 A B == 2 # 3 /\ fpr_code 3 A B == 1 # 3.
Proof. vm_compute. repeat split; reflexivity. Qed.

Example auc_hyps_satisfiable :
  let ys := [1 # 2; 1 # 2; 1] in let xs := [1 # 4; 1 # 2; 1] in
  nondecr (0 :: xs) /\ nondecr (0 :: ys) /\ auc (0 :: ys) (0 :: xs) == 9 # 16.
Proof. cbn. repeat split; try discriminate; reflexivity. Qed.
