From Coq Require Import List Arith Lia Bool Permutation ZArith.
From CE Require Import Model.Selection Model.Lagged Model.Recovery Proofs.SelectionProofs Proofs.LaggedProofs.
Import ListNotations.

Section Rec.
Variable f : nat -> list nat -> Z.
Variable gF gB : nat -> list nat -> bool.
Variable init : list nat.
Notation std_fwd := (Selection.std_fwd f gF init).
Notation alt_fwd := (Selection.alt_fwd f gF init).
Notation bwd := (Selection.bwd gB).
Notation maximal := (Selection.maximal f init).

Lemma in_remove_neq (x j : nat) l : In x l -> x <> j -> In x (remove Nat.eq_dec j l).
Proof. intros H N. apply in_in_remove; [exact N|exact H]. Qed.

(* the forward passes only ever append to the accepted list *)
Lemma std_fwd_keeps x : forall fuel cands S, In x S -> In x (std_fwd fuel cands S).
Proof.
  induction fuel as [|fuel IH]; intros cands S H; [exact H|].
  cbn [Selection.std_fwd]. destruct cands as [|c cs]; [exact H|].
  destruct (gF _ _); apply IH; [apply in_or_app; left; exact H|exact H].
Qed.
Lemma alt_fwd_keeps x : forall fuel cands S, In x S -> In x (alt_fwd fuel cands S).
Proof.
  induction fuel as [|fuel IH]; intros cands S H; [exact H|].
  cbn [Selection.alt_fwd]. destruct cands as [|c cs]; [exact H|].
  destruct (gF _ _); [apply IH; apply in_or_app; left; exact H|exact H].
Qed.

(* standard variant: every candidate is eventually the arg-max of the remaining ones and is tested then;
   a candidate that passes whatever has been accepted before is accepted *)
Lemma std_fwd_accepts c : (forall S, gF c (init ++ S) = true) ->
  forall fuel cands S, length cands <= fuel -> In c cands -> In c (std_fwd fuel cands S).
Proof.
  intros Hpass. induction fuel as [|fuel IH]; intros cands S Hlen Hin.
  - destruct cands; [destruct Hin|cbn in Hlen; lia].
  - destruct cands as [|c0 cs]; [destruct Hin|]. cbn [Selection.std_fwd].
    pose proof (argmax_maximal f init c0 cs S) as Hm.
    set (j := Selection.argmax (fun j => f j (init ++ S)) (c0 :: cs)) in *.
    pose proof (remove_length_lt j (c0 :: cs) (proj1 Hm)) as Hl.
    destruct (Nat.eq_dec c j) as [E|N].
    + subst j. rewrite <- E. rewrite Hpass. apply std_fwd_keeps. apply in_or_app. right. left. reflexivity.
    + destruct (gF j (init ++ S)); apply IH; try lia; apply in_remove_neq; assumption.
Qed.

(* backward: a predictor whose re-test passes whatever the other survivors are is never dropped *)
Lemma bwd_keeps c : (forall Zc, gB c Zc = true) -> forall order S, In c S -> In c (bwd order S).
Proof.
  intros Hb. induction order as [|j order IH]; intros S H; [exact H|].
  cbn [Selection.bwd]. destruct (Nat.eq_dec j c) as [->|N].
  - rewrite Hb. apply IH. exact H.
  - destruct (gB j _); apply IH; [exact H|apply in_remove_neq; [exact H|congruence]].
Qed.

Theorem std_recovers n c order : c < n ->
  (forall S, gF c (init ++ S) = true) -> (forall Zc, gB c Zc = true) ->
  In c (Selection.ocse f gF gB init Standard n order).
Proof.
  intros Hc Hf Hb. unfold Selection.ocse, Selection.fwd. apply bwd_keeps; [exact Hb|].
  apply std_fwd_accepts; [exact Hf|rewrite seq_length; lia|apply in_seq; lia].
Qed.

(* alternative variant: the candidate that is strictly the most informative before anything is accepted is
   tested first; if it passes it is accepted, and nothing is ever removed by the forward pass *)
Theorem alt_recovers n c order : c < n ->
  (forall j, j < n -> j <> c -> (f j (init ++ []) < f c (init ++ []))%Z) ->
  gF c (init ++ []) = true -> (forall Zc, gB c Zc = true) ->
  In c (Selection.ocse f gF gB init Alternative n order).
Proof.
  intros Hc Hmax Hf Hb. unfold Selection.ocse, Selection.fwd. apply bwd_keeps; [exact Hb|].
  destruct n as [|n]; [lia|]. cbn [Selection.alt_fwd]. rewrite <- cons_seq.
  pose proof (argmax_maximal f init 0 (seq 1 n) []) as Hm. rewrite cons_seq in *.
  set (j := Selection.argmax (fun j => f j (init ++ [])) (seq 0 (S n))) in *.
  assert (E : j = c).
  { destruct (Nat.eq_dec j c) as [E|N]; [exact E|exfalso].
    destruct Hm as [Hin Hle]. apply in_seq in Hin.
    specialize (Hmax j ltac:(lia) N). specialize (Hle c ltac:(apply in_seq; lia)). lia. }
  rewrite E, Hf. apply alt_fwd_keeps. apply in_or_app. right. left. reflexivity.
Qed.

End Rec.

(* LASSO variants: exactly the predictors with a non-zero coefficient *)
Theorem lasso_recovers coef n c : c < n -> coef c <> 0%Z -> In c (lasso_sel coef n).
Proof.
  intros Hc Hn. unfold lasso_sel. apply filter_In. split; [apply in_seq; lia|].
  destruct (Z.eqb_spec (coef c) 0); [contradiction|reflexivity].
Qed.
Theorem lasso_only_nonzero coef n c : In c (lasso_sel coef n) -> c < n /\ coef c <> 0%Z.
Proof.
  unfold lasso_sel. intros H. apply filter_In in H. destruct H as [H1 H2]. apply in_seq in H1. split; [lia|].
  destruct (Z.eqb_spec (coef c) 0); [discriminate|assumption].
Qed.

(* the selected column of the planted predictor is reported as the edge u -> v with lag EXACTLY tau, for every
   placement (any number of variables, any max_lag, any u, any tau <= max_lag) *)
Theorem planted_label_exact n L u tau : u < n -> 1 <= tau <= L ->
  feature_index L u tau < n * L /\ feature L (feature_index L u tau) = (u, tau).
Proof. intros Hu Ht. split; [apply feature_index_range; assumption|apply feature_feature_index; exact Ht]. Qed.

(* and no other selected column can produce that label *)
Theorem planted_label_unique L c u tau : 0 < L -> 1 <= tau <= L -> feature L c = (u, tau) -> c = feature_index L u tau.
Proof. intros HL Ht H. apply (feature_injective L); [exact HL|]. rewrite H, feature_feature_index; [reflexivity|exact Ht]. Qed.

(* non-vacuity: a landscape on which the hypotheses of std_recovers hold for candidate 1 of 3 *)
Example std_recovers_instance :
  let f := fun j (_ : list nat) => if Nat.eqb j 1 then 5%Z else 1%Z in
  let g := fun j (_ : list nat) => Nat.eqb j 1 in
  Selection.ocse f g g [] Standard 3 [1] = [1].
Proof. vm_compute. reflexivity. Qed.
