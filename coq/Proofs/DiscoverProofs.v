From Coq Require Import List Arith ZArith QArith Qminmax String Bool Lia Permutation FinFun.
From CE Require Import Model.Lagged Model.Dispatch Model.Discover Model.Selection Proofs.LaggedProofs Proofs.SelectionProofs.
Import ListNotations.
Local Open Scope nat_scope.

(* ---------- the floor ------------------------------------------------------------------------- *)
Theorem floor0_spec v :
  match v with
  | Fin q => exists q', floor0 v = Fin q' /\ (q' == Qmax 0 q)%Q
  | _ => floor0 v = v
  end.
Proof.
  destruct v as [q| | |]; try reflexivity. cbn [floor0].
  destruct (Qle_bool 0 q) eqn:E; eexists; split; try reflexivity.
  - apply Qle_bool_iff in E. symmetry. apply Q.max_r. exact E.
  - assert (H : ~ (0 <= q)%Q) by (intros H; apply Qle_bool_iff in H; congruence).
    symmetry. apply Q.max_l. apply Qnot_le_lt in H. apply Qlt_le_weak. exact H.
Qed.

Theorem floor0_never_finite_negative v : finite_negative (floor0 v) = false.
Proof.
  destruct v as [q| | |]; try reflexivity. cbn [floor0 finite_negative].
  destruct (Qle_bool 0 q) eqn:E; [rewrite E; reflexivity|reflexivity].
Qed.

Theorem floor0_idempotent v : floor0 (floor0 v) = floor0 v.
Proof.
  destruct v as [q| | |]; try reflexivity. cbn [floor0].
  destruct (Qle_bool 0 q) eqn:E; [rewrite E; reflexivity|reflexivity].
Qed.

(* ---------- validation ------------------------------------------------------------------------ *)
Theorem validate_spec methods infos m i T L :
  (mem m methods = false -> validate methods infos m i T L = NotImplemented) /\
  (mem m methods = true -> mem i infos = false -> validate methods infos m i T L = NotImplemented) /\
  (mem m methods = true -> mem i infos = true -> T <= L + 2 -> validate methods infos m i T L = ValueErr) /\
  (mem m methods = true -> mem i infos = true -> L + 2 < T -> validate methods infos m i T L = Ok).
Proof.
  unfold validate. repeat split; intros.
  - rewrite H. reflexivity.
  - rewrite H, H0. reflexivity.
  - rewrite H, H0. cbn. destruct (Nat.leb_spec T (L + 2)); [reflexivity|lia].
  - rewrite H, H0. cbn. destruct (Nat.leb_spec T (L + 2)); [lia|reflexivity].
Qed.

(* ---------- every emitted graph is well formed ------------------------------------------------ *)
Section WF.
Variables (n L : nat) (nsh : Z).
Variable sel : nat -> list nat.
Variable est : nat -> nat -> val.
Variable cnt : nat -> nat -> Z.
Hypothesis HL : 0 < L.
Hypothesis Hsel : forall i, i < n -> NoDup (sel i) /\ (forall s, In s (sel i) -> s < n * L).
Hypothesis Hcnt : forall i s, (0 <= cnt i s <= nsh)%Z.

Lemma in_discover e : In e (discover_edges n L sel est cnt) ->
  exists i s, i < n /\ In s (sel i) /\
    e = {| e_src := fst (feature L s); e_dst := i; e_lag := snd (feature L s); e_cmi := floor0 (est i s); e_count := cnt i s |}.
Proof.
  unfold discover_edges. intros H. apply in_flat_map in H. destruct H as (i & Hi & He).
  apply in_seq in Hi. unfold edges_of_target in He. apply in_map_iff in He. destruct He as (s & <- & Hs).
  exists i, s. repeat split; [lia|exact Hs].
Qed.

Lemma edges_ok : forallb (edge_ok n L nsh) (discover_edges n L sel est cnt) = true.
Proof.
  apply forallb_forall. intros e He. destruct (in_discover e He) as (i & s & Hi & Hs & ->).
  destruct (Hsel i Hi) as [_ Hr]. destruct (feature_range n L s HL (Hr s Hs)) as [H1 [H2 H3]].
  unfold edge_ok; cbn [e_src e_dst e_lag e_cmi e_count]. rewrite floor0_never_finite_negative.
  destruct (Hcnt i s).
  repeat (apply andb_true_intro; split); try reflexivity;
    try (apply Nat.ltb_lt; assumption); try (apply Nat.leb_le; assumption); try (apply Z.leb_le; assumption).
Qed.

Definition keys (e : edge) : nat * nat * nat := (e_src e, e_dst e, e_lag e).

Lemma triple_eqb_keys a b : triple_eqb a b = true <-> keys a = keys b.
Proof.
  unfold triple_eqb, keys. split.
  - intros H. apply andb_true_iff in H. destruct H as [H H3]. apply andb_true_iff in H. destruct H as [H1 H2].
    apply Nat.eqb_eq in H1, H2, H3. congruence.
  - intros H. injection H as -> -> ->. rewrite !Nat.eqb_refl. reflexivity.
Qed.

Lemma nodup_triples_iff l : nodup_triples l = true <-> NoDup (map keys l).
Proof.
  induction l as [|e r IH]; cbn [nodup_triples map]; [split; [constructor|reflexivity]|].
  rewrite andb_true_iff, negb_true_iff, IH. split.
  - intros [H1 H2]. constructor; [|exact H2]. intros Hin. apply in_map_iff in Hin. destruct Hin as (b & Hk & Hb).
    assert (existsb (triple_eqb e) r = true); [|congruence].
    apply existsb_exists. exists b. split; [exact Hb|]. apply triple_eqb_keys. congruence.
  - intros H. inversion H as [|? ? Hn Hr]; subst. split; [|exact Hr].
    apply not_true_is_false. intros Hex. apply existsb_exists in Hex. destruct Hex as (b & Hb & Heq).
    apply triple_eqb_keys in Heq. apply Hn. rewrite Heq. apply in_map. exact Hb.
Qed.

Lemma nodup_app {A} (l1 l2 : list A) : NoDup l1 -> NoDup l2 -> (forall x, In x l1 -> ~ In x l2) -> NoDup (l1 ++ l2).
Proof.
  induction l1 as [|a l1 IH]; intros H1 H2 Hd; [exact H2|]. inversion H1; subst. cbn. constructor.
  - intros Hin. apply in_app_or in Hin. destruct Hin as [Hin|Hin]; [contradiction|]. exact (Hd a (or_introl eq_refl) Hin).
  - apply IH; [assumption|assumption|]. intros x Hx. apply Hd. right. exact Hx.
Qed.

Lemma block_keys i : map keys (edges_of_target L sel est cnt i) = map (fun s => (fst (feature L s), i, snd (feature L s))) (sel i).
Proof. unfold edges_of_target. rewrite map_map. reflexivity. Qed.

Lemma block_nodup i : i < n -> NoDup (map keys (edges_of_target L sel est cnt i)).
Proof.
  intros Hi. rewrite block_keys. apply Injective_map_NoDup; [|exact (proj1 (Hsel i Hi))].
  intros s1 s2 H. apply (feature_injective L _ _ HL).
  assert (E1 : fst (feature L s1) = fst (feature L s2)) by congruence.
  assert (E2 : snd (feature L s1) = snd (feature L s2)) by congruence.
  rewrite (surjective_pairing (feature L s1)), (surjective_pairing (feature L s2)), E1, E2. reflexivity.
Qed.

Lemma blocks_nodup : forall k a, a + k <= n -> NoDup (map keys (flat_map (edges_of_target L sel est cnt) (seq a k))).
Proof.
  induction k as [|k IH]; intros a Hk; [constructor|]. cbn [seq flat_map]. rewrite map_app.
  apply nodup_app; [apply block_nodup; lia|apply IH; lia|].
  intros x Hx Hx'. rewrite block_keys in Hx. apply in_map_iff in Hx. destruct Hx as (s & <- & _).
  apply in_map_iff in Hx'. destruct Hx' as (e & He & Hin). apply in_flat_map in Hin. destruct Hin as (i' & Hi' & Hin).
  apply in_seq in Hi'. unfold edges_of_target in Hin. apply in_map_iff in Hin. destruct Hin as (s' & <- & _).
  unfold keys in He; cbn in He. injection He as _ He _. lia.
Qed.

Lemma triples_nodup : nodup_triples (discover_edges n L sel est cnt) = true.
Proof. apply nodup_triples_iff. unfold discover_edges. apply blocks_nodup. lia. Qed.

Theorem discover_wf : wf_graph n L nsh (discover_edges n L sel est cnt) = true.
Proof. unfold wf_graph. rewrite edges_ok, triples_nodup. reflexivity. Qed.
End WF.

(* with the oCSE selection of C02 plugged in, the hypotheses on [sel] hold for every landscape *)
Theorem discover_wf_ocse n L nsh f gF gB init v order est cnt :
  0 < L -> (forall i s, (0 <= cnt i s <= nsh)%Z) ->
  (forall i, Permutation (order i) (fwd (f i) (gF i) (init i) v (n * L))) ->
  wf_graph n L nsh
    (discover_edges n L (fun i => ocse (f i) (gF i) (gB i) (init i) v (n * L) (order i)) est cnt) = true.
Proof.
  intros HL Hc Hp. apply discover_wf; try assumption. intros i Hi.
  destruct (spec_result_wellformed _ _ _ _ _ _ _ (ocse_in_spec (f i) (gF i) (gB i) (init i) v (n * L) (order i) (Hp i))) as [N I].
  split; [exact N|]. intros s Hs. specialize (I s Hs). apply in_seq in I. lia.
Qed.

(* the checker means what it says *)
Theorem wf_graph_correct n L nsh es : wf_graph n L nsh es = true <->
  (forall e, In e es -> e_src e < n /\ e_dst e < n /\ 1 <= e_lag e <= L /\ finite_negative (e_cmi e) = false
                        /\ (0 <= e_count e <= nsh)%Z)
  /\ NoDup (map (fun e => (e_src e, e_dst e, e_lag e)) es).
Proof.
  unfold wf_graph. rewrite andb_true_iff, nodup_triples_iff, forallb_forall. unfold keys.
  split; intros [H1 H2]; (split; [|exact H2]); intros e He; specialize (H1 e He).
  - unfold edge_ok in H1. rewrite !andb_true_iff in H1.
    destruct H1 as ((((((A1 & A2) & A3) & A4) & A5) & A6) & A7).
    apply Nat.ltb_lt in A1, A2. apply Nat.leb_le in A3, A4. apply negb_true_iff in A5.
    apply Z.leb_le in A6, A7. repeat split; assumption.
  - destruct H1 as (A1 & A2 & [A3 A4] & A5 & [A6 A7]). unfold edge_ok.
    repeat (apply andb_true_intro; split); try (apply Nat.ltb_lt; assumption); try (apply Nat.leb_le; assumption);
      try (apply Z.leb_le; assumption). rewrite A5. reflexivity.
Qed.

(* non-vacuity *)
Example wf_instance :
  let es := discover_edges 2 2 (fun i => if Nat.eqb i 0 then [3; 0] else [1]) (fun _ _ => Fin (-1 # 2)) (fun _ _ => 3%Z) in
  wf_graph 2 2 10 es = true /\ map (fun e => (e_src e, e_dst e, e_lag e)) es = [(1,0,2); (0,0,1); (0,1,2)].
Proof. vm_compute. split; reflexivity. Qed.
