(* Lemmas about the model of the conditional Poisson estimator (Model/PoissonCMI.v):
   what the estimate really is (closed form), what it is invariant under for EVERY symmetric matrix, and that it is neither
   symmetric in X and Y nor independent of the order of Z's columns (known findings K2a, K2b). *)
From Coq Require Import List Arith ZArith QArith Bool Permutation Lia Setoid Morphisms.
From CE Require Import Model.PoissonMI Model.PoissonCMI Proofs.PoissonMIProofs.
Import ListNotations.
Open Scope Q_scope.

Lemma lsumq_lsum l : lsumq l = lsum l.
Proof. induction l as [|a l IH]; [reflexivity|]. cbn [lsumq lsum]. rewrite IH. reflexivity. Qed.
Lemma lsumq_app l1 l2 : lsumq (l1 ++ l2) == lsumq l1 + lsumq l2.
Proof. rewrite !lsumq_lsum. apply lsum_app. Qed.
Lemma sumn_lsumq n f : sumn n f == lsumq (map f (seq 0 n)).
Proof. rewrite lsumq_lsum. apply sumn_lsum. Qed.
Lemma sumn_zero n : sumn n (fun _ => 0) == 0.
Proof. induction n as [|n IH]; cbn [sumn]; [reflexivity|rewrite IH; ring]. Qed.
Lemma sumn_split a b f : sumn (a + b) f == sumn a f + sumn b (fun i => f (a + i)%nat).
Proof.
  induction b as [|b IH]; [rewrite Nat.add_0_r; cbn [sumn]; ring|].
  rewrite Nat.add_succ_r. cbn [sumn]. rewrite IH. ring.
Qed.
Lemma sumn_minus n f g : sumn n (fun i => f i - g i) == sumn n f - sumn n g.
Proof. induction n as [|n IH]; cbn [sumn]; [ring|rewrite IH; ring]. Qed.

(* ---- variable re-orderings the branch is compatible with: the first X, first Y and first Z column stay in place, X and Y columns move
   together, every block is mapped to itself (k = k_x = k_y) ---- *)
Definition compat (k kz : nat) (s : nat -> nat) : Prop :=
  perm_of (k + k + kz) s /\ s O = O /\ s (k + k)%nat = (k + k)%nat /\
  (forall i, (i < k)%nat -> (s i < k)%nat /\ s (k + i)%nat = (k + s i)%nat) /\
  (forall i, (k + k <= i < k + k + kz)%nat -> (k + k <= s i)%nat).

Lemma compat_id k kz : compat k kz (fun i => i).
Proof.
  unfold compat, perm_of. rewrite map_id. repeat split; try reflexivity; try lia; apply Permutation_refl.
Qed.

Lemma perm_inj n s i j : perm_of n s -> (i < n)%nat -> (j < n)%nat -> s i = s j -> i = j.
Proof.
  intros P Hi Hj E.
  assert (ND : NoDup (map s (seq 0 n))) by (eapply Permutation_NoDup; [apply Permutation_sym; exact P|apply seq_NoDup]).
  apply (proj1 (NoDup_nth _ O) ND); rewrite ?map_length, ?seq_length; try assumption.
  rewrite !(nth_indep _ O (s O)) by (rewrite map_length, seq_length; assumption).
  rewrite !map_nth, !seq_nth by assumption. exact E.
Qed.

Lemma perm_restrict n k s : perm_of n s -> (k <= n)%nat -> (forall i, (i < k)%nat -> (s i < k)%nat) -> perm_of k s.
Proof.
  intros P Hk R. unfold perm_of. apply NoDup_Permutation_bis.
  - apply (proj2 (NoDup_nth _ (s O))). intros i j. rewrite map_length, seq_length. intros Hi Hj E.
    rewrite !map_nth, !seq_nth in E by assumption. apply (perm_inj n s); try assumption; lia.
  - rewrite map_length, !seq_length. lia.
  - intros x Hx. apply in_map_iff in Hx. destruct Hx as [i [<- Hi]]. apply in_seq in Hi. apply in_seq. specialize (R i). lia.
Qed.

Section Equiv.
Variables k kz : nat.
Variable s : nat -> nat.
Hypothesis Hc : compat k kz s.
Variables S S' : arr.
Let n := (k + k + kz)%nat.
Hypothesis HS : forall i j, (i < n)%nat -> (j < n)%nat -> at_ S' i j == at_ S (s i) (s j).

Lemma c_perm : perm_of n s. Proof. exact (proj1 Hc). Qed.
Lemma c_lt i : (i < n)%nat -> (s i < n)%nat. Proof. apply perm_lt, c_perm. Qed.
Lemma c_eqb i j : (i < n)%nat -> (j < n)%nat -> Nat.eqb (s i) (s j) = Nat.eqb i j.
Proof.
  intros Hi Hj. destruct (Nat.eqb_spec i j) as [->|N]; [apply Nat.eqb_refl|].
  apply Nat.eqb_neq. intros E. apply N. exact (perm_inj n s i j c_perm Hi Hj E).
Qed.
Lemma c_block i : (i < n)%nat ->
  (s i <? k)%nat = (i <? k)%nat /\ inY k k (s i) = inY k k i.
Proof.
  destruct Hc as (_ & _ & _ & HX & HZ). intros Hi. unfold inY.
  destruct (Nat.ltb_spec i k) as [A|A].
  - destruct (HX i A) as [B _]. split; [apply Nat.ltb_lt; exact B|].
    destruct (Nat.leb_spec k i); [lia|]. destruct (Nat.leb_spec k (s i)); [lia|]. reflexivity.
  - destruct (Nat.ltb_spec i (k + k)) as [B|B].
    + destruct (HX (i - k)%nat ltac:(lia)) as [C D]. replace (k + (i - k))%nat with i in D by lia.
      rewrite D. split; [apply Nat.ltb_ge; lia|].
      destruct (Nat.leb_spec k i); [|lia]. destruct (Nat.leb_spec k (k + s (i - k))); [|lia].
      destruct (Nat.ltb_spec (k + s (i - k)) (k + k)); [reflexivity|lia].
    + specialize (HZ i ltac:(fold n; lia)). split; [apply Nat.ltb_ge; lia|].
      destruct (Nat.ltb_spec (s i) (k + k)); [lia|]. rewrite !andb_false_r. reflexivity.
Qed.
Lemma c_shift i : (i < k)%nat -> s (k + i)%nat = (k + s i)%nat /\ (s i < k)%nat.
Proof. destruct Hc as (_ & _ & _ & HX & _). intros Hi. destruct (HX i Hi). split; assumption. Qed.

Lemma Sa_eq i j : (i < n)%nat -> (j < n)%nat -> at_ (Sa k k kz S') i j == at_ (Sa k k kz S) (s i) (s j).
Proof.
  intros Hi Hj. cbn [at_ Sa]. rewrite (c_eqb i j Hi Hj).
  destruct (Nat.eqb i j); rewrite ?(HS i j), ?(HS i i) by assumption; reflexivity.
Qed.

Lemma flat_fill i : (i < n)%nat -> forall T, flat (fill_value k k kz T) i = at_ T i i - at_ (Sa k k kz T) O i.
Proof.
  intros Hi T. unfold flat. cbn [nc fill_value at_]. unfold nvars. fold n.
  rewrite Nat.div_small, Nat.mod_small by exact Hi. reflexivity.
Qed.

Lemma SS1_eq i j : (i < n)%nat -> (j < n)%nat -> at_ (SS1 k k kz S') i j == at_ (SS1 k k kz S) (s i) (s j).
Proof.
  intros Hi Hj. cbn [at_ SS1 fill_diagonal]. rewrite (c_eqb i j Hi Hj). destruct (Nat.eqb i j).
  - rewrite !flat_fill by (try apply c_lt; exact Hi).
    rewrite (HS i i Hi Hi). rewrite (Sa_eq O i ltac:(lia) Hi).
    destruct Hc as (_ & E0 & _). rewrite E0. reflexivity.
  - apply HS; assumption.
Qed.

Lemma SS2_eq i j : (i < n)%nat -> (j < n)%nat -> at_ (SS2 k k kz S') i j == at_ (SS2 k k kz S) (s i) (s j).
Proof.
  intros Hi Hj. cbn [at_ SS2].
  rewrite (proj1 (c_block i Hi)), (proj1 (c_block j Hj)).
  destruct (Nat.ltb_spec i k) as [A|A]; destruct (Nat.ltb_spec j k) as [B|B]; cbn [andb]; try (apply SS1_eq; assumption).
  rewrite (SS1_eq i j Hi Hj), (SS1_eq i (k + j)%nat Hi ltac:(lia)). rewrite (proj1 (c_shift j B)). reflexivity.
Qed.

Lemma SS3_eq i j : (i < n)%nat -> (j < n)%nat -> at_ (SS3 k k kz S') i j == at_ (SS3 k k kz S) (s i) (s j).
Proof.
  intros Hi Hj. cbn [at_ SS3].
  rewrite (proj2 (c_block i Hi)), (proj2 (c_block j Hj)).
  destruct (inY k k i && inY k k j) eqn:E; [|apply SS2_eq; assumption].
  apply andb_true_iff in E. destruct E as [_ E]. unfold inY in E. apply andb_true_iff in E. destruct E as [E1 E2].
  apply Nat.leb_le in E1. apply Nat.ltb_lt in E2.
  rewrite (SS2_eq i j Hi Hj), (SS2_eq i (j - k)%nat Hi ltac:(lia)).
  destruct (c_shift (j - k)%nat ltac:(lia)) as [D _]. replace (k + (j - k))%nat with j in D by lia.
  rewrite D. replace (k + s (j - k) - k)%nat with (s (j - k)) by lia. reflexivity.
Qed.

Lemma A_eq i j : (i < n)%nat -> (j < n)%nat -> at_ (HXYZ_arg k k kz S') i j == at_ (HXYZ_arg k k kz S) (s i) (s j).
Proof. intros Hi Hj. cbn [at_ HXYZ_arg]. rewrite (SS3_eq i j Hi Hj). change (at_ (Sa k k kz S') j j) with (at_ (Sa k k kz S') j j). rewrite (Sa_eq j j Hj Hj). reflexivity. Qed.
End Equiv.

(* ---- sums over index windows ---- *)
Lemma sumn_cut n a f : (a <= n)%nat -> sumn n f == sumn a f + sumn (n - a) (fun i => f (a + i)%nat).
Proof. intros H. rewrite <- sumn_split. replace (a + (n - a))%nat with n by lia. reflexivity. Qed.
Lemma sumn_all0 n f : (forall i, (i < n)%nat -> f i == 0) -> sumn n f == 0.
Proof. intros H. rewrite (sumn_ext n f (fun _ => 0) H). apply sumn_zero. Qed.
Lemma sumn_restrict n a f : (a <= n)%nat -> (forall i, (a <= i < n)%nat -> f i == 0) -> sumn n f == sumn a f.
Proof.
  intros H Z. rewrite (sumn_cut n a f H). rewrite (sumn_all0 (n - a)); [ring|]. intros i Hi. apply Z. lia.
Qed.
Lemma sumn_window n a b f : (a + b <= n)%nat -> (forall i, (i < n)%nat -> (i < a \/ a + b <= i)%nat -> f i == 0) ->
  sumn n f == sumn b (fun i => f (a + i)%nat).
Proof.
  intros H Z. rewrite (sumn_restrict n (a + b)) by (try exact H; intros i Hi; apply Z; lia).
  rewrite sumn_split. rewrite (sumn_all0 a); [ring|]. intros i Hi. apply Z; lia.
Qed.
Lemma sumn_tail m f : sumn (S m) (fun p => if Nat.ltb 0 p then f p else 0) == sumn (S m) f - f O.
Proof.
  induction m as [|m IH]; [cbn; ring|]. cbn [sumn] in *. rewrite IH. cbn [Nat.ltb Nat.leb]. ring.
Qed.

Lemma sumn_tail1 m f : (1 <= m)%nat -> sumn m (fun p => if Nat.ltb 0 p then f p else 0) == sumn m f - f O.
Proof. destruct m as [|m]; [lia|]. intros _. apply sumn_tail. Qed.

Lemma upper_plus m f g : upper m (fun i j => f i j + g i j) == upper m f + upper m g.
Proof.
  unfold upper. rewrite <- sumn_plus. apply sumn_ext. intros i _. rewrite <- sumn_plus. apply sumn_ext. intros j _.
  destruct (Nat.ltb i j); ring.
Qed.
Lemma upper_ext m f g : (forall i j, (i < m)%nat -> (j < m)%nat -> f i j == g i j) -> upper m f == upper m g.
Proof.
  intros H. unfold upper. apply sumn_ext. intros i Hi. apply sumn_ext. intros j Hj. destruct (Nat.ltb i j); [apply H; assumption|reflexivity].
Qed.

(* ---- 2. the strictly upper triangle of the matrix handed to the HXYZ call ---- *)
Section Closed.
Variables k kz : nat.
Hypothesis Hk : (1 <= k)%nat.
Hypothesis Hz : (1 <= kz)%nat.
Variable S : arr.
Let n := (k + k + kz)%nat.
Definition dS (i : nat) : Q := at_ (SS3 k k kz S) i i.

Lemma SS1_off i j : i <> j -> at_ (SS1 k k kz S) i j = at_ S i j.
Proof. intros N. cbn [at_ SS1 fill_diagonal]. destruct (Nat.eqb_spec i j); [contradiction|reflexivity]. Qed.

(* entries of the matrix handed to the HXYZ call above the diagonal *)
Lemma A_upper i j : (i < j)%nat ->
  at_ (HXYZ_arg k k kz S) i j ==
  at_ S i j + (if Nat.ltb i k && Nat.ltb j k then at_ S i (k + j) else 0) + (if inY k k i && inY k k j then at_ S i (j - k) else 0).
Proof.
  intros Hij. cbn [at_ HXYZ_arg Sa SS3 SS2]. rewrite Nat.eqb_refl. unfold inY.
  destruct (Nat.ltb_spec i k) as [A|A]; destruct (Nat.ltb_spec j k) as [B|B]; cbn [andb];
  destruct (Nat.leb_spec k i) as [C|C]; destruct (Nat.leb_spec k j) as [D|D]; cbn [andb]; try lia;
  destruct (Nat.ltb_spec i (k + k)) as [E|E]; destruct (Nat.ltb_spec j (k + k)) as [F|F]; cbn [andb]; try lia;
  rewrite ?SS1_off by lia; try ring.
  all: destruct (Nat.ltb_spec (j - k) k); cbn [andb]; try lia; rewrite ?SS1_off by lia; try ring.
Qed.

Lemma triu_A : triu1_sum (HXYZ_arg k k kz S) == upper n (at_ S) + upper k (cross k S).
Proof.
  unfold triu1_sum. cbn [nr nc HXYZ_arg]. unfold nvars. fold n.
  rewrite (sumn_ext n _ (fun i => sumn n (fun j => if Nat.ltb i j then at_ S i j else 0)
                                 + (sumn n (fun j => if Nat.ltb i j then (if Nat.ltb i k && Nat.ltb j k then at_ S i (k + j) else 0) else 0)
                                 + sumn n (fun j => if Nat.ltb i j then (if inY k k i && inY k k j then at_ S i (j - k) else 0) else 0)))).
  2:{ intros i _. rewrite <- !sumn_plus. apply sumn_ext. intros j _. destruct (Nat.ltb_spec i j) as [L|L]; [|ring].
      rewrite (A_upper i j L). ring. }
  rewrite sumn_plus, sumn_plus.
  assert (U : upper k (cross k S) == upper k (fun i j => at_ S i (k + j)) + upper k (fun i j => at_ S (k + i) j)).
  { unfold cross. apply (upper_plus k (fun i j => at_ S i (k + j)) (fun i j => at_ S (k + i) j)). }
  rewrite U. clear U.
  assert (T2 : sumn n (fun i => sumn n (fun j => if Nat.ltb i j then (if Nat.ltb i k && Nat.ltb j k then at_ S i (k + j) else 0) else 0))
               == upper k (fun i j => at_ S i (k + j))).
  { unfold upper. rewrite (sumn_restrict n k); [|unfold n; lia|].
    2:{ intros i Hi. apply sumn_all0. intros j _. destruct (Nat.ltb i j); [|reflexivity]. destruct (Nat.ltb_spec i k); [lia|reflexivity]. }
    apply sumn_ext. intros i Hi.
    rewrite (sumn_restrict n k); [|unfold n; lia|].
    2:{ intros j Hj. destruct (Nat.ltb i j); [|reflexivity]. destruct (Nat.ltb_spec j k); [lia|rewrite andb_false_r; reflexivity]. }
    apply sumn_ext. intros j Hj. destruct (Nat.ltb i j); [|reflexivity].
    destruct (Nat.ltb_spec i k); [|lia]. destruct (Nat.ltb_spec j k); [|lia]. reflexivity. }
  assert (T3 : sumn n (fun i => sumn n (fun j => if Nat.ltb i j then (if inY k k i && inY k k j then at_ S i (j - k) else 0) else 0))
               == upper k (fun i j => at_ S (k + i) j)).
  { unfold upper.
    assert (Yin : forall a, (a < k)%nat -> inY k k (k + a) = true).
    { intros a Ha. unfold inY. destruct (Nat.leb_spec k (k + a)); [|lia]. destruct (Nat.ltb_spec (k + a) (k + k)); [reflexivity|lia]. }
    assert (Yout : forall i, (i < k \/ k + k <= i)%nat -> inY k k i = false).
    { intros i Hi. unfold inY. destruct (Nat.leb_spec k i); destruct (Nat.ltb_spec i (k + k)); try reflexivity; lia. }
    rewrite (sumn_window n k k); [|unfold n; lia|].
    2:{ intros i _ Hi. apply sumn_all0. intros j _. destruct (Nat.ltb i j); [|reflexivity]. rewrite (Yout i Hi). reflexivity. }
    apply sumn_ext. intros a Ha.
    rewrite (sumn_window n k k); [|unfold n; lia|].
    2:{ intros j _ Hj. destruct (Nat.ltb (k + a) j); [|reflexivity]. rewrite (Yout j Hj), andb_false_r. reflexivity. }
    apply sumn_ext. intros b Hb. rewrite (Yin a Ha), (Yin b Hb). cbn [andb].
    replace (k + b - k)%nat with b by lia.
    destruct (Nat.ltb_spec (k + a) (k + b)); destruct (Nat.ltb_spec a b); try lia; reflexivity. }
  rewrite T2, T3. unfold upper. ring.
Qed.
End Closed.

(* ---- 3. closed form of the estimate ---- *)
Lemma seq_head a m : (1 <= m)%nat -> seq a m = a :: seq (S a) (m - 1).
Proof. destruct m as [|m]; [lia|]. intros _. replace (S m - 1)%nat with m by lia. reflexivity. Qed.
Lemma diag_fancy_col a i0 rest : np_diag2 (fancy_col a (i0 :: rest)) = [at_ a i0 i0].
Proof. unfold np_diag2. cbn [nr nc fancy_col length]. replace (Nat.min (S (length rest)) 1) with 1%nat by lia. reflexivity. Qed.
Lemma diag_fancy_row a i0 rest : np_diag2 (fancy_row a (i0 :: rest)) = [at_ a i0 i0].
Proof. unfold np_diag2. cbn [nr nc fancy_row length]. replace (Nat.min 1 (S (length rest))) with 1%nat by lia. reflexivity. Qed.
Lemma triu_fancy_col a idx : triu1_sum (fancy_col a idx) == 0.
Proof. unfold triu1_sum. cbn [nr nc fancy_col]. apply sumn_all0. intros i _. cbn [sumn]. destruct (Nat.ltb_spec i 0); [lia|ring]. Qed.
Lemma triu_fancy_row a idx : triu1_sum (fancy_row a idx) == sumn (length idx) (fun p => if Nat.ltb 0 p then at_ a (nth p idx O) (nth p idx O) else 0).
Proof. unfold triu1_sum. cbn [nr nc fancy_row at_ sumn]. ring. Qed.

Section Closed2.
Variable h : Q -> Q.
Hypothesis h_proper : forall a b, a == b -> h a == h b.
Variables k kz : nat.
Hypothesis Hk : (1 <= k)%nat.
Hypothesis Hz : (1 <= kz)%nat.
Variable S : arr.
Let n := (k + k + kz)%nat.

Lemma A_diag i : at_ (HXYZ_arg k k kz S) i i == dS k kz S i.
Proof. unfold dS. cbn [at_ HXYZ_arg Sa]. rewrite Nat.eqb_refl. ring. Qed.

Theorem est_closed : exists t, pcmi_terms k k kz S = Some t /\ pcmi_value h t == pcmi_closed h k kz (dS k kz S) S.
Proof.
  unfold pcmi_terms, joint_calls. rewrite Nat.eqb_refl. eexists. split; [reflexivity|].
  unfold pcmi_value, terms_of. cbn [fst snd flat_map map lsumq]. unfold call_rates. cbn [fst snd].
  unfold S_est1, S_est2, SindZ, idxX, idxY, idxZ.
  rewrite (seq_head k k Hk), (seq_head O k Hk), (seq_head (k + k) kz Hz). cbn [app].
  rewrite !diag_fancy_col, !diag_fancy_row, !triu_fancy_col, triu_fancy_row.
  rewrite <- (seq_head (k + k) kz Hz). rewrite seq_length.
  rewrite (triu_A k kz Hk Hz S).
  cbn [map app lsumq fst snd]. rewrite map_app, lsumq_app. cbn [map lsumq fst snd]. rewrite map_map. cbn [fst snd].
  unfold np_diag2. cbn [nr nc HXYZ_arg]. unfold nvars. rewrite Nat.min_id, map_map. rewrite <- sumn_lsumq.
  unfold pcmi_closed. fold (dS k kz S O) (dS k kz S k) (dS k kz S (k + k)%nat).
  rewrite (sumn_ext (k + k + kz) (fun i => 1 * h (Qabsq (at_ (HXYZ_arg k k kz S) i i))) (fun i => h (Qabsq (dS k kz S i)))).
  2:{ intros i _. rewrite (h_proper _ _ (Qabsq_proper _ _ (A_diag i))). ring. }
  rewrite (sumn_ext kz (fun p => if Nat.ltb 0 p then at_ (SS3 k k kz S) (nth p (seq (k + k) kz) O) (nth p (seq (k + k) kz) O) else 0)
                       (fun p => if Nat.ltb 0 p then dS k kz S (k + k + p)%nat else 0)).
  2:{ intros p Hp. rewrite seq_nth by exact Hp. reflexivity. }
  ring.
Qed.
End Closed2.

(* ---- 4. invariance of the closed form under compatible re-orderings ---- *)
Definition oQeq (a b : option Q) : Prop :=
  match a, b with Some x, Some y => x == y | None, None => True | _, _ => False end.

Section Inv.
Variable h : Q -> Q.
Hypothesis h_proper : forall a b, a == b -> h a == h b.
Variables k kz : nat.
Hypothesis Hk : (1 <= k)%nat.
Hypothesis Hz : (1 <= kz)%nat.
Variable s : nat -> nat.
Hypothesis Hc : compat k kz s.
Variables S S' : arr.
Let n := (k + k + kz)%nat.
Hypothesis HS : forall i j, (i < n)%nat -> (j < n)%nat -> at_ S' i j == at_ S (s i) (s j).
Hypothesis HU : upper n (at_ S') == upper n (at_ S).
Hypothesis HC : upper k (cross k S') == upper k (cross k S).

Let d := dS k kz S.
Let d' := dS k kz S'.
Lemma d_eq i : (i < n)%nat -> d' i == d (s i).
Proof. intros Hi. unfold d', d, dS. apply (SS3_eq k kz s Hc S S' HS i i Hi Hi). Qed.

Lemma s_k : s k = k.
Proof.
  destruct Hc as (_ & E0 & _ & HX & _). destruct (HX O ltac:(lia)) as [_ E]. rewrite Nat.add_0_r, E0, Nat.add_0_r in E. exact E.
Qed.
Lemma perm_k : perm_of k s.
Proof.
  apply (perm_restrict n k s); [exact (proj1 Hc)|unfold n; lia|]. intros i Hi.
  destruct Hc as (_ & _ & _ & HX & _). apply (HX i Hi).
Qed.

Lemma sum_n (f : nat -> Q) (f' : nat -> Q) : (forall i, (i < n)%nat -> f' i == f (s i)) -> sumn n f' == sumn n f.
Proof. intros E. rewrite (sumn_ext n f' (fun i => f (s i)) E). apply (sumn_reindex n s f (proj1 Hc)). Qed.

Lemma sum_X : sumn k d' == sumn k d.
Proof.
  rewrite (sumn_ext k d' (fun i => d (s i))) by (intros i Hi; apply d_eq; unfold n; lia).
  apply (sumn_reindex k s d perm_k).
Qed.
Lemma sum_Y : sumn k (fun i => d' (k + i)%nat) == sumn k (fun i => d (k + i)%nat).
Proof.
  rewrite (sumn_ext k (fun i => d' (k + i)%nat) (fun i => d (k + s i)%nat)).
  - apply (sumn_reindex k s (fun i => d (k + i)%nat) perm_k).
  - intros i Hi. rewrite (d_eq (k + i)%nat) by (unfold n; lia).
    destruct Hc as (_ & _ & _ & HX & _). destruct (HX i Hi) as [_ E]. rewrite E. reflexivity.
Qed.
Lemma sum_Z (e : nat -> Q) : sumn kz (fun p => e (k + k + p)%nat) == sumn n e - sumn k e - sumn k (fun i => e (k + i)%nat).
Proof. unfold n. rewrite !sumn_split. ring. Qed.

Theorem closed_eq : pcmi_closed h k kz d' S' == pcmi_closed h k kz d S.
Proof.
  unfold pcmi_closed. fold n. rewrite HU, HC.
  assert (E0 : d' O == d O) by (rewrite (d_eq O) by (unfold n; lia); rewrite (proj1 (proj2 Hc)); reflexivity).
  assert (Ek : d' k == d k) by (rewrite (d_eq k) by (unfold n; lia); rewrite s_k; reflexivity).
  assert (E2 : d' (k + k)%nat == d (k + k)%nat).
  { rewrite (d_eq (k + k)%nat) by (unfold n; lia). rewrite (proj1 (proj2 (proj2 Hc))). reflexivity. }
  rewrite (h_proper _ _ (Qabsq_proper _ _ E0)), (h_proper _ _ (Qabsq_proper _ _ Ek)), (h_proper _ _ (Qabsq_proper _ _ E2)).
  rewrite (sum_n (fun i => h (Qabsq (d i))) (fun i => h (Qabsq (d' i)))) by (intros i Hi; apply h_proper, Qabsq_proper, d_eq, Hi).
  rewrite (sumn_tail1 kz (fun p => d' (k + k + p)%nat) Hz), (sumn_tail1 kz (fun p => d (k + k + p)%nat) Hz).
  rewrite (sum_Z d'), (sum_Z d). rewrite sum_X, sum_Y. rewrite (sum_n d d' d_eq).
  rewrite !Nat.add_0_r. rewrite E2. reflexivity.
Qed.
End Inv.

(* ---- 5. the theorems ---- *)
Lemma est_is_closed h (h_proper : forall a b, a == b -> h a == h b) k kz S : (1 <= k)%nat -> (1 <= kz)%nat ->
  oQeq (pcmi_est h k k kz S) (Some (pcmi_closed h k kz (dS k kz S) S)).
Proof.
  intros Hk Hz. destruct (est_closed h h_proper k kz Hk Hz S) as [t [E V]]. unfold pcmi_est. rewrite E. exact V.
Qed.

Lemma oQeq_trans a b c : oQeq a b -> oQeq b c -> oQeq a c.
Proof. destruct a, b, c; cbn; try tauto. intros H1 H2. rewrite H1. exact H2. Qed.
Lemma oQeq_sym a b : oQeq a b -> oQeq b a.
Proof. destruct a, b; cbn; try tauto. intros H. symmetry. exact H. Qed.

Lemma cross_sym k S : (forall i j, at_ S i j == at_ S j i) -> forall i j, cross k S i j == cross k S j i.
Proof. intros H i j. unfold cross. rewrite (H i (k + j)%nat), (H (k + i)%nat j). ring. Qed.

Theorem pcmi_reindex_invariant h (h_proper : forall a b, a == b -> h a == h b) k kz S s :
  (1 <= k)%nat -> (1 <= kz)%nat -> (forall i j, at_ S i j == at_ S j i) -> compat k kz s ->
  oQeq (pcmi_est h k k kz (reindex s S)) (pcmi_est h k k kz S).
Proof.
  intros Hk Hz Hsym Hc.
  eapply oQeq_trans; [apply (est_is_closed h h_proper k kz _ Hk Hz)|].
  eapply oQeq_trans; [|apply oQeq_sym, (est_is_closed h h_proper k kz _ Hk Hz)].
  cbn [oQeq]. apply (closed_eq h h_proper k kz Hk Hz s Hc S (reindex s S)).
  - intros i j _ _. reflexivity.
  - apply (upper_rs (k + k + kz) (at_ S) Hsym s (proj1 Hc)).
  - assert (Pk : perm_of k s).
    { apply (perm_restrict (k + k + kz) k s (proj1 Hc)); [lia|]. intros i Hi. destruct Hc as (_ & _ & _ & HX & _). apply (HX i Hi). }
    rewrite <- (upper_rs k (cross k S) (cross_sym k S Hsym) s Pk). apply upper_ext. intros i j Hi Hj.
    unfold rs, cross. cbn [at_ reindex]. destruct Hc as (_ & _ & _ & HX & _).
    rewrite (proj2 (HX i Hi)), (proj2 (HX j Hj)). reflexivity.
Qed.

Theorem pcmi_ext h (h_proper : forall a b, a == b -> h a == h b) kx ky kz S S' :
  (1 <= kx)%nat -> (1 <= ky)%nat -> (1 <= kz)%nat ->
  (forall i j, (i < kx + ky + kz)%nat -> (j < kx + ky + kz)%nat -> at_ S' i j == at_ S i j) ->
  oQeq (pcmi_est h kx ky kz S') (pcmi_est h kx ky kz S).
Proof.
  intros Hx Hy Hz HS. destruct (Nat.eqb_spec kx ky) as [<-|N].
  - eapply oQeq_trans; [apply (est_is_closed h h_proper kx kz _ Hx Hz)|].
    eapply oQeq_trans; [|apply oQeq_sym, (est_is_closed h h_proper kx kz _ Hx Hz)].
    cbn [oQeq]. apply (closed_eq h h_proper kx kz Hx Hz (fun i => i) (compat_id kx kz) S S' HS).
    + apply upper_ext. intros i j Hi Hj. apply HS; assumption.
    + apply upper_ext. intros i j Hi Hj. unfold cross. rewrite (HS i (kx + j)%nat), (HS (kx + i)%nat j) by lia; reflexivity.
  - unfold pcmi_est, pcmi_terms, joint_calls. apply Nat.eqb_neq in N. rewrite N. exact I.
Qed.

Theorem pcmi_raises kx ky kz S : pcmi_terms kx ky kz S = None <-> kx <> ky.
Proof.
  unfold pcmi_terms, joint_calls. destruct (Nat.eqb_spec kx ky); split; intros H; try congruence; try reflexivity; try contradiction.
Qed.

(* the diagonal of the overwritten matrix, written out *)
Lemma dS_form k kz S i : (1 <= k)%nat -> (i < k + k + kz)%nat -> dS k kz S i == dform k S i.
Proof.
  intros Hk Hi. unfold dS, dform. cbn [at_ SS3 SS2 SS1 fill_diagonal]. rewrite Nat.eqb_refl.
  rewrite (flat_fill k kz i Hi). cbn [at_ Sa]. unfold inY.
  destruct (Nat.ltb_spec i k) as [A|A]; cbn [andb].
  - destruct (Nat.leb_spec k i); [lia|]. cbn [andb]. destruct (Nat.eqb_spec i (k + i)); [lia|]. ring.
  - destruct (Nat.leb_spec k i); [|lia]. cbn [andb]. destruct (Nat.ltb_spec i (k + k)) as [B|B]; cbn [andb]; [|ring].
    destruct (Nat.ltb_spec (i - k) k); [|lia]. cbn [andb]. destruct (Nat.eqb_spec i (i - k)); [lia|]. ring.
Qed.

Theorem pcmi_row_order h (h_proper : forall a b, a == b -> h a == h b) (sample : Type) (corr : sample -> arr) (reordered : sample -> sample -> Prop) :
  (forall a b, reordered a b -> forall i j, at_ (corr b) i j == at_ (corr a) i j) ->
  forall kx ky kz a b, (1 <= kx)%nat -> (1 <= ky)%nat -> (1 <= kz)%nat -> reordered a b ->
  oQeq (pcmi_est h kx ky kz (corr b)) (pcmi_est h kx ky kz (corr a)).
Proof. intros Hc kx ky kz a b Hx Hy Hz Hab. apply (pcmi_ext h h_proper); try assumption. intros i j _ _. apply Hc, Hab. Qed.

Theorem pcmi_closed_form h (h_proper : forall a b, a == b -> h a == h b) k kz S : (1 <= k)%nat -> (1 <= kz)%nat ->
  oQeq (pcmi_est h k k kz S) (Some (pcmi_closed h k kz (dS k kz S) S)) /\
  forall i, (i < k + k + kz)%nat -> dS k kz S i == dform k S i.
Proof. intros Hk Hz. split; [apply est_is_closed; assumption|intros i Hi; apply dS_form; assumption]. Qed.

(* ---- 6. instances: the hypotheses of the invariance theorem are satisfiable in a non-trivial way ---- *)
Definition ex_order : list nat := [0; 2; 1; 3; 5; 4; 6; 8; 7]%nat.
Example compat_instance : compat 3 3 (tab ex_order).
Proof.
  unfold compat. split; [|split; [reflexivity|split; [reflexivity|split]]].
  - unfold perm_of. cbn. apply perm_skip. eapply perm_trans; [apply perm_swap|]. do 3 apply perm_skip.
    eapply perm_trans; [apply perm_swap|]. do 3 apply perm_skip. eapply perm_trans; [apply perm_swap|]. apply Permutation_refl.
  - intros i Hi. destruct i as [|[|[|i]]]; cbn; try lia.
  - intros i Hi. destruct i as [|[|[|[|[|[|[|[|[|i]]]]]]]]]; cbn; lia.
Qed.
Definition ex_matrix : list (list Q) :=
  map (fun i => map (fun j => if Nat.eqb i j then 1 else 1 # Pos.of_nat (2 + i + j + i * j)) (seq 0 9)) (seq 0 9).
Example invariance_instance :
  pcmi_est (fun q => q * q) 3 3 3 (reindex (tab ex_order) (of_lists ex_matrix)) = pcmi_est (fun q => q * q) 3 3 3 (of_lists ex_matrix)
  /\ pcmi_est (fun q => q * q) 3 3 3 (reindex (zcols 3 3 [1; 0; 2]%nat) (of_lists ex_matrix)) <> pcmi_est (fun q => q * q) 3 3 3 (of_lists ex_matrix).
Proof. split; vm_compute; [reflexivity|discriminate]. Qed.

(* ---- 7. refutations (known findings K2a, K2b), axiom-free part: the signed arguments differ as multisets ---- *)
Lemma witness_is_a_correlation_matrix : is_corr_of witness_sample witness 4 = true /\ sym_unit witness 4 = true.
Proof. split; vm_compute; reflexivity. Qed.

Definition t_orig : list (Q * Q) * Q := ([(-1, 1); (1, 1 # 2); (1, 1); (1, 1); (1, 1 # 2); (1, 1); (-1, 1)], 3 # 2).
Definition t_swap : list (Q * Q) * Q := ([(-1, 1); (1, 1); (1, 1); (1, 1); (1, 1); (1, 1); (-1, 1)], 3 # 2).
Definition t_zrev : list (Q * Q) * Q := ([(-1, 1); (1, 1); (1, 1); (1, 1); (1, 1); (1, 1 # 2); (-1, 1)], 4 # 4).
Lemma wt_orig : pcmi_terms 1 1 2 (of_lists witness) = Some t_orig. Proof. vm_compute. reflexivity. Qed.
Lemma wt_swap : pcmi_terms 1 1 2 (reindex (swap_xyz 1 1) (of_lists witness)) = Some t_swap. Proof. vm_compute. reflexivity. Qed.
Lemma wt_zrev : pcmi_terms 1 1 2 (reindex (zcols 1 1 [1; 0]%nat) (of_lists witness)) = Some t_zrev. Proof. vm_compute. reflexivity. Qed.

Theorem swap_rates_differ : exists M kx ky kz t t',
  is_corr_of witness_sample M (kx + ky + kz) = true /\ sym_unit M (kx + ky + kz) = true /\
  pcmi_terms kx ky kz (of_lists M) = Some t /\ pcmi_terms ky kx kz (reindex (swap_xyz kx ky) (of_lists M)) = Some t' /\
  exists x, count_sr x (fst t) <> count_sr x (fst t').
Proof.
  exists witness, 1%nat, 1%nat, 2%nat, t_orig, t_swap. destruct witness_is_a_correlation_matrix as [A B].
  split; [exact A|]. split; [exact B|]. split; [exact wt_orig|]. split; [exact wt_swap|]. exists (1, 1 # 2). vm_compute. discriminate.
Qed.
Theorem zorder_rates_differ : exists M kx ky kz tau t t',
  is_corr_of witness_sample M (kx + ky + kz) = true /\ sym_unit M (kx + ky + kz) = true /\ Permutation tau (seq 0 kz) /\
  pcmi_terms kx ky kz (of_lists M) = Some t /\ pcmi_terms kx ky kz (reindex (zcols kx ky tau) (of_lists M)) = Some t' /\
  (exists x, count_sr x (fst t) <> count_sr x (fst t')) /\ ~ snd t == snd t'.
Proof.
  exists witness, 1%nat, 1%nat, 2%nat, [1; 0]%nat, t_orig, t_zrev. destruct witness_is_a_correlation_matrix as [A B].
  split; [exact A|]. split; [exact B|]. split; [apply perm_swap|]. split; [exact wt_orig|]. split; [exact wt_zrev|]. split.
  - exists (1, 1 # 2). vm_compute. discriminate.
  - vm_compute. discriminate.
Qed.
