(* C18, list model: an acyclic support (topological-order witness) makes the returned matrix exactly nilpotent;
   the support is unchanged by the normalisation factor.  Stdlib style; the eigenvalue / spectral-radius statements for
   all sizes are in GeneratorsMx.v (mathcomp) and connected to these list functions in GeneratorsMxBridge.v. *)
From Coq Require Import List QArith ZArith Bool Lqa Lia Arith.
From CE Require Import Model.Generators Proofs.GeneratorsProofs.
Import ListNotations.
Open Scope Q_scope.

(* ---------- sums ---------- *)
Lemma sumf_ext n f g : (forall k, (k < n)%nat -> f k == g k) -> sumf n f == sumf n g.
Proof.
  induction n as [|n IH]; intros H; cbn [sumf]; [reflexivity|].
  rewrite IH, (H n); [reflexivity|lia|]. intros k Hk. apply H. lia.
Qed.
Lemma sumf_zero n f : (forall k, (k < n)%nat -> f k == 0) -> sumf n f == 0.
Proof.
  induction n as [|n IH]; intros H; cbn [sumf]; [reflexivity|].
  rewrite IH, (H n); [ring|lia|]. intros k Hk. apply H. lia.
Qed.
Lemma sumf_nonzero n f : ~ sumf n f == 0 -> exists k, (k < n)%nat /\ ~ f k == 0.
Proof.
  induction n as [|n IH]; cbn [sumf]; intros H; [exfalso; apply H; reflexivity|].
  destruct (Qeq_dec (f n) 0) as [E|E].
  - destruct IH as [k [Hk Hf]]; [intros E'; apply H; rewrite E, E'; ring|]. exists k. split; [lia|exact Hf].
  - exists n. split; [lia|exact E].
Qed.
Lemma sumf_red_eq n f : sumf_red n f == sumf n f.
Proof. induction n as [|n IH]; cbn [sumf sumf_red]; [reflexivity|]. rewrite Qred_correct, IH. reflexivity. Qed.

(* ---------- entries of products and powers ---------- *)
Lemma get_mmul n A B i j : (i < n)%nat -> (j < n)%nat -> get (mmul n A B) i j = sumf n (fun k => get A i k * get B k j).
Proof. intros Hi Hj. unfold mmul. apply get_tab; assumption. Qed.
Lemma get_mmul_red n A B i j : (i < n)%nat -> (j < n)%nat -> get (mmul_red n A B) i j == sumf n (fun k => get A i k * get B k j).
Proof. intros Hi Hj. unfold mmul_red. rewrite get_tab by assumption. apply sumf_red_eq. Qed.
Lemma get_mident n i j : (i < n)%nat -> (j < n)%nat -> get (mident n) i j = if Nat.eqb i j then 1 else 0.
Proof. intros Hi Hj. unfold mident. apply get_tab; assumption. Qed.

(* the reduced-fraction power that the correspondence evaluates has the same entries as the specified power *)
Lemma mpow_red_eq n A m : forall i j, (i < n)%nat -> (j < n)%nat -> get (mpow_red n A m) i j == get (mpow n A m) i j.
Proof.
  induction m as [|m IH]; intros i j Hi Hj; cbn [mpow mpow_red]; [reflexivity|].
  rewrite get_mmul_red, get_mmul by assumption. apply sumf_ext. intros k Hk. rewrite IH by assumption. reflexivity.
Qed.

Lemma mzero_spec n M : mzero n M = true <-> forall i j, (i < n)%nat -> (j < n)%nat -> get M i j == 0.
Proof.
  unfold mzero. rewrite forallb_seq. split.
  - intros H i j Hi Hj. specialize (H i Hi). rewrite forallb_seq in H. apply Qeq_bool_iff. apply H. exact Hj.
  - intros H i Hi. rewrite forallb_seq. intros j Hj. apply Qeq_bool_iff. apply H; assumption.
Qed.
Theorem nilpotent_red_ok_spec n A : nilpotent_red_ok n A = nilpotent_ok n A.
Proof.
  unfold nilpotent_red_ok, nilpotent_ok. apply eq_true_iff_eq. rewrite !mzero_spec.
  split; intros H i j Hi Hj; [rewrite <- mpow_red_eq by assumption|rewrite mpow_red_eq by assumption]; apply H; assumption.
Qed.

(* ---------- the witness test ---------- *)
Theorem dag_witness_ok_spec order n A : dag_witness_ok order n A = true <->
  forall i j, (i < n)%nat -> (j < n)%nat -> ~ get A i j == 0 -> (rank_of order j < rank_of order i)%nat.
Proof.
  unfold dag_witness_ok. rewrite forallb_seq. split.
  - intros H i j Hi Hj Hne. specialize (H i Hi). rewrite forallb_seq in H. specialize (H j Hj).
    apply orb_true_iff in H. destruct H as [H|H]; [apply Qeq_bool_iff in H; contradiction|]. apply Nat.ltb_lt. exact H.
  - intros H i Hi. rewrite forallb_seq. intros j Hj. apply orb_true_iff.
    destruct (Qeq_bool (get A i j) 0) eqn:E; [left; reflexivity|right]. apply Nat.ltb_lt. apply H; try assumption.
    intros E'. apply Qeq_bool_iff in E'. congruence.
Qed.

Lemma index_of_le x l : (index_of x l <= length l)%nat.
Proof. induction l as [|y l IH]; cbn [index_of length]; [lia|]. destruct (Nat.eqb x y); lia. Qed.
Lemma index_of_lt x l : existsb (Nat.eqb x) l = true -> (index_of x l < length l)%nat.
Proof.
  induction l as [|y l IH]; cbn [index_of length existsb]; [discriminate|].
  destruct (Nat.eqb x y); cbn [orb]; [lia|]. intros H. specialize (IH H). lia.
Qed.
Lemma order_ok_rank n order : order_ok n order = true -> forall i, (i < n)%nat -> (rank_of order i < n)%nat.
Proof.
  unfold order_ok. intros H i Hi. apply andb_true_iff in H. destruct H as [HL HC]. apply Nat.eqb_eq in HL.
  rewrite forallb_seq in HC. unfold rank_of. rewrite <- HL. apply index_of_lt. apply HC. exact Hi.
Qed.

(* ---------- acyclic => nilpotent, on lists, for ANY rank function ---------- *)
Section Rank.
  Variables (n : nat) (A : mat) (r : nat -> nat).
  Hypothesis down : forall i j, (i < n)%nat -> (j < n)%nat -> ~ get A i j == 0 -> (r j < r i)%nat.

  (* a non-zero entry (i, j) of A^m is a walk of length m from i down to j *)
  Lemma mpow_rank m : forall i j, (i < n)%nat -> (j < n)%nat -> ~ get (mpow n A m) i j == 0 -> (r j + m <= r i)%nat.
  Proof.
    induction m as [|m IH]; intros i j Hi Hj H; cbn [mpow] in H.
    - rewrite get_mident in H by assumption. destruct (Nat.eqb i j) eqn:E; [apply Nat.eqb_eq in E; subst; lia|].
      exfalso. apply H. reflexivity.
    - rewrite get_mmul in H by assumption. apply sumf_nonzero in H. destruct H as [k [Hk Hne]].
      assert (N1 : ~ get A i k == 0) by (intros E; apply Hne; rewrite E; ring).
      assert (N2 : ~ get (mpow n A m) k j == 0) by (intros E; apply Hne; rewrite E; ring).
      pose proof (down i k Hi Hk N1). pose proof (IH k j Hk Hj N2). lia.
  Qed.
  Theorem dag_nilpotent_list m : (forall i, (i < n)%nat -> (r i < m)%nat) ->
    forall i j, (i < n)%nat -> (j < n)%nat -> get (mpow n A m) i j == 0.
  Proof.
    intros Hm i j Hi Hj. destruct (Qeq_dec (get (mpow n A m) i j) 0) as [E|E]; [exact E|exfalso].
    pose proof (mpow_rank m i j Hi Hj E). pose proof (Hm i Hi). lia.
  Qed.
End Rank.

(* whenever the two witness tests pass on a matrix, A^n = 0 exactly: the nilpotency test that the correspondence
   also evaluates cannot fail on such a matrix *)
Theorem witness_implies_nilpotent n order A :
  order_ok n order = true -> dag_witness_ok order n A = true -> nilpotent_ok n A = true.
Proof.
  intros HO HW. unfold nilpotent_ok. apply mzero_spec. intros i j Hi Hj.
  apply (dag_nilpotent_list n A (rank_of order)); try assumption.
  - apply dag_witness_ok_spec. exact HW.
  - apply order_ok_rank. exact HO.
Qed.
Theorem acyclic_ok_nilpotent n order adj A : acyclic_ok n order adj A = true -> nilpotent_ok n A = true.
Proof.
  unfold acyclic_ok. intros H. repeat (apply andb_true_iff in H; destruct H as [H ?]).
  rewrite <- nilpotent_red_ok_spec. assumption.
Qed.

(* a topological order of the graph used is a witness for every matrix supported on the transposed graph:
   in particular for the matrix the model builds, whatever the weights, rho and the measured radius *)
Theorem graph_order_is_witness n order adj A :
  dag_witness_ok order n (transpose n adj) = true -> support_ok n adj A = true -> dag_witness_ok order n A = true.
Proof.
  intros HG HS. apply dag_witness_ok_spec. intros i j Hi Hj Hne.
  rewrite dag_witness_ok_spec in HG. apply HG; try assumption.
  unfold transpose. rewrite get_tab by assumption. rewrite support_ok_spec in HS. apply (HS i j); assumption.
Qed.
Theorem acyclic_build_nilpotent n order adj R rho m :
  order_ok n order = true -> dag_witness_ok order n (transpose n adj) = true ->
  nilpotent_ok n (build_A n adj R rho m) = true.
Proof.
  intros HO HG. apply (witness_implies_nilpotent n order); [exact HO|].
  apply (graph_order_is_witness n order adj); [exact HG|apply support_ok_build].
Qed.

(* ---------- the support under the normalisation factor ---------- *)
Theorem mscale_support s M i j : ~ s == 0 -> (get (mscale s M) i j == 0 <-> get M i j == 0).
Proof.
  intros Hs. rewrite get_mscale. split; intros H.
  - destruct (Qmult_integral _ _ H) as [E|E]; [contradiction|exact E].
  - rewrite H. ring.
Qed.
Theorem support_ok_mscale n adj s M : support_ok n adj M = true -> support_ok n adj (mscale s M) = true.
Proof.
  rewrite !support_ok_spec. intros H i j Hi Hj Hne. apply (H i j Hi Hj). intros E. apply Hne. rewrite get_mscale, E. ring.
Qed.
Theorem support_ok_mscale_iff n adj s M : ~ s == 0 -> support_ok n adj (mscale s M) = support_ok n adj M.
Proof.
  intros Hs. apply eq_true_iff_eq. rewrite !support_ok_spec.
  split; intros H i j Hi Hj Hne; apply (H i j Hi Hj); intros E; apply Hne; apply (mscale_support s M i j Hs); exact E.
Qed.
Theorem dag_witness_ok_mscale order n s M : dag_witness_ok order n M = true -> dag_witness_ok order n (mscale s M) = true.
Proof.
  rewrite !dag_witness_ok_spec. intros H i j Hi Hj Hne. apply (H i j Hi Hj). intros E. apply Hne. rewrite get_mscale, E. ring.
Qed.

(* concrete instances evaluated by the kernel: a 3-node DAG 2 -> 0 -> 1, 2 -> 1 (order 2, 0, 1) and a 2-cycle *)
Example dag_instance :
  let adj := [[0; 1; 0]; [0; 0; 0]; [1; 1; 0]] in
  let A := build_A 3 adj [[1 # 3; 1 # 2; 1 # 7]; [-1 # 2; 1 # 5; 2 # 3]; [1; 1; 1]] (1 # 2) 0 in
  meqb A [[0; 0; 1 # 14]; [-1 # 4; 0; 1 # 3]; [0; 0; 0]] = true /\
  acyclic_ok 3 [2; 0; 1]%nat adj A = true /\ nilpotent_ok 3 A = true /\
  mzero 3 (mpow 3 A 2) = false /\ dag_witness_ok [0; 1; 2]%nat 3 A = false.
Proof. vm_compute. repeat split. Qed.
Example two_cycle_instance :
  let A := [[0; 1 # 2]; [-1 # 2; 0]] in
  nilpotent_ok 2 A = false /\ dag_witness_ok [0; 1]%nat 2 A = false /\ dag_witness_ok [1; 0]%nat 2 A = false.
Proof. vm_compute. repeat split. Qed.
