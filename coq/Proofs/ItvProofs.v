From Coq Require Import Reals ZArith List Lra.
From Interval Require Import Specific_bigint Specific_ops Float_full Xreal Interval Basic.
From Bignums Require Import BigZ.
From CE Require Import Model.Itv.
Import ListNotations.

Section P.
Variable prec : F.precision.

(* interval evaluation encloses the extended-real meaning *)
Definition env_ok (envI : list I.type) (envX : list ExtendedR) : Prop :=
  Forall2 (fun i x => contains (I.convert i) x) envI envX.

Lemma env_ok_nth envI envX n : env_ok envI envX -> contains (I.convert (nth n envI I.nai)) (nth n envX Xnan).
Proof.
  intros H. revert n. induction H as [|i x li lx Hix _ IH]; intros n.
  - assert (E : nth n (@nil I.type) I.nai = I.nai) by (destruct n; reflexivity). rewrite E, I.nai_correct. exact I.
  - destruct n; cbn; [exact Hix|apply IH].
Qed.

Lemma env_ok_snoc envI envX i x : env_ok envI envX -> contains (I.convert i) x -> env_ok (envI ++ [i]) (envX ++ [x]).
Proof. intros H Hx. apply Forall2_app; [exact H|constructor; [exact Hx|constructor]]. Qed.

Lemma evalI_correct : forall e envI envX, env_ok envI envX -> contains (I.convert (evalI prec envI e)) (evalX envX e).
Proof.
  fix IH 1. intros e envI envX Henv. destruct e; cbn [evalI evalX].
  - apply I.fromZ_correct.
  - apply env_ok_nth. exact Henv.
  - pose proof (IH e1 envI envX Henv) as H1.
    destruct (evalI prec envI e1) as [|l u] eqn:Ei; [exact I|].
    destruct (evalX envX e1) as [|r] eqn:Ex; [cbn in H1; destruct H1|].
    apply IH. apply env_ok_snoc; [exact Henv|exact H1].
  - apply I.add_correct; apply IH; exact Henv.
  - apply I.sub_correct; apply IH; exact Henv.
  - apply I.mul_correct; apply IH; exact Henv.
  - apply I.div_correct; apply IH; exact Henv.
  - apply I.neg_correct; apply IH; exact Henv.
  - apply I.abs_correct; apply IH; exact Henv.
  - apply I.exp_correct; apply IH; exact Henv.
  - apply I.ln_correct; apply IH; exact Henv.
  - apply I.sqrt_correct; apply IH; exact Henv.
  - apply I.cos_correct; apply IH; exact Henv.
  - apply I.sin_correct; apply IH; exact Henv.
  - apply I.pi_correct.
  - induction l as [|x l IHl]; cbn [fold_right].
    + apply I.fromZ_correct.
    + apply I.add_correct; [apply IH; exact Henv|exact IHl].
Qed.

(* when the extended evaluation is a real number it is the R meaning *)
Definition envR_ok (envX : list ExtendedR) (envR : list R) : Prop := Forall2 (fun x r => x = Xreal r) envX envR.

Lemma envR_ok_nth envX envR n r : envR_ok envX envR -> nth n envX Xnan = Xreal r -> nth n envR 0%R = r.
Proof.
  intros H. revert n. induction H as [|x r0 lx lr Hx _ IH]; intros n Hn.
  - destruct n; discriminate.
  - destruct n; cbn in *; [congruence|apply IH; exact Hn].
Qed.

Ltac un1 IH Henv H e :=
  let E := fresh "E" in let v := fresh "v" in
  destruct (evalX _ e) as [|v] eqn:E; [discriminate H|]; rewrite (IH e _ _ v Henv E).
Ltac un2 IH Henv H e1 e2 :=
  let E1 := fresh "E" in let E2 := fresh "E" in let v1 := fresh "v" in let v2 := fresh "v" in
  destruct (evalX _ e1) as [|v1] eqn:E1; [discriminate H|]; destruct (evalX _ e2) as [|v2] eqn:E2; [discriminate H|];
  rewrite (IH e1 _ _ v1 Henv E1), (IH e2 _ _ v2 Henv E2).

Lemma evalX_real : forall e envX envR r, envR_ok envX envR -> evalX envX e = Xreal r -> evalR envR e = r.
Proof.
  fix IH 1. intros e envX envR r Henv H. destruct e; cbn [evalX evalR] in *.
  - congruence.
  - eapply envR_ok_nth; eassumption.
  - destruct (evalX envX e1) as [|r1] eqn:E1; [discriminate H|].
    apply (IH e2 (envX ++ [Xreal r1]) (envR ++ [evalR envR e1]) r); [|exact H].
    apply Forall2_app; [exact Henv|constructor; [|constructor]]. f_equal. symmetry. apply (IH e1 envX envR r1 Henv E1).
  - un2 IH Henv H e1 e2. cbn in H; inversion H; reflexivity.
  - un2 IH Henv H e1 e2. cbn in H; inversion H; reflexivity.
  - un2 IH Henv H e1 e2. cbn in H; inversion H; reflexivity.
  - un2 IH Henv H e1 e2. cbn in H. unfold Xdiv' in H. destruct (is_zero v0); [discriminate|]. inversion H; reflexivity.
  - un1 IH Henv H e. cbn in H; inversion H; reflexivity.
  - un1 IH Henv H e. cbn in H; inversion H; reflexivity.
  - un1 IH Henv H e. cbn in H; inversion H; reflexivity.
  - un1 IH Henv H e. cbn in H. unfold Xln' in H. destruct (is_positive v); [|discriminate]. inversion H; reflexivity.
  - un1 IH Henv H e. cbn in H; inversion H; reflexivity.
  - un1 IH Henv H e. cbn in H; inversion H; reflexivity.
  - un1 IH Henv H e. cbn in H; inversion H; reflexivity.
  - congruence.
  - revert r H. induction l as [|x l IHl]; intros r H; cbn [fold_right] in *; [congruence|].
    destruct (evalX envX x) as [|vx] eqn:Ex; [discriminate H|].
    destruct (fold_right (fun x0 acc => Xadd (evalX envX x0) acc) (Xreal 0) l) as [|vl] eqn:El; [discriminate H|].
    rewrite (IH x envX envR vx Henv Ex), (IHl vl eq_refl). cbn in H. congruence.
Qed.

(* the certificate: a successful check proves the real inequality *)
Theorem le0_sound e : le0_check prec e = true -> (evalR [] e <= 0)%R.
Proof.
  unfold le0_check. intros H.
  pose proof (evalI_correct e [] [] (Forall2_nil _)) as C.
  pose proof (I.sign_large_correct (evalI prec [] e)) as S.
  destruct (I.sign_large (evalI prec [] e)); try discriminate.
  - specialize (S _ C). rewrite (evalX_real e [] [] 0%R (Forall2_nil _) S). lra.
  - destruct (S _ C) as [Hx Hle]. rewrite (evalX_real e [] [] _ (Forall2_nil _) Hx). exact Hle.
Qed.
End P.

(* |a - b| <= tol *)
Theorem close_sound a b tol : close_check a b tol = true -> (Rabs (evalR [] a - evalR [] b) <= evalR [] tol)%R.
Proof. unfold close_check, close_expr. intros H. apply le0_sound in H. cbn [evalR] in H. lra. Qed.

Example itv_instance : close_check (EMul (EQ 1 2) (ELn (EQ 7 3))) (EQ 4236489301936 10000000000000) (EQ 1 1000000000000) = true.
Proof. vm_compute. reflexivity. Qed.
