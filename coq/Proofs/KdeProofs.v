From Coq Require Import List ZArith Reals Lra Lia.
From CE Require Import Model.Itv Model.KnnCounts Model.Kde Proofs.ItvProofs.
Import ListNotations.
Open Scope R_scope.

Definition Rsum (l : list R) : R := fold_right Rplus 0 l.

Lemma evalR_ESum {A} env (f : A -> expr) l :
  evalR env (ESum (map f l)) = Rsum (map (fun a => evalR env (f a)) l).
Proof. cbn [evalR]. induction l as [|a l IH]; cbn [map fold_right Rsum]; [reflexivity|]. f_equal. exact IH. Qed.

(* ---- the specification, written directly from the documentation -------------------------------- *)
(* squared Euclidean distance between the real samples p/D and q/D *)
Fixpoint sqdistR (D : R) (p q : list Z) : R :=
  match p, q with
  | a :: p', b :: q' => (IZR a / D - IZR b / D) * (IZR a / D - IZR b / D) + sqdistR D p' q'
  | _, _ => 0
  end.
(* Gaussian-kernel density estimate at sample p: 1/(N (2 pi)^(d/2) h^d) * sum_q exp(-|p-q|^2 / (2 h^2)) *)
Definition dens (h D : R) (N d : R) (pts : list (list Z)) (p : list Z) : R :=
  / (N * Rpower (2 * PI) (d / 2) * Rpower h d) * Rsum (map (fun q => exp (- (sqdistR D p q / (2 * h * h)))) pts).
(* resubstitution entropy: minus the mean log density at the samples themselves *)
Definition kde_entropy_spec (h D : R) (pts : list (list Z)) : R :=
  let N := INR (length pts) in let d := INR (length (hd [] pts)) in
  - (Rsum (map (fun p => ln (dens h D N d pts p)) pts) / N).

(* bandwidth rules of scikit-learn *)
Definition bandwidth_spec (b : bw) (N d : R) : R :=
  match b with
  | Silverman => Rpower (N * (d + 2) / 4) (- 1 / (d + 4))
  | Scott => Rpower N (- 1 / (d + 4))
  | Num n dd => IZR n / IZR dd
  end.

Lemma h_expr_spec b N d : evalR [] (h_expr b N d) = bandwidth_spec b (IZR N) (IZR d).
Proof.
  destruct b; cbn [h_expr evalR bandwidth_spec EQ]; unfold Rpower.
  - f_equal. rewrite mult_IZR, !plus_IZR. unfold Rdiv. ring.
  - f_equal. rewrite plus_IZR. unfold Rdiv. ring.
  - reflexivity.
Qed.

Lemma dist_euclid_scaled D p q : D <> 0 -> IZR (dist Euclid p q) / (D * D) = sqdistR D p q.
Proof.
  intros HD. unfold dist. revert q. induction p as [|a p IH]; intros [|b q]; cbn [combine map agg fold_right sqdistR];
    try (unfold Rdiv; ring).
  cbn [agg] in IH. rewrite plus_IZR. unfold cd at 1. cbn [fst snd]. rewrite mult_IZR, minus_IZR.
  rewrite <- IH. field. exact HD.
Qed.

Lemma Rsum_pos {A} (f : A -> R) l : l <> [] -> (forall a, 0 < f a) -> 0 < Rsum (map f l).
Proof.
  intros Hl Hf. destruct l as [|a l]; [congruence|]. clear Hl. revert a. induction l as [|b l IH]; intros a.
  - cbn. specialize (Hf a). lra.
  - cbn [map Rsum fold_right]. specialize (IH b). cbn [map Rsum fold_right] in IH. specialize (Hf a). lra.
Qed.

Lemma Rsum_ext {A} (f g : A -> R) l : (forall a, In a l -> f a = g a) -> Rsum (map f l) = Rsum (map g l).
Proof. intros H. f_equal. apply map_ext_in. exact H. Qed.

(* the expression evaluated by the interval layer means exactly the documented entropy *)
Theorem kde_entropy_expr_spec b D pts : D <> 0%Z -> pts <> [] ->
  0 < bandwidth_spec b (INR (length pts)) (INR (length (hd [] pts))) ->
  evalR [] (kde_entropy_expr b D pts) =
  kde_entropy_spec (bandwidth_spec b (INR (length pts)) (INR (length (hd [] pts)))) (IZR D) pts.
Proof.
  intros HD Hne Hh. unfold kde_entropy_expr, kde_entropy_spec. cbv zeta.
  set (N := length pts) in *. set (d := length (hd [] pts)) in *.
  cbn [evalR app]. rewrite h_expr_spec. rewrite <- !INR_IZR_INZ.
  set (h := bandwidth_spec b (INR N) (INR d)) in *.
  cbn [nth EQ evalR]. rewrite <- !INR_IZR_INZ.
  set (env := [h; 2 * (h * h) * IZR (D * D); ln (INR N) + (INR d / IZR 2 * ln (2 * PI) + INR d * ln h)]).
  assert (HN : 0 < INR N) by (apply lt_0_INR; subst N; destruct pts; [congruence|cbn; lia]).
  assert (HDr : IZR D <> 0) by (apply not_0_IZR; exact HD).
  unfold kde_entropy_body. cbn [evalR]. rewrite <- !INR_IZR_INZ.
  f_equal. f_equal.
  change (fold_right (fun x acc => evalR env x + acc) 0 ?l) with (evalR env (ESum l)).
  unfold sqd. rewrite map_map.
  rewrite (evalR_ESum env). apply Rsum_ext. intros p _.
  cbn [evalR]. rewrite map_map.
  change (fold_right (fun x acc => evalR env x + acc) 0 ?l) with (evalR env (ESum l)).
  rewrite (evalR_ESum env).
  unfold dens.
  assert (Hs : 0 < Rsum (map (fun q => exp (- (sqdistR (IZR D) p q / (2 * h * h)))) pts)) by (apply Rsum_pos; [exact Hne|intros; apply exp_pos]).
  assert (HA : 0 < Rpower (2 * PI) (INR d / 2)) by (unfold Rpower; apply exp_pos).
  assert (HB : 0 < Rpower h (INR d)) by (unfold Rpower; apply exp_pos).
  assert (Hc : 0 < INR N * Rpower (2 * PI) (INR d / 2) * Rpower h (INR d)) by (repeat apply Rmult_lt_0_compat; assumption).
  rewrite ln_mult by (try apply Rinv_0_lt_compat; assumption).
  rewrite ln_Rinv by exact Hc.
  rewrite ln_mult by (try apply Rmult_lt_0_compat; assumption).
  rewrite ln_mult by assumption.
  unfold Rpower. rewrite !ln_exp.
  replace (Rsum (map (fun a => evalR env (EExp (ENeg (EDiv (EZ (dist Euclid p a)) (EVar 1))))) pts))
    with (Rsum (map (fun q => exp (- (sqdistR (IZR D) p q / (2 * h * h)))) pts)).
  - cbn [nth env]. lra.
  - apply Rsum_ext. intros q _. cbn [evalR nth env]. f_equal. f_equal.
    rewrite <- (dist_euclid_scaled (IZR D)) by exact HDr. rewrite mult_IZR. field. split; [lra|exact HDr] || (split; [exact HDr|lra]).
Qed.


(* non-vacuity: both data-driven bandwidth rules are positive for every N >= 1, d >= 0 *)
Lemma bandwidth_rules_positive b N d : match b with Num n dd => 0 < IZR n / IZR dd | _ => True end -> 0 < bandwidth_spec b N d.
Proof. destruct b; cbn [bandwidth_spec]; intros H; try exact H; unfold Rpower; apply exp_pos. Qed.

(* MI and CMI are the documented signed sums of such entropies *)
Theorem kde_mi_expr_def b D all : evalR [] (kde_mi_expr b D all) =
  evalR [] (kde_entropy_expr b D (map sx all)) + evalR [] (kde_entropy_expr b D (map sy all))
  - evalR [] (kde_entropy_expr b D (map (fun s => sx s ++ sy s) all)).
Proof. reflexivity. Qed.
Theorem kde_cmi_expr_def b D all : evalR [] (kde_cmi_expr b D all) =
  evalR [] (kde_entropy_expr b D (map pxz all)) + evalR [] (kde_entropy_expr b D (map pyz all))
  - evalR [] (kde_entropy_expr b D (map pj all)) - evalR [] (kde_entropy_expr b D (map sz all)).
Proof. reflexivity. Qed.
