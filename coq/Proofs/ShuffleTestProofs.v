From Coq Require Import ZArith List Lia Sorting Permutation Bool ZifyBool Mergesort Orders.
From CE Require Import Model.ShuffleTest.
Import ListNotations.
Open Scope Z_scope.

(* ---------- sorting ---------------------------------------------------------- *)
Lemma sort_sorted l : StronglySorted Z.le (ZSort.sort l).
Proof.
  pose proof (ZSort.StronglySorted_sort l) as H.
  assert (T : Transitive (fun x y => is_true (ZOrder.leb x y))) by (intros x y z; unfold ZOrder.leb, is_true; lia).
  specialize (H T). clear T. induction H as [|x s Hs IH Hx]; constructor; auto.
  rewrite Forall_forall in *. intros y Hy. specialize (Hx y Hy). unfold ZOrder.leb, is_true in Hx. lia.
Qed.

Lemma sort_perm l : Permutation l (ZSort.sort l).
Proof. apply ZSort.Permuted_sort. Qed.

Lemma sort_length l : length (ZSort.sort l) = length l.
Proof. symmetry. apply Permutation_length, sort_perm. Qed.

Lemma sorted_perm_eq : forall l1 l2 : list Z,
  StronglySorted Z.le l1 -> StronglySorted Z.le l2 -> Permutation l1 l2 -> l1 = l2.
Proof.
  induction l1 as [|a l1 IH]; intros l2 H1 H2 P.
  - apply Permutation_nil in P. congruence.
  - destruct l2 as [|b l2]; [apply Permutation_sym, Permutation_nil in P; discriminate|].
    inversion H1 as [|? ? S1 F1]; inversion H2 as [|? ? S2 F2]; subst.
    assert (E : a = b).
    { assert (Ia : In a (b :: l2)) by (eapply Permutation_in; [exact P|left; reflexivity]).
      assert (Ib : In b (a :: l1)) by (eapply Permutation_in; [apply Permutation_sym; exact P|left; reflexivity]).
      rewrite Forall_forall in F1, F2. destruct Ia as [->|Ia]; [reflexivity|]. destruct Ib as [->|Ib]; [reflexivity|].
      specialize (F1 _ Ib). specialize (F2 _ Ia). lia. }
    subst b. f_equal. apply IH; auto. eapply Permutation_cons_inv; exact P.
Qed.

Lemma sort_perm_inv l1 l2 : Permutation l1 l2 -> ZSort.sort l1 = ZSort.sort l2.
Proof.
  intros P. apply sorted_perm_eq; try apply sort_sorted.
  eapply Permutation_trans; [apply Permutation_sym, sort_perm|].
  eapply Permutation_trans; [exact P|apply sort_perm].
Qed.

(* ---------- counting --------------------------------------------------------- *)
Lemma cge_cons obs x l : cge obs (x :: l) = ((if (obs <=? x)%Z then 1 else 0) + cge obs l)%nat.
Proof. unfold cge; cbn [filter]. destruct (obs <=? x); reflexivity. Qed.
Lemma cge_le obs l : (cge obs l <= length l)%nat.
Proof. induction l as [|x l IH]; [reflexivity|]. rewrite cge_cons; cbn [length]. destruct (obs <=? x); lia. Qed.
Lemma cge_all obs x l : obs <= x -> Forall (Z.le x) l -> cge obs l = length l.
Proof. intros Hx H; induction H as [|y l Hy _ IH]; [reflexivity|]. rewrite cge_cons, IH; cbn [length].
  destruct (obs <=? y) eqn:E; lia. Qed.
Lemma cge_perm obs l1 l2 : Permutation l1 l2 -> cge obs l1 = cge obs l2.
Proof.
  induction 1 as [|x l l' _ IH|x y l|l l' l'' _ IH1 _ IH2]; try reflexivity.
  - rewrite !cge_cons, IH. reflexivity.
  - rewrite !cge_cons. lia.
  - congruence.
Qed.

Lemma sorted_nth_le x s i : Forall (Z.le x) s -> (i < length s)%nat -> x <= nth i s 0.
Proof. intros H Hi. rewrite Forall_forall in H. apply H, nth_In, Hi. Qed.

Lemma count_below obs s : StronglySorted Z.le s -> forall i, (i < length s)%nat -> nth i s 0 < obs ->
  (cge obs s + i + 1 <= length s)%nat.
Proof.
  induction 1 as [|x s' Hs IH Hx]; intros i Hi Hn; cbn [length] in *; [lia|].
  rewrite cge_cons. destruct i as [|i']; cbn [nth] in Hn.
  - pose proof (cge_le obs s'). destruct (obs <=? x) eqn:E; lia.
  - pose proof (sorted_nth_le x s' i' Hx ltac:(lia)). specialize (IH i' ltac:(lia) Hn).
    destruct (obs <=? x) eqn:E; lia.
Qed.

Lemma count_above obs s : StronglySorted Z.le s -> forall i, (i < length s)%nat -> obs <= nth i s 0 ->
  (length s <= cge obs s + i)%nat.
Proof.
  induction 1 as [|x s' Hs IH Hx]; intros i Hi Hn; cbn [length] in *; [lia|].
  rewrite cge_cons. destruct i as [|i']; cbn [nth] in Hn.
  - rewrite (cge_all obs x s' Hn Hx). destruct (obs <=? x) eqn:E; lia.
  - specialize (IH i' ltac:(lia) Hn). destruct (obs <=? x); lia.
Qed.

Lemma sorted_succ s : StronglySorted Z.le s -> forall k, (S k < length s)%nat -> nth k s 0 <= nth (S k) s 0.
Proof.
  induction 1 as [|x s' Hs IH Hx]; intros k Hk; cbn [length] in *; [lia|].
  destruct k as [|k]; cbn [nth].
  - apply (sorted_nth_le x s' 0%nat Hx). lia.
  - apply IH. lia.
Qed.

(* ---------- coherence of the verdict on a sorted sample ---------------------- *)
Section Coh.
Variables (a b obs : Z) (s : list Z).
Hypothesis Hab : 0 < a < b.
Hypothesis Hn : (2 <= length s)%nat.
Hypothesis Hs : StronglySorted Z.le s.
Let n := len s.
Let h := (n - 1) * (b - a).
Let lo := h / b.
Let r := h mod b.
Let vlo := nth (Z.to_nat lo) s 0.
Let vhi := nth (Z.to_nat (lo + 1)) s vlo.

Lemma facts : 2 <= n /\ 0 <= lo <= n - 1 /\ 0 <= r < b /\ h = b * lo + r /\ vlo <= vhi /\ (lo = n - 1 -> r = 0)
  /\ thr_b a b s = vlo * b + r * (vhi - vlo).
Proof.
  assert (Hn2 : 2 <= n) by (unfold n, len; lia).
  assert (Hr : 0 <= r < b) by (apply Z.mod_pos_bound; lia).
  assert (Hdiv : h = b * lo + r) by (apply Z.div_mod; lia).
  assert (Hh : 0 <= h <= (n-1) * b - 1) by (unfold h; nia).
  assert (Hlo : 0 <= lo <= n - 1) by nia.
  assert (Hlast : lo = n - 1 -> r = 0) by (intros E; nia).
  repeat split; try lia.
  unfold vhi. destruct (Z.eq_dec lo (n-1)) as [E|E].
  - rewrite nth_overflow; [lia|]. unfold n, len in *; lia.
  - rewrite (nth_indep s vlo 0) by (unfold n, len in *; lia).
      unfold vlo. replace (Z.to_nat (lo+1)) with (S (Z.to_nat lo)) by lia.
      apply sorted_succ; [exact Hs|]. unfold n, len in *; lia.
Qed.

Lemma threshold_between : vlo * b <= thr_b a b s <= vhi * b.
Proof. destruct facts as (Hn2 & Hlo & Hr & Hdiv & Hle & _ & Ht). rewrite Ht. nia. Qed.

Lemma strict_pass_coherent : pass_strict a b obs s = true -> count_ge obs s * b <= a * n + b.
Proof.
  destruct facts as (Hn2 & Hlo & Hr & Hdiv & Hle & _ & Ht).
  unfold pass_strict. rewrite Ht. intros Hp. apply Z.ltb_lt in Hp.
  assert (Hv : vlo < obs) by nia.
  pose proof (count_below obs s Hs (Z.to_nat lo) ltac:(unfold n, len in *; lia) Hv) as Hc.
  unfold count_ge. unfold n, len in *. unfold h in Hdiv. nia.
Qed.

Lemma strict_fail_coherent : pass_strict a b obs s = false -> a * n - b <= count_ge obs s * b.
Proof.
  destruct facts as (Hn2 & Hlo & Hr & Hdiv & Hle & Hlast & Ht).
  unfold pass_strict. rewrite Ht. intros Hp. apply Z.ltb_ge in Hp.
  destruct (Z.eq_dec r 0) as [E0|E0].
  - assert (Hv : obs <= vlo) by nia.
    pose proof (count_above obs s Hs (Z.to_nat lo) ltac:(unfold n, len in *; lia) Hv) as Hc.
    unfold count_ge. unfold n, len in *. unfold h in Hdiv. nia.
  - assert (Hv : obs <= vhi) by nia.
    assert (Hlt : lo < n - 1) by (destruct (Z.eq_dec lo (n-1)) as [e|e]; [specialize (Hlast e); lia|lia]).
    unfold vhi in Hv. rewrite (nth_indep s vlo 0) in Hv by (unfold n, len in *; lia).
    pose proof (count_above obs s Hs (Z.to_nat (lo+1)) ltac:(unfold n, len in *; lia) Hv) as Hc.
    unfold count_ge. unfold n, len in *. unfold h in Hdiv. nia.
Qed.

Lemma all_tied_never_strict : (forall v, In v s -> v = obs) -> pass_strict a b obs s = false.
Proof.
  intros Hall. destruct facts as (Hn2 & Hlo & Hr & Hdiv & Hle & Hlast & Ht).
  unfold pass_strict. rewrite Ht. apply Z.ltb_ge.
  assert (vlo = obs) by (apply Hall, nth_In; unfold n, len in *; lia).
  assert (vhi = obs).
  { unfold vhi. destruct (Z.eq_dec lo (n-1)) as [E|E].
    - rewrite nth_overflow; [lia|]. unfold n, len in *; lia.
    - apply Hall. rewrite (nth_indep s vlo 0) by (unfold n, len in *; lia). apply nth_In. unfold n, len in *; lia. }
  nia.
Qed.
End Coh.

(* ---------- the whole test (sorting inside) ---------------------------------- *)
Section Whole.
Variables (a b obs : Z) (nulls : list Z).
Hypothesis Hab : 0 < a < b.
Hypothesis Hn : (2 <= length nulls)%nat.
Let R := shuffle_model a b obs nulls.

Lemma Hn' : (2 <= length (ZSort.sort nulls))%nat.
Proof. rewrite sort_length. exact Hn. Qed.

Lemma count_sorted : count_ge obs (ZSort.sort nulls) = count_ge obs nulls.
Proof. unfold count_ge. f_equal. symmetry. apply cge_perm, sort_perm. Qed.

Lemma len_sorted : len (ZSort.sort nulls) = len nulls.
Proof. unfold len. rewrite sort_length. reflexivity. Qed.

(* significance declared  ==>  p <= alpha + 1/n   (count/n <= a/b + 1/n) *)
Theorem model_pass_coherent : r_pass R = true -> r_count R * b <= a * r_n R + b.
Proof.
  unfold R, shuffle_model; cbn [r_pass r_count r_n]. intros H.
  pose proof (strict_pass_coherent a b obs _ Hab Hn' (sort_sorted nulls) H) as K.
  rewrite count_sorted, len_sorted in K. exact K.
Qed.

(* significance withheld  ==>  p >= alpha - 1/n *)
Theorem model_fail_coherent : r_pass R = false -> a * r_n R - b <= r_count R * b.
Proof.
  unfold R, shuffle_model; cbn [r_pass r_count r_n]. intros H.
  pose proof (strict_fail_coherent a b obs _ Hab Hn' (sort_sorted nulls) H) as K.
  rewrite count_sorted, len_sorted in K. exact K.
Qed.

(* an observed value tied with the whole null is never significant (and then p = 1) *)
Theorem model_all_tied : (forall v, In v nulls -> v = obs) -> r_pass R = false /\ r_count R = r_n R.
Proof.
  intros Hall. split.
  - unfold R, shuffle_model; cbn [r_pass]. apply all_tied_never_strict; try assumption.
    + apply Hn'. + apply sort_sorted.
    + intros v Hv. apply Hall. eapply Permutation_in; [apply Permutation_sym, sort_perm|exact Hv].
  - unfold R, shuffle_model; cbn [r_count r_n]. unfold count_ge, len. f_equal.
    apply (cge_all obs obs); [lia|]. rewrite Forall_forall. intros v Hv. rewrite (Hall v Hv). lia.
Qed.

(* the threshold lies at the (1-alpha) quantile: between the two order statistics around
   position (n-1)(1-alpha) of the sorted surrogate values *)
Theorem model_threshold_at_quantile :
  let s := ZSort.sort nulls in
  let lo := ((len nulls - 1) * (b - a)) / b in
  nth (Z.to_nat lo) s 0 * b <= r_thr_b R <= nth (Z.to_nat (lo + 1)) s (nth (Z.to_nat lo) s 0) * b
  /\ 0 <= lo <= len nulls - 1.
Proof.
  cbn zeta. unfold R, shuffle_model; cbn [r_thr_b].
  pose proof (threshold_between a b _ Hab Hn' (sort_sorted nulls)) as K.
  destruct (facts a b _ Hab Hn' (sort_sorted nulls)) as (_ & Hlo & _).
  rewrite len_sorted in *. split; [exact K|exact Hlo].
Qed.

(* p is a fraction of the n surrogates *)
Theorem model_p_in_unit : 0 <= r_count R <= r_n R /\ r_n R = Z.of_nat (length nulls).
Proof.
  clear Hab Hn. unfold R, shuffle_model; cbn [r_count r_n]. unfold count_ge, len.
  pose proof (cge_le obs nulls). split; [lia|reflexivity].
Qed.

Theorem model_value_echoed : r_value R = obs.
Proof. reflexivity. Qed.
End Whole.

(* the outcome does not depend on the order in which the surrogates were produced *)
Theorem model_order_irrelevant a b obs n1 n2 : Permutation n1 n2 -> shuffle_model a b obs n1 = shuffle_model a b obs n2.
Proof.
  intros P. unfold shuffle_model. rewrite (sort_perm_inv _ _ P).
  unfold count_ge, len. rewrite (cge_perm obs _ _ P), (Permutation_length P). reflexivity.
Qed.

(* a surrogate is a re-ordering of the rows of X: nothing lost, nothing duplicated *)
Lemma map_nth_seq {A} (X : list A) d : map (fun i => nth i X d) (seq 0 (length X)) = X.
Proof.
  induction X as [|x X IH]; [reflexivity|]. cbn [length seq map nth].
  f_equal. rewrite <- seq_shift, map_map. exact IH.
Qed.

Theorem permute_rows_permutation {A} (X : list A) d perm :
  Permutation perm (seq 0 (length X)) -> Permutation (permute_rows X d perm) X.
Proof.
  intros P. unfold permute_rows.
  eapply Permutation_trans; [apply Permutation_map; exact P|]. rewrite map_nth_seq. apply Permutation_refl.
Qed.

(* the pinned (pre-fix) non-strict verdict is refuted: finding F1 inside Coq *)
Theorem weak_refuted : exists a b obs s,
  0 < a < b /\ (2 <= length s)%nat /\ pass_weak a b obs s = true /\ count_ge obs s * b > a * len s + b.
Proof. exists 1, 20, 0, [0;0;0;0]. vm_compute. repeat split; try reflexivity; lia. Qed.

(* non-vacuity: a concrete non-trivial sample meets the hypotheses, passes, and is coherent *)
Example coherent_instance :
  let R := shuffle_model 1 20 8 [3; 1; 4; 1; 5; 9; 2; 6; 5; 3] in
  r_pass R = true /\ r_count R = 1 /\ r_n R = 10 /\ r_thr_b R = 6 * 20 + 11 * (9 - 6).
Proof. vm_compute. repeat split; reflexivity. Qed.
