"""Shared machinery for the causationentropy Coq verification checks.

Everything that talks to Coq, writes evidence / replay files, or matches known
findings lives here so that the per-property modules (harness/props/Cxx.py)
only contain generators, the implementation adapters and the property
predicates.
"""
import contextlib
import fcntl
import hashlib
import io
import json
import os
import re
import shutil
import subprocess
import sys
import time
from fractions import Fraction

VERIF = os.path.dirname(os.path.dirname(os.path.abspath(__file__)))
REPO = os.environ.get("CE_REPO", "/repo")
COQ = os.path.join(VERIF, "coq")
BUILD = os.path.join(VERIF, "build")
COQ_FLAGS = ["-Q", COQ, "CE", "-w",
             "-notation-overridden,-deprecated-hint-without-locality,"
             "-deprecated-instance-without-locality,-ambiguous-paths"]

FORBIDDEN = re.compile(
    r"\b(Admitted|admit|Axiom|Axioms|Parameter|Parameters|Conjecture|Conjectures|"
    r"Admit\s+Obligations|bypass_check|Unset\s+Guard\s+Checking|Unset\s+Positivity\s+Checking|"
    r"Unset\s+Universe\s+Checking|native_compute)\b")

# Axioms the standard library / bundled libraries declare and that theorems of this
# development may depend on (DESIGN.md section 5).  Anything else fails the check.
ALLOWED_AXIOMS = {
    "ClassicalDedekindReals.sig_forall_dec",
    "ClassicalDedekindReals.sig_not_dec",
    "FunctionalExtensionality.functional_extensionality_dep",
    "Classical_Prop.classic",
}
# prefixes of primitive-integer / float specification axioms pulled in by Bignums / Interval
# coqchk re-checks the whole closure (Coq-Interval, Flocq, Bignums for the numeric properties): 25-60 min for C13 on a loaded
# machine.  The limit only guards against a hang; running into it is reported as a failed obligation.
COQCHK_TIMEOUT = 14400
ALLOWED_AXIOM_PREFIXES = ("Uint63.", "PrimInt63.", "Sint63.", "PrimFloat.", "FloatAxioms.",
                          "Uint63Axioms.", "CarryType.", "PrimArray.")


class Violation(Exception):
    pass


def sh(cmd, timeout=600, cwd=None, env=None, stdin=None):
    p = subprocess.run(cmd, cwd=cwd, env=env, input=stdin, stdout=subprocess.PIPE,
                       stderr=subprocess.STDOUT, timeout=timeout, text=True)
    return p.returncode, p.stdout


# --------------------------------------------------------------------------
# number rendering
# --------------------------------------------------------------------------
def zlit(n):
    n = int(n)
    return f"({n})" if n < 0 else str(n)


def qlit(x):
    """Exact Coq Q literal of a Python float / int / Fraction."""
    if isinstance(x, Fraction):
        f = x
    elif isinstance(x, int):
        f = Fraction(x)
    else:
        f = Fraction(float(x))
    return f"({zlit(f.numerator)} # {f.denominator})"


def coq_list(items):
    return "[" + "; ".join(items) + "]"


def zlist(xs):
    return coq_list([zlit(x) for x in xs])


def zmat(m):
    return coq_list([zlist(r) for r in m])


def qlist(xs):
    return coq_list([qlit(x) for x in xs])


def qmat(m):
    return coq_list([qlist(r) for r in m])


def coq_bool(b):
    return "true" if b else "false"


def coq_str(s):
    return '"' + s.replace('"', '""') + '"'


# --------------------------------------------------------------------------
# Coq build / theorem checking
# --------------------------------------------------------------------------
def ensure_built():
    """Make sure every .vo of the development is up to date (no-op after setup)."""
    os.makedirs(BUILD, exist_ok=True)
    with open(os.path.join(BUILD, ".lock"), "w") as lk:
        fcntl.flock(lk, fcntl.LOCK_EX)
        if not os.path.exists(os.path.join(COQ, "Makefile")):
            rc, out = sh(["coq_makefile", "-f", "_CoqProject", "-o", "Makefile"], cwd=COQ)
            if rc:
                raise RuntimeError("coq_makefile failed:\n" + out)
        rc, out = sh(["timeout", "3000", "make", "-j16"], cwd=COQ, timeout=3100)
        if rc:
            raise RuntimeError("Coq build failed:\n" + out[-4000:])


def hygiene():
    """Refuse to report success if the development contains forbidden declarations."""
    bad = []
    for root, _, files in os.walk(COQ):
        for f in files:
            if not f.endswith(".v"):
                continue
            path = os.path.join(root, f)
            txt = open(path).read()
            txt_nc = re.sub(r"\(\*.*?\*\)", "", txt, flags=re.S)
            for m in FORBIDDEN.finditer(txt_nc):
                bad.append(f"{os.path.relpath(path, VERIF)}: {m.group(0)}")
            stack = []
            for line in txt_nc.splitlines():
                m = re.match(r"^\s*Section\s+(\w+)\s*\.", line)
                if m:
                    stack.append(("S", m.group(1)))
                    continue
                m = re.match(r"^\s*Module\s+(?:Type\s+)?(\w+)[^=]*\.\s*$", line)
                if m and ":=" not in line:
                    stack.append(("M", m.group(1)))
                    continue
                m = re.match(r"^\s*End\s+(\w+)\s*\.", line)
                if m and stack and stack[-1][1] == m.group(1):
                    stack.pop()
                    continue
                m = re.match(r"^\s*(Variable|Variables|Hypothesis|Hypotheses|Context)\b", line)
                if m and not any(k == "S" for k, _ in stack):
                    bad.append(f"{os.path.relpath(path, VERIF)}: top-level {m.group(1)}")
    return bad


def rundir(pid):
    # CE_RUN_TAG separates the scratch files of concurrent runs of the same property (e.g. against different checkouts)
    d = os.path.join(BUILD, "run", os.environ.get("CE_RUN_TAG", ""), pid)
    os.makedirs(d, exist_ok=True)
    return d


def coqc_file(path, timeout=900):
    d = os.path.dirname(path)
    rc, out = sh(["timeout", str(timeout), "coqc", "-noglob"] + COQ_FLAGS + ["-R", d, "Run", path], cwd=d, timeout=timeout + 30)
    return rc, out


def theorem_names(pid):
    src = open(os.path.join(COQ, "Properties", f"{pid}.v")).read()
    src = re.sub(r"\(\*.*?\*\)", "", src, flags=re.S)
    return re.findall(r"^\s*(?:Theorem|Corollary)\s+([A-Za-z0-9_']+)", src, flags=re.M)


def check_theorems(pid):
    """Re-compile Properties/<pid>.v against the current model .vo files and collect
    `Print Assumptions` for every theorem in it.  Returns a list of dicts
    {name, ok, axioms, error?}."""
    d = rundir(pid)
    src = os.path.join(COQ, "Properties", f"{pid}.v")
    # 1. re-check the property file itself (a private copy so that concurrent checks do not race)
    cp = os.path.join(d, f"Recheck_{pid}.v")
    shutil.copy(src, cp)
    rc, out = coqc_file(cp)
    names = theorem_names(pid)
    if rc != 0:
        return [{"name": n, "ok": False, "axioms": [], "error": out[-1500:]} for n in names] or \
               [{"name": f"Properties/{pid}.v", "ok": False, "axioms": [], "error": out[-1500:]}]
    # 2. assumptions, one marker per theorem
    # (several coqc processes side by side: `Print Assumptions` walks the whole proof term of each theorem)
    nchunk = min(4, max(1, len(names) // 4))
    parts = [names[i::nchunk] for i in range(nchunk)]

    def assum(k):
        q = os.path.join(d, f"Assum_{pid}_{k}.v")
        with open(q, "w") as f:
            f.write("From Coq Require Import String.\n")
            f.write(f"From Run Require Import Recheck_{pid}.\n")
            for n in parts[k]:
                f.write(f'Eval vm_compute in "@@{n}"%string.\nPrint Assumptions {n}.\n')
        return coqc_file(q, timeout=600)
    from concurrent.futures import ThreadPoolExecutor
    with ThreadPoolExecutor(max_workers=nchunk) as ex:
        outs = list(ex.map(assum, range(nchunk)))
    res = []
    if any(rc_ != 0 for rc_, _ in outs):
        out = "\n".join(o for rc_, o in outs if rc_ != 0)
        return [{"name": n, "ok": False, "axioms": [], "error": out[-1500:]} for n in names]
    out = "\n".join(o for _, o in outs)
    chunks = re.split(r'=\s*"@@([A-Za-z0-9_\']+)"%?s?t?r?i?n?g?\s*:\s*string', out)
    # chunks: [pre, name1, body1, name2, body2, ...]
    for i in range(1, len(chunks), 2):
        name, body = chunks[i], chunks[i + 1]
        axioms = []
        if "Closed under the global context" not in body:
            for line in body.splitlines():
                m = re.match(r"^([A-Za-z_][A-Za-z0-9_.']*)\s*(:|$)", line)
                if m and m.group(1) != "Axioms":
                    axioms.append(m.group(1))
        bad = [a for a in axioms if a not in ALLOWED_AXIOMS and not a.startswith(ALLOWED_AXIOM_PREFIXES)]
        res.append({"name": name, "ok": not bad, "axioms": axioms,
                    **({"error": "axioms outside the allow-list: " + ", ".join(bad)} if bad else {})})
    seen = {r["name"] for r in res}
    for n in names:
        if n not in seen:
            res.append({"name": n, "ok": False, "axioms": [], "error": "no Print Assumptions output"})
    return res


def run_cases(pid, name, imports, defs, queries, timeout=900):
    """Write build/run/<pid>/<name>.v = imports + defs + one `Eval vm_compute` per query
    and return the list of printed values (as strings, whitespace-normalised)."""
    d = rundir(pid)
    path = os.path.join(d, f"{name}.v")
    with open(path, "w") as f:
        f.write(imports + "\n")
        f.write(defs + "\n")
        for i, qy in enumerate(queries):
            f.write(f"Eval vm_compute in ({qy}).\n")
    rc, out = coqc_file(path, timeout=timeout)
    if rc != 0:
        raise RuntimeError(f"coqc failed on {path} (rc={rc}):\n{out[-3000:]}")
    vals = []
    for blk in re.split(r"^\s*= ", out, flags=re.M)[1:]:
        blk = " ".join(blk.split())
        # strip the trailing ": type"
        depth = 0
        cut = None
        for i, ch in enumerate(blk):
            if ch in "([":
                depth += 1
            elif ch in ")]":
                depth -= 1
            elif ch == ":" and depth == 0 and blk[i - 1] == " ":
                cut = i
        vals.append(blk[:cut].strip() if cut else blk)
    if len(vals) != len(queries):
        raise RuntimeError(f"expected {len(queries)} results from {path}, got {len(vals)}:\n{out[-2000:]}")
    return vals


def parse_nlist(s):
    """'[1%N; 2%N]' or '[]' -> [1, 2]"""
    return [int(x) for x in re.findall(r"-?\d+", s.replace("%N", "").replace("%Z", "").replace("%nat", ""))]


def run_case_shards(pid, name, imports, case_type, check_fn, cases, shard=400, jobs=8, timeout=900):
    """cases: list of Coq term strings of type `case_type`.  Evaluates
    `bad_idx check_fn shard` in parallel coqc processes; returns the global indices
    that the model-side check rejects."""
    from concurrent.futures import ThreadPoolExecutor
    shards = [cases[i:i + shard] for i in range(0, len(cases), shard)]

    def one(k):
        defs = f"Definition cases : list ({case_type}) :=\n  [" + ";\n   ".join(shards[k]) + "].\n"
        vals = run_cases(pid, f"{name}_{k}", imports, defs, [f"bad_idx ({check_fn}) cases"], timeout=timeout)
        return [k * shard + i for i in parse_nlist(vals[0])]
    bad = []
    with ThreadPoolExecutor(max_workers=jobs) as ex:
        for r in ex.map(one, range(len(shards))):
            bad.extend(r)
    return bad


# --------------------------------------------------------------------------
# evidence, replays, known findings
# --------------------------------------------------------------------------
def load_known():
    p = os.path.join(VERIF, "known_findings.json")
    if not os.path.exists(p):
        return []
    return json.load(open(p))["findings"]


class Check:
    """Collects obligations, correspondence statistics and violations for one run."""

    def __init__(self, pid, tier, seed):
        self.pid, self.tier, self.seed = pid, tier, seed
        self.t0 = time.time()
        self.obligations = []      # dicts {kind, name, ok, detail}
        self.evaluations = 0
        self.nontrivial = set()
        self.samples = []
        self.rule = ""
        self.stats = {}
        self.violations = []       # dicts
        self.known_hits = []
        self.assumptions = []
        self.trusted = []
        self.exhaustive = None
        self.extra = {}
        self.known = [k for k in load_known() if k["property"] == pid]

    # --- bookkeeping
    def oblige(self, kind, name, ok, detail=""):
        self.obligations.append({"kind": kind, "name": name, "ok": bool(ok), "detail": detail})

    def count(self, key, n=1):
        self.stats[key] = self.stats.get(key, 0) + n

    def case(self, key=None, nontrivial=True, sample=None):
        self.evaluations += 1
        if nontrivial and key is not None:
            self.nontrivial.add(hashlib.sha1(repr(key).encode()).hexdigest()[:16])
        if sample is not None and len(self.samples) < 6:
            self.samples.append(sample)

    # --- violations
    def violation(self, kind, what, replay, match=None):
        """kind: 'counterexample' (a concrete failing input against the implementation) or
        'tie-broken' (a theorem / translator lemma / correspondence no longer checks and no
        failing input was found).  `match` is compared with known_findings.json."""
        for k in self.known:
            if k.get("status") == "known" and match is not None and all(match.get(a) == b for a, b in k["match"].items()):
                if k["id"] not in [h["id"] for h in self.known_hits]:
                    self.known_hits.append(k)
                return False
        self.violations.append({"kind": kind, "what": what, "replay": replay})
        return True

    def theorems(self):
        res = check_theorems(self.pid)
        for r in res:
            self.oblige("theorem", r["name"], r["ok"], r.get("error", "") or ("axioms: " + (", ".join(r["axioms"]) or "none")))
        self.extra["theorem_axioms"] = {r["name"]: r["axioms"] for r in res}
        if self.tier == "thorough":
            # the independent checker runs beside the rest of the check (it takes 1-60 min); finish() waits for it
            import threading
            self._coqchk_thread = threading.Thread(target=self.coqchk, daemon=True)
            self._coqchk_thread.start()
        return all(r["ok"] for r in res)

    def coqchk(self):
        """Thorough tier: re-check the property file and everything it depends on with the independent checker."""
        rc, out = sh(["timeout", str(COQCHK_TIMEOUT), "coqchk", "-silent", "-o", "-Q", COQ, "CE", f"CE.Properties.{self.pid}"],
                     timeout=COQCHK_TIMEOUT + 100)
        axioms = []
        sect = None
        flags = {}
        for line in out.splitlines():
            m = re.match(r"^\* (.*?):\s*(.*)$", line.strip())
            if m:
                sect = m.group(1)
                if m.group(2):
                    flags[sect] = m.group(2)
                continue
            if sect == "Axioms" and line.strip():
                axioms.append(line.strip())
        short = [a.replace("Coq.Logic.", "").replace("Coq.Reals.", "").replace("Coq.Numbers.Cyclic.Int63.", "")
                 .replace("Coq.Floats.", "") for a in axioms]
        bad = [a for a in short if a not in ALLOWED_AXIOMS and not a.startswith(ALLOWED_AXIOM_PREFIXES)]
        unsafe = [k for k, v in flags.items() if ("type-in-type" in k or "unsafe" in k or "positivity" in k) and v != "<none>"]
        ok = rc == 0 and not bad and not unsafe
        self.oblige("coqchk", f"coqchk -o CE.Properties.{self.pid}", ok,
                    (f"axioms of all loaded libraries: {', '.join(short) or 'none'}" if ok else
                     f"rc={rc} bad axioms={bad} unsafe={unsafe} tail={out[-400:]}"))
        self.extra["coqchk_axioms"] = short

    def finish(self):
        th = getattr(self, "_coqchk_thread", None)
        if th is not None:
            th.join()
        wall = time.time() - self.t0
        bad_h = hygiene()
        if bad_h:
            self.oblige("hygiene", "no Admitted/Axiom/Parameter in coq/", False, "; ".join(bad_h[:5]))
        else:
            self.oblige("hygiene", "no Admitted/admit/Axiom/Parameter/Conjecture/unchecked flags in coq/", True)
        failed_obl = [o for o in self.obligations if not o["ok"]]
        # a broken obligation with no concrete counterexample is still a violation
        has_cex = any(v["kind"] == "counterexample" for v in self.violations)
        if failed_obl and not has_cex and not self.violations:
            self.violations.append({"kind": "tie-broken", "what": "obligation(s) no longer check: " +
                                    ", ".join(o["name"] for o in failed_obl),
                                    "replay": {"failed_obligations": failed_obl}})
        for k in self.known_hits:
            print(f"KNOWN-FINDING: property={self.pid} {k['what']}")
        lines = []
        os.makedirs(os.path.join(VERIF, "replays"), exist_ok=True)
        for v in self.violations[:5]:
            body = {"property": self.pid, "kind": v["kind"], "what": v["what"], "seed": self.seed, "tier": self.tier,
                    "replay": v["replay"],
                    "how_to_replay": f"cd /verif && ./check {self.pid} --replay <this file>"}
            h = hashlib.sha1(json.dumps(body, sort_keys=True, default=str).encode()).hexdigest()[:10]
            path = os.path.join(VERIF, "replays", f"{self.pid}-{h}.json")
            with open(path, "w") as f:
                json.dump(body, f, indent=1, default=str)
            suffix = "" if v["kind"] == "counterexample" else " no-failing-input-found"
            lines.append(f"VIOLATION property={self.pid} replay={path}{suffix}")
        n_obl = len(self.obligations)
        n_ok = sum(1 for o in self.obligations if o["ok"])
        ev = {
            "property_id": self.pid, "tier": self.tier, "seed": self.seed, "level": "proof",
            "coverage": {
                "obligations": n_obl, "discharged": n_ok,
                "checker_cmd": "coqc (Coq 8.16.1 kernel; vm_compute for correspondence shards) via ./check "
                               f"{self.pid} --tier {self.tier}",
                "trusted_base": self.trusted,
                "evaluations": self.evaluations,
                "distinct_nontrivial": len(self.nontrivial),
                "rule": self.rule,
                "samples": self.samples,
                "obligation_list": self.obligations,
                "stats": self.stats,
                "known_findings_hit": [k["id"] for k in self.known_hits],
                **({"exhaustive": self.exhaustive} if self.exhaustive is not None else {}),
                **self.extra,
            },
            "assumptions": self.assumptions,
            "wall_s": round(wall, 2),
            "violations": len(self.violations),
        }
        os.makedirs(os.path.join(VERIF, "evidence"), exist_ok=True)
        with open(os.path.join(VERIF, "evidence", f"{self.pid}.json"), "w") as f:
            json.dump(ev, f, indent=1, default=str)
        for l in lines:
            print(l)
        print(f"[{self.pid}] tier={self.tier} seed={self.seed} obligations {n_ok}/{n_obl} "
              f"evaluations={self.evaluations} distinct_nontrivial={len(self.nontrivial)} "
              f"violations={len(self.violations)} known={len(self.known_hits)} wall={wall:.1f}s")
        return 1 if self.violations else 0


@contextlib.contextmanager
def quiet():
    """Silence the library's print() calls."""
    old = sys.stdout
    sys.stdout = io.StringIO()
    try:
        yield
    finally:
        sys.stdout = old


def source_digest(relpaths):
    h = hashlib.sha1()
    for r in relpaths:
        with open(os.path.join(REPO, r), "rb") as f:
            h.update(f.read())
    return h.hexdigest()[:12]


def correspond(chk, name, imports, case_type, check_fn, cases, pred_fail, describe, shard=400, jobs=8,
               match_of=None, timeout=900):
    """Generic correspondence + property-predicate step.

    cases      : list of Coq terms (strings); element i was produced from generated input i and
                 contains the implementation's observable output on it
    pred_fail  : list, element i is None if the property predicate holds on the implementation's
                 behaviour for input i, else a short string saying what failed
    describe   : i -> JSON-able description of input i (+ implementation output), used as the replay
    match_of   : optional i -> dict compared against known_findings.json
    Records one obligation `name`; reports counterexamples for predicate failures and a
    tie-broken violation when model and implementation disagree without a predicate failure."""
    t_c = time.time()
    bad = run_case_shards(chk.pid, name, imports, case_type, check_fn, cases, shard=shard, jobs=jobs,
                          timeout=timeout) if cases else []
    chk.stats[f"{name}.coq_wall_s"] = round(time.time() - t_c, 1)
    chk.oblige("correspondence", name, not bad,
               f"{len(cases)} cases evaluated by vm_compute; model/implementation disagree on {len(bad)}"
               + (f" (first: case {bad[0]})" if bad else ""))
    chk.stats[f"{name}.cases"] = len(cases)
    chk.stats[f"{name}.disagreements"] = len(bad)
    reported = 0
    for i, pf in enumerate(pred_fail):
        if pf is not None:
            m = match_of(i) if match_of else None
            if chk.violation("counterexample", f"{name}: {pf}", describe(i), m):
                reported += 1
            if reported >= 3:
                break
    if bad and reported == 0 and not any(v["kind"] == "counterexample" for v in chk.violations):
        nf = [i for i in bad if pred_fail[i] is None]
        if nf:
            i = nf[0]
            m = match_of(i) if match_of else None
            chk.violation("tie-broken",
                          f"correspondence `{name}` between the Coq model ({check_fn}) and the implementation "
                          f"no longer checks on {len(bad)} of {len(cases)} cases; the property predicate "
                          f"holds on all of them", {"correspondence": name, "first_disagreeing_case": describe(i),
                                                    "disagreeing_indices": bad[:20]}, m)
    return bad


def translator_lemma(chk, anchor, reader, render, imports):
    """Second tie: regenerate a Gallina fact from /repo's current source and re-check a lemma on it.
    reader() -> fact (raises translate.Unavailable); render(fact) -> Coq text containing the lemma(s)."""
    import translate
    try:
        fact = reader()
    except translate.Unavailable as e:
        chk.extra.setdefault("translator", {})[anchor] = f"unavailable:{e}"
        return None
    except (SyntaxError, FileNotFoundError) as e:
        chk.extra.setdefault("translator", {})[anchor] = f"unavailable:{type(e).__name__}"
        return None
    chk.extra.setdefault("translator", {})[anchor] = fact
    d = rundir(chk.pid)
    path = os.path.join(d, f"Gen_{anchor}.v")
    with open(path, "w") as f:
        f.write(imports + "\n" + render(fact) + "\n")
    rc, out = coqc_file(path, timeout=300)
    chk.oblige("translator-lemma", f"Gen_{anchor}", rc == 0,
               "regenerated from /repo source and re-proved" if rc == 0 else out[-800:])
    return fact
