"""Fail-closed translator for the conditional branch of poisson_conditional_mutual_information (property C10).

Reads the function with `ast`, takes the `else:` branch of its top-level `if Z is None:` and returns, statement by statement, the
assignment target(s) and the right-hand side as whitespace-free source text, with the branch's local names replaced by v1, v2, ... in order
of first assignment (so renaming a temporary changes nothing; re-ordering, re-indexing, a different slice, another call do).  The list is
compared inside Coq with Model/PoissonCMISource.v, the table Model/PoissonCMI.v was written from.  Anything else than straight-line
assignments followed by one `return` raises translate.Unavailable (the check then relies on the correspondence alone)."""
import ast
import copy

import translate
from translate import Unavailable

CMI = "causationentropy/core/information/conditional_mutual_information.py"


class _Rename(ast.NodeTransformer):
    def __init__(self, env):
        self.env = env

    def visit_Name(self, node):
        if node.id in self.env:
            return ast.copy_location(ast.Name(id=self.env[node.id], ctx=node.ctx), node)
        return node


def _txt(node, env):
    return "".join(ast.unparse(_Rename(env).visit(copy.deepcopy(node))).split())


def conditional_branch_facts():
    f = translate.func(translate.parse(CMI), "poisson_conditional_mutual_information")
    params = [a.arg for a in f.args.args]
    if params != ["X", "Y", "Z"] or f.args.vararg or f.args.kwarg or f.args.kwonlyargs or f.args.defaults:
        raise Unavailable("poisson_conditional_mutual_information signature")
    body = [s for s in f.body if not (isinstance(s, ast.Expr) and isinstance(getattr(s, "value", None), ast.Constant))]
    if len(body) != 1 or not isinstance(body[0], ast.If):
        raise Unavailable("poisson_conditional_mutual_information top-level shape")
    test = body[0].test
    if "".join(ast.unparse(test).split()) != "ZisNone":
        raise Unavailable("poisson_conditional_mutual_information branch test")
    stmts = body[0].orelse
    if not stmts or not isinstance(stmts[-1], ast.Return) or stmts[-1].value is None:
        raise Unavailable("conditional branch does not end in a return")
    env, facts = {}, []
    for k, s in enumerate(stmts[:-1]):
        if isinstance(s, ast.Assign) and len(s.targets) == 1:
            tgt, val = s.targets[0], s.value
        elif isinstance(s, ast.Expr) and isinstance(s.value, ast.Call):
            facts.append((f"else[{k}].call", _txt(s.value, env)))
            continue
        else:
            raise Unavailable(f"conditional branch statement {k}: {type(s).__name__}")
        rhs = _txt(val, env)
        if isinstance(tgt, ast.Name):
            if tgt.id in params:
                raise Unavailable("conditional branch rebinds a parameter")
            env.setdefault(tgt.id, f"v{len(env) + 1}")
            facts.append((f"else[{k}].{env[tgt.id]}", rhs))
        elif isinstance(tgt, ast.Subscript):
            facts.append((f"else[{k}].store:{_txt(tgt, env)}", rhs))
        else:
            raise Unavailable(f"conditional branch target {k}: {type(tgt).__name__}")
    facts.append(("else.return", _txt(stmts[-1].value, env)))
    return facts


def coq_conditional_branch_facts(facts):
    def q(s):
        return '"' + s.replace('"', "'") + '"'
    return ("From Coq Require Import String List.\nImport ListNotations.\nOpen Scope string_scope.\n"
            "From CE Require Import Model.PoissonCMISource.\n"
            "Definition src_facts : list (string * string) :=\n  [" + ";\n   ".join(f"({q(k)}, {q(v)})" for k, v in facts) + "].\n"
            "Lemma src_is_modelled : src_facts = pcmi_source.\nProof. reflexivity. Qed.\n")


def render_table(facts):
    def q(s):
        return '"' + s.replace('"', "'") + '"'
    return "Definition pcmi_source : list (string * string) :=\n  [" + ";\n   ".join(f"({q(k)},\n    {q(v)})" for k, v in facts) + "].\n"


if __name__ == "__main__":
    print(render_table(conditional_branch_facts()))
