"""Fail-closed translator for the estimator anchors (kNN, KDE): reads a function of /repo's current source with
`ast`, inlines its straight-line local assignments and returns, per return path, the returned expression written
purely in terms of the function's parameters.  Renaming or re-ordering of temporaries does not change the result;
anything the small grammar below does not cover raises translate.Unavailable (the check then relies on the
correspondence alone).  The strings are compared inside Coq with the table the model was written from
(Model/EstimatorSource.v)."""
import ast
import copy

import translate
from translate import Unavailable


MI = "causationentropy/core/information/mutual_information.py"
CMI = "causationentropy/core/information/conditional_mutual_information.py"
ENT = "causationentropy/core/information/entropy.py"
LINALG = "causationentropy/core/linalg.py"
STATS = "causationentropy/core/stats.py"


class _Subst(ast.NodeTransformer):
    def __init__(self, env):
        self.env = env

    def visit_Name(self, node):
        if isinstance(node.ctx, ast.Load) and node.id in self.env:
            return copy.deepcopy(self.env[node.id])
        return node


def _subst(expr, env):
    return _Subst(env).visit(copy.deepcopy(expr))


REGISTRY = {}      # function name -> (FunctionDef, module path) for the package modules the anchors live in


def _registry():
    if not REGISTRY:
        for rel in (MI, CMI, ENT, LINALG, STATS):
            try:
                tree = translate.parse(rel)
            except (FileNotFoundError, SyntaxError):
                continue
            for n in tree.body:
                if isinstance(n, ast.FunctionDef):
                    REGISTRY.setdefault(n.name, (n, rel))
    return REGISTRY


def _bind(fdef, call):
    """parameter name -> argument expression of an internal call (None if it cannot be read)"""
    a = fdef.args
    if a.vararg or a.kwarg or a.posonlyargs or a.kwonlyargs:
        return None
    if any(isinstance(x, ast.Starred) for x in call.args) or any(k.arg is None for k in call.keywords):
        return None
    names = [x.arg for x in a.args]
    if len(call.args) > len(names):
        return None
    b = dict(zip(names, call.args))
    for k in call.keywords:
        if k.arg not in names or k.arg in b:
            return None
        b[k.arg] = k.value
    defaults = dict(zip(names[len(names) - len(a.defaults):], a.defaults))
    for nme in names:
        if nme not in b:
            if nme not in defaults:
                return None
            b[nme] = defaults[nme]
    return [(nme, b[nme]) for nme in names]


class _Canon(ast.NodeTransformer):
    """behaviour-preserving spellings are given one form:  a + -b -> a - b;  E.sum(..)/E.mean(..) -> np.sum(E, ..)/np.mean(E, ..);
    calls of package functions -> all arguments as keywords in signature order;  private straight-line helpers are inlined"""

    def __init__(self, anchor, depth=0):
        self.anchor, self.depth = anchor, depth

    def visit_BinOp(self, node):
        self.generic_visit(node)
        if isinstance(node.op, ast.Add) and isinstance(node.right, ast.UnaryOp) and isinstance(node.right.op, ast.USub):
            return ast.BinOp(left=node.left, op=ast.Sub(), right=node.right.operand)
        return node

    def visit_Call(self, node):
        self.generic_visit(node)
        f = node.func
        if isinstance(f, ast.Attribute) and f.attr in ("sum", "mean") and not (isinstance(f.value, ast.Name) and f.value.id in ("np", "numpy")):
            return ast.Call(func=ast.Attribute(value=ast.Name(id="np", ctx=ast.Load()), attr=f.attr, ctx=ast.Load()),
                            args=[f.value] + node.args, keywords=node.keywords)
        if isinstance(f, ast.Name) and f.id in _registry():
            fdef, rel = _registry()[f.id]
            b = _bind(fdef, node)
            if b is None:
                return node
            if f.id.startswith("_") and self.depth < 3:          # private helper: inline its single straight-line return
                out = []
                LOCALS[f.id] = {t.id for n in ast.walk(fdef) if isinstance(n, ast.Assign) for t in n.targets if isinstance(t, ast.Name)}
                try:
                    ok = _block(fdef.body, {k: v for k, v in b}, [], out, f.id, raw=True)
                except Unavailable:
                    ok = False
                if ok and len(out) == 1 and out[0][0] == "always":
                    return _Canon(self.anchor, self.depth + 1).visit(out[0][1])
                return node
            return ast.Call(func=f, args=[], keywords=[ast.keyword(arg=k, value=v) for k, v in b])
        return node


def _block(stmts, env, cond, out, anchor, raw=False):
    """returns True when every path through `stmts` returns"""
    for i, st in enumerate(stmts):
        if isinstance(st, ast.Expr) and isinstance(st.value, ast.Constant) and isinstance(st.value.value, str):
            continue                                   # docstring
        if isinstance(st, ast.Assign):
            if len(st.targets) != 1 or not isinstance(st.targets[0], ast.Name):
                raise Unavailable(f"{anchor}: assignment target {ast.unparse(st.targets[0])}")
            env[st.targets[0].id] = _subst(st.value, env)
            continue
        if isinstance(st, ast.Assert):
            out.append(("assert", ast.unparse(_subst(st.test, env)).replace(" ", "")))
            continue
        if isinstance(st, ast.Return):
            if st.value is None:
                raise Unavailable(f"{anchor}: bare return")
            val = _subst(st.value, env)
            loose = sorted({n.id for n in ast.walk(val) if isinstance(n, ast.Name)} & (LOCALS[anchor] - set(env)))
            if loose:
                raise Unavailable(f"{anchor}: returned expression uses unresolved locals {loose}")
            if raw:
                out.append((" and ".join(cond) or "always", val))
            else:
                val = ast.fix_missing_locations(_Canon(anchor).visit(val))
                out.append((" and ".join(cond) or "always", ast.unparse(val).replace(" ", "")))
            return True
        if isinstance(st, ast.If):
            test = ast.unparse(_subst(st.test, env)).replace(" ", "")
            e1, e2 = dict(env), dict(env)
            r1 = _block(st.body, e1, cond + [test], out, anchor, raw)
            r2 = _block(st.orelse, e2, cond + [f"not({test})"], out, anchor, raw) if st.orelse else False
            if r1 and r2:
                return True
            if r1:
                env.clear(); env.update(e2); cond = cond + [f"not({test})"]
                continue
            if r2:
                env.clear(); env.update(e1); cond = cond + [test]
                continue
            for k in set(e1) | set(e2):
                a, b = e1.get(k), e2.get(k)
                if a is None or b is None:          # branch-local temporary: unusable afterwards (checked at the return)
                    env.pop(k, None)
                    continue
                if ast.dump(a) == ast.dump(b):
                    env[k] = a
                else:
                    env[k] = ast.IfExp(test=_subst(st.test, env), body=a, orelse=b)
            continue
        raise Unavailable(f"{anchor}: statement {type(st).__name__}")
    return False


LOCALS = {}


def inlined_returns(rel, name):
    REGISTRY.clear()
    f = translate.func(translate.parse(rel), name)
    LOCALS[name] = {t.id for n in ast.walk(f) if isinstance(n, ast.Assign) for t in n.targets if isinstance(t, ast.Name)}
    params = [a.arg for a in f.args.args]
    defaults = [ast.unparse(d) for d in f.args.defaults]
    out = []
    if not _block(f.body, {}, [], out, name):
        raise Unavailable(f"{name}: a path does not return")
    sig = ",".join(params[:len(params) - len(defaults)] + [f"{p}={d}" for p, d in zip(params[len(params) - len(defaults):], defaults)])
    return [(f"{name}.signature", sig)] + [(f"{name}.assert" if c == "assert" else f"{name}.return[{c}]", e) for c, e in out]




def estimator_facts():
    facts = []
    for rel, name in [(MI, "knn_mutual_information"), (CMI, "knn_conditional_mutual_information"),
                      (ENT, "kde_entropy"), (MI, "kde_mutual_information"), (CMI, "kde_conditional_mutual_information")]:
        facts += inlined_returns(rel, name)
    return facts


def coq_facts(facts, module="Model.EstimatorSource", table="modelled_source"):
    def q(s):
        return '"' + s.replace('"', "'") + '"'
    return ("From Coq Require Import String List.\nImport ListNotations.\nOpen Scope string_scope.\n"
            f"From CE Require Import {module}.\n"
            "Definition src_facts : list (string * string) :=\n  [" + ";\n   ".join(f"({q(k)}, {q(v)})" for k, v in facts) + "].\n"
            f"Lemma src_is_modelled : src_facts = {table}.\nProof. reflexivity. Qed.\n")


def coq_estimator_facts(facts):
    return coq_facts(facts)


def stats_facts():
    return inlined_returns(STATS, "Compute_TPR_FPR") + inlined_returns(STATS, "auc")


def coq_stats_facts(facts):
    return coq_facts(facts, "Model.SourceTables", "stats_source")


def poisson_joint_facts():
    return inlined_returns(ENT, "poisson_joint_entropy")


def coq_poisson_joint_facts(facts):
    return coq_facts(facts, "Model.SourceTables", "poisson_joint_source")


def render_table(name, facts):
    def q(s):
        return '"' + s.replace('"', "'") + '"'
    return f"Definition {name} : list (string * string) :=\n  [" + ";\n   ".join(f"({q(k)},\n    {q(v)})" for k, v in facts) + "].\n"


if __name__ == "__main__":
    for k, v in estimator_facts() + stats_facts() + poisson_joint_facts():
        print(k, "\n   ", v)
