"""Fail-closed translator for C20: reads the layout / normalisation anchors of
causationentropy/core/plotting.py with `ast` and emits Gallina terms that are then proved equal to the
hand-written model (Model/Layout.v, Model/LayoutPos.v).  Anything outside the small grammar raises
translate.Unavailable, which degrades the check to the correspondence tie alone."""
import ast

from translate import Unavailable, func, is_name, one, parse, src

FILE = "causationentropy/core/plotting.py"


def _is_attr(n, mod, name):
    return isinstance(n, ast.Attribute) and n.attr == name and is_name(n.value, mod)


def _real(n, env):
    """arithmetic over ints, math.pi, math.cos/sin and the names in env  ->  term of Model/Itv.v's expr"""
    if isinstance(n, ast.Constant) and isinstance(n.value, int) and not isinstance(n.value, bool):
        return f"(EZ {n.value})" if n.value >= 0 else f"(EZ ({n.value}))"
    if isinstance(n, ast.Name) and n.id in env:
        return env[n.id]
    if _is_attr(n, "math", "pi"):
        return "EPi"
    if isinstance(n, ast.BinOp) and type(n.op) in (ast.Add, ast.Sub, ast.Mult, ast.Div):
        c = {ast.Add: "EAdd", ast.Sub: "ESub", ast.Mult: "EMul", ast.Div: "EDiv"}[type(n.op)]
        return f"({c} {_real(n.left, env)} {_real(n.right, env)})"
    if isinstance(n, ast.Call) and len(n.args) == 1 and not n.keywords and \
            (_is_attr(n.func, "math", "cos") or _is_attr(n.func, "math", "sin")):
        return f"({'ECos' if n.func.attr == 'cos' else 'ESin'} {_real(n.args[0], env)})"
    raise Unavailable(f"expression `{src(n)}` is outside the real-arithmetic grammar")


def layout_facts():
    tree = parse(FILE)
    # ---- _circular_positions ------------------------------------------------------------------
    f = func(tree, "_circular_positions")
    if [a.arg for a in f.args.args] != ["order", "radius"]:
        raise Unavailable("_circular_positions signature")
    body = [s for s in f.body if not (isinstance(s, ast.Expr) and isinstance(s.value, ast.Constant))]
    if len(body) != 4 or src(body[0]) != "N = len(order)" or src(body[1]) != "pos = {}" or src(body[3]) != "return pos":
        raise Unavailable("_circular_positions statements")
    loop = body[2]
    if not (isinstance(loop, ast.For) and src(loop.target) == "(i, n)" and src(loop.iter) == "enumerate(order)"
            and len(loop.body) == 2 and not loop.orelse):
        raise Unavailable("_circular_positions loop")
    th, asg = loop.body
    if not (isinstance(th, ast.Assign) and len(th.targets) == 1 and is_name(th.targets[0], "theta")):
        raise Unavailable("theta assignment")
    env = {"i": "(EZ (Z.of_nat i))", "N": "(EZ (Z.of_nat N))"}
    theta = _real(th.value, env)
    if not (isinstance(asg, ast.Assign) and src(asg.targets[0]) == "pos[n]" and isinstance(asg.value, ast.Call)
            and _is_attr(asg.value.func, "np", "array") and len(asg.value.args) == 1
            and isinstance(asg.value.args[0], ast.List) and len(asg.value.args[0].elts) == 2):
        raise Unavailable("pos[n] assignment")
    env2 = {"theta": "(theta_src N i)", "radius": "r"}
    x, y = (_real(e, env2) for e in asg.value.args[0].elts)
    # ---- plot_causal_network: clamp, guard, palette index ---------------------------------------
    p = func(tree, "plot_causal_network")
    mc = one((s for s in ast.walk(p) if isinstance(s, ast.Assign) and is_name(s.targets[0], "max_cmi")), "max_cmi")
    v = mc.value
    if not (isinstance(v, ast.IfExp) and isinstance(v.test, ast.Compare) and len(v.test.ops) == 1
            and isinstance(v.test.ops[0], ast.Gt) and src(v.test.left) == "cmis.max()" and src(v.test.comparators[0]) == "0"
            and src(v.body) == "cmis.max()" and isinstance(v.orelse, ast.Constant) and v.orelse.value == 1.0):
        raise Unavailable(f"max_cmi guard `{src(v)}`")
    nc = one((s for s in ast.walk(p) if isinstance(s, ast.Assign) and is_name(s.targets[0], "norm_cmis")), "norm_cmis")
    if src(nc.value) != "cmis / max_cmi":
        raise Unavailable(f"norm_cmis `{src(nc.value)}`")
    cm = one((s for s in ast.walk(p) if isinstance(s, ast.Assign) and is_name(s.targets[0], "cmi")), "cmi clamp")
    if src(cm.value) != "max(0.0, float(estimated_data.get('cmi', 0.0)))":
        raise Unavailable(f"cmi clamp `{src(cm.value)}`")
    wd = one((s for s in ast.walk(p) if isinstance(s, ast.Assign) and is_name(s.targets[0], "widths")), "widths")
    if src(wd.value).replace(" ", "") != "edge_width_range[0]+(edge_width_range[1]-edge_width_range[0])*norm_cmis":
        raise Unavailable(f"widths `{src(wd.value)}`")
    idx = []
    for loop in (s for s in ast.walk(p) if isinstance(s, ast.For)):
        if src(loop.iter) != "enumerate(sorted_lags)":
            continue
        if src(loop.target) != "(i, lag)":
            raise Unavailable("lag loop target")
        for s in ast.walk(loop):
            if isinstance(s, ast.Subscript) and is_name(s.value, "colormaps"):
                e = s.slice
                if isinstance(e, ast.BinOp) and isinstance(e.op, ast.Mod) and is_name(e.left, "i") and src(e.right) == "len(colormaps)":
                    idx.append("(Nat.modulo i len)")
                elif is_name(e, "i"):
                    idx.append("i")
                else:
                    raise Unavailable(f"palette index `{src(e)}`")
    if len(idx) != 2:
        raise Unavailable(f"expected the palette to be indexed in the edge loop and in the legend loop, found {len(idx)} sites")
    # ---- optimize_circular_order: seeding, the two moves, who assigns `best` ------------------
    o = func(tree, "optimize_circular_order")
    obody = [s for s in o.body if not (isinstance(s, ast.Expr) and isinstance(s.value, ast.Constant))]
    if src(obody[0]) != "random.seed(rng)":
        raise Unavailable(f"first statement of optimize_circular_order is `{src(obody[0])[:40]}`")
    if src(obody[-1]) != "return best":
        raise Unavailable("optimize_circular_order return")
    moves, best_rhs, rev_min = [], [], None
    for s in ast.walk(o):
        if isinstance(s, ast.Assign):
            t = s.targets[0]
            ts = src(t).replace(" ", "")
            if ts.startswith("cur[") or ts.startswith("(cur["):
                if ts == "(cur[i],cur[j])" and src(s.value).replace(" ", "") == "(cur[j],cur[i])":
                    moves.append("Swap i j")
                elif ts == "cur[i:j+1]" and src(s.value).replace(" ", "") == "reversed(cur[i:j+1])":
                    moves.append("Reverse i j")
                else:
                    raise Unavailable(f"unrecognised mutation of cur `{src(s)}`")
            elif ts == "cur":
                if src(s.value) != "best[:]":
                    raise Unavailable(f"cur = `{src(s.value)}`")
            elif ts == "best":
                best_rhs.append(src(s.value))
            elif ts == "(best,best_score)":
                best_rhs.append(src(s.value).replace(" ", ""))
            elif ts == "(i,j)":
                v = src(s.value).replace(" ", "")
                if v not in ("sorted(random.sample(range(N),2))", "random.sample(range(N),2)"):
                    raise Unavailable(f"index proposal `{v}`")
        if isinstance(s, ast.If) and "block_moves" in src(s.test):
            t = src(s.test).replace(" ", "").replace("(", "").replace(")", "")
            if t != "block_movesandN>=6andrandom.random<0.5":
                raise Unavailable(f"reversal guard `{t}`")
            rev_min = 6
    if sorted(moves) != ["Reverse i j", "Swap i j"] or rev_min is None:
        raise Unavailable(f"moves {moves}")
    if sorted(best_rhs) != sorted(["seed_order[:]", "(cur,score)", "(cur,score)"]):
        raise Unavailable(f"assignments to best {best_rhs}")
    return {"theta": theta, "x": x, "y": y, "palette_index": idx, "moves": sorted(moves), "rev_min": rev_min,
            "best_assigned_from": sorted(best_rhs)}


def coq_layout_facts(f):
    mv = "; ".join(f["moves"])
    return f"""From Coq Require Import List Arith ZArith QArith Bool.
From CE Require Import Model.Itv Model.Layout Model.LayoutPos.
Import ListNotations.
(* regenerated from causationentropy/core/plotting.py *)
Definition theta_src (N i : nat) : expr := {f['theta']}.
Definition x_src (r : expr) (N i : nat) : expr := {f['x']}.
Definition y_src (r : expr) (N i : nat) : expr := {f['y']}.
Lemma src_positions_are_the_model : forall r N i,
  theta_src N i = theta N i /\\ x_src r N i = pos_x r N i /\\ y_src r N i = pos_y r N i.
Proof. intros. repeat split; reflexivity. Qed.

Definition palette_index_edges (i len : nat) : nat := {f['palette_index'][0]}.
Definition palette_index_legend (i len : nat) : nat := {f['palette_index'][1]}.
Lemma src_palette_index_is_the_model : forall i len,
  palette_index_edges i len = cmap_index i len /\\ palette_index_legend i len = cmap_index i len.
Proof. intros. split; reflexivity. Qed.

(* max_cmi = cmis.max() if cmis.max() > 0 else 1.0 *)
Definition denom_src (mx : Q) : Q := if negb (Qle_bool mx 0) then mx else 1%Q.
Lemma src_guard_is_the_model : forall mx, denom_src mx = denom mx.
Proof. intros. unfold denom_src, denom. destruct (Qle_bool mx 0); reflexivity. Qed.

(* the only statements that change `cur`, and the minimum length for a block reversal *)
Definition moves_src (i j : nat) : list move := [{mv}].
Definition rev_min_src : nat := {f['rev_min']}.
Lemma src_moves_are_the_model : (forall i j, moves_src i j = [Reverse i j; Swap i j]) /\\ rev_min_src = rev_min_nodes.
Proof. split; reflexivity. Qed.
"""
