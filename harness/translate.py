"""Fail-closed translator: reads selected anchors of /repo's current source with `ast`
and emits Gallina facts (coq/gen is not used; files go to build/run/<pid>/).

Every reader either returns the fact it recognised or raises Unavailable(anchor); it
never guesses.  A harmless refactor the grammar cannot read therefore degrades the
check to the correspondence tie alone (recorded in the evidence), while a change it
CAN read and that contradicts the model breaks the regenerated lemma.
"""
import ast
import os

from lib import REPO


class Unavailable(Exception):
    pass


def parse(rel):
    with open(os.path.join(REPO, rel)) as f:
        return ast.parse(f.read())


def func(tree, name):
    for n in ast.walk(tree):
        if isinstance(n, ast.FunctionDef) and n.name == name:
            return n
    raise Unavailable(f"function {name}")


def src(n):
    return ast.unparse(n)


CMP = {ast.Gt: "Gt", ast.GtE: "Ge", ast.Lt: "Lt", ast.LtE: "Le"}


def one(xs, anchor):
    xs = list(xs)
    if len(xs) != 1:
        raise Unavailable(f"{anchor}: expected exactly one match, found {len(xs)}")
    return xs[0]


def is_name(n, s):
    return isinstance(n, ast.Name) and n.id == s


# ---------------------------------------------------------------------------
# discovery.shuffle_test  ->  ShuffleTest.rule
# ---------------------------------------------------------------------------
def shuffle_rule():
    f = func(parse("causationentropy/core/discovery.py"), "shuffle_test")
    args = [a.arg for a in f.args.args]
    if args[:4] != ["X", "Y", "Z", "observed_cmi"] or "alpha" not in args:
        raise Unavailable("shuffle_test signature")
    # threshold = np.percentile(null_cmi, 100 * (1 - alpha))
    thr = one((n for n in ast.walk(f) if isinstance(n, ast.Assign) and len(n.targets) == 1
               and is_name(n.targets[0], "threshold")), "shuffle_test.threshold")
    c = thr.value
    if not (isinstance(c, ast.Call) and src(c.func) == "np.percentile" and len(c.args) == 2 and not c.keywords
            and is_name(c.args[0], "null_cmi")):
        raise Unavailable("shuffle_test.threshold: not np.percentile(null_cmi, q)")
    q = src(c.args[1]).replace(" ", "")
    if q in ("100*(1-alpha)", "(1-alpha)*100", "100.0*(1-alpha)", "100*(1.0-alpha)"):
        pct = True
    elif q in ("100*alpha", "alpha*100"):
        pct = False
    else:
        raise Unavailable(f"shuffle_test.threshold percentile argument `{q}`")
    # p_value = np.mean(null_cmi >= observed_cmi)
    pv = one((n for n in ast.walk(f) if isinstance(n, ast.Assign) and len(n.targets) == 1
              and is_name(n.targets[0], "p_value")), "shuffle_test.p_value")
    c = pv.value
    if not (isinstance(c, ast.Call) and src(c.func) == "np.mean" and len(c.args) == 1 and isinstance(c.args[0], ast.Compare)
            and len(c.args[0].ops) == 1):
        raise Unavailable("shuffle_test.p_value: not np.mean(a <op> b)")
    cmpn = c.args[0]
    l, r, op = cmpn.left, cmpn.comparators[0], type(cmpn.ops[0])
    if op not in CMP:
        raise Unavailable("shuffle_test.p_value comparator")
    if is_name(l, "null_cmi") and is_name(r, "observed_cmi"):
        cmp_p = CMP[op]                      # null <op> observed
    elif is_name(l, "observed_cmi") and is_name(r, "null_cmi"):
        cmp_p = {"Gt": "Lt", "Ge": "Le", "Lt": "Gt", "Le": "Ge"}[CMP[op]]
    else:
        raise Unavailable("shuffle_test.p_value operands")
    # return {... "Pass": observed_cmi > threshold ...}
    ret = one((n for n in ast.walk(f) if isinstance(n, ast.Return)), "shuffle_test.return")
    if not isinstance(ret.value, ast.Dict):
        raise Unavailable("shuffle_test.return: not a dict literal")
    d = {k.value: v for k, v in zip(ret.value.keys, ret.value.values) if isinstance(k, ast.Constant)}
    if set(d) != {"Threshold", "Value", "Pass", "P_value"}:
        raise Unavailable("shuffle_test.return keys")
    p = d["Pass"]
    if not (isinstance(p, ast.Compare) and len(p.ops) == 1 and type(p.ops[0]) in CMP):
        raise Unavailable("shuffle_test.Pass: not a single comparison")
    if is_name(p.left, "observed_cmi") and is_name(p.comparators[0], "threshold"):
        cmp_pass = CMP[type(p.ops[0])]
    elif is_name(p.left, "threshold") and is_name(p.comparators[0], "observed_cmi"):
        cmp_pass = {"Gt": "Lt", "Ge": "Le", "Lt": "Gt", "Le": "Ge"}[CMP[type(p.ops[0])]]
    else:
        raise Unavailable("shuffle_test.Pass operands")
    if not (is_name(d["Value"], "observed_cmi") and is_name(d["Threshold"], "threshold") and is_name(d["P_value"], "p_value")):
        raise Unavailable("shuffle_test.return values")
    # X_perm = X[rng.permutation(len(X)), :]  and the estimator call (X_perm, Y, Z, ...)
    perm = one((n for n in ast.walk(f) if isinstance(n, ast.Assign) and len(n.targets) == 1
                and is_name(n.targets[0], "X_perm")), "shuffle_test.X_perm")
    ps = src(perm.value).replace(" ", "")
    if ps != "X[rng.permutation(len(X)),:]":
        raise Unavailable(f"shuffle_test.X_perm expression `{ps}`")
    call = one((n for n in ast.walk(f) if isinstance(n, ast.Call) and src(n.func) == "conditional_mutual_information"),
               "shuffle_test.estimator call")
    a3 = [src(a) for a in call.args[:3]]
    if a3 == ["X_perm", "Y", "Z"]:
        which = 0
    else:
        raise Unavailable(f"shuffle_test.estimator positional arguments {a3}")
    loop = one((n for n in ast.walk(f) if isinstance(n, ast.For)), "shuffle_test.loop")
    if src(loop.iter).replace(" ", "") != "range(n_shuffles)":
        raise Unavailable("shuffle_test.loop range")
    return {"cmp_pass": cmp_pass, "cmp_p": cmp_p, "permuted_arg": which, "pct_is_one_minus_alpha": pct}


def coq_rule(r):
    return ("{| cmp_pass := %s; cmp_p := %s; permuted_arg := %d; pct_is_one_minus_alpha := %s |}"
            % (r["cmp_pass"], r["cmp_p"], r["permuted_arg"], "true" if r["pct_is_one_minus_alpha"] else "false"))


# ---------------------------------------------------------------------------
# discovery: selection functions  ->  Selection.modelled_facts
# ---------------------------------------------------------------------------
def _stmts(f):
    return [src(n).replace(" ", "") for n in ast.walk(f) if isinstance(n, ast.stmt)]


def _call(f, name, anchor):
    return one((n for n in ast.walk(f) if isinstance(n, ast.Call) and src(n.func) == name), anchor)


def _arg(call, fdef_args, name):
    """value expression passed for parameter `name` of a callee whose positional order is fdef_args"""
    for kw in call.keywords:
        if kw.arg == name:
            return src(kw.value)
    i = fdef_args.index(name)
    if i < len(call.args):
        return src(call.args[i])
    raise Unavailable(f"argument {name} not passed")


def selection_facts():
    tree = parse("causationentropy/core/discovery.py")
    facts = []
    sf, af, bw = func(tree, "standard_forward"), func(tree, "alternative_forward"), func(tree, "backward")
    st_args = [a.arg for a in func(tree, "shuffle_test").args.args]
    # --- standard_forward
    s = _stmts(sf)
    if "k_best=int(ent_values.argmax())" in s and "j_best=candidates[k_best]" in s:
        facts.append(("std.pick", "argmax"))
    elif "k_best=int(ent_values.argmin())" in s:
        facts.append(("std.pick", "argmin"))
    else:
        raise Unavailable("standard_forward pick")
    rej = [n for n in ast.walk(sf) if isinstance(n, ast.If) and src(n.test).replace(" ", "") == "notpassed"]
    body = [src(b).replace(" ", "") for b in one(rej, "standard_forward reject").body]
    if body == ["candidates.pop(k_best)", "continue"]:
        facts.append(("std.on_reject", "discard_and_continue"))
    elif body == ["break"]:
        facts.append(("std.on_reject", "stop"))
    else:
        raise Unavailable(f"standard_forward reject body {body}")
    if ("Z=np.hstack([Z,X_best])ifZisnotNoneelseX_best" in s and "S.append(j_best)" in s
            and "Z=Z_init.copy()ifZ_initisnotNoneelseNone" in s and "X_best=X_full[:,[j_best]]" in s
            and s.count("candidates.pop(k_best)") == 2):
        facts.append(("std.cond", "init_then_accepted"))
    else:
        raise Unavailable("standard_forward conditioning update")
    c = _call(sf, "shuffle_test", "standard_forward test")
    facts.append(("std.test_level", _arg(c, st_args, "alpha")))
    if [src(a) for a in c.args[:4]] == ["X_best", "Y", "Z", "mi_best"] and "mi_best=ent_values[k_best]" in s:
        facts.append(("std.tested_value", "value_of_best"))
    else:
        raise Unavailable("standard_forward tested value")
    # --- alternative_forward
    s = _stmts(af)
    if "j_best=remaining[ent_values.argmax()]" in s and "remaining=np.setdiff1d(candidates,S)" in s:
        facts.append(("alt.pick", "argmax"))
    elif "j_best=remaining[ent_values.argmin()]" in s:
        facts.append(("alt.pick", "argmin"))
    else:
        raise Unavailable("alternative_forward pick")
    rej = [n for n in ast.walk(af) if isinstance(n, ast.If) and src(n.test).replace(" ", "") == "notpassed"]
    body = [src(b).replace(" ", "") for b in one(rej, "alternative_forward reject").body]
    facts.append(("alt.on_reject", {"break": "stop", "continue": "discard_and_continue"}.get(body[0] if len(body) == 1 else "", None)))
    if facts[-1][1] is None:
        raise Unavailable(f"alternative_forward reject body {body}")
    if "Z=X_full[:,S]iflen(S)elseNone" in s and "S.append(j_best)" in s and "Z=None" in s:
        facts.append(("alt.cond", "accepted"))
    else:
        raise Unavailable("alternative_forward conditioning update")
    c = _call(af, "shuffle_test", "alternative_forward test")
    facts.append(("alt.test_level", _arg(c, st_args, "alpha")))
    if [src(a) for a in c.args[:4]] == ["X_best", "Y", "Z", "mi_best"] and "mi_best=ent_values.max()" in s:
        facts.append(("alt.tested_value", "value_of_best"))
    else:
        raise Unavailable("alternative_forward tested value")
    # --- backward
    s = _stmts(bw)
    loop = one((n for n in ast.walk(bw) if isinstance(n, ast.For)), "backward loop")
    facts.append(("bwd.visit", src(loop.iter).replace(" ", "")))
    if "Z=X_full[:,[kforkinSifk!=j]]iflen(S)>1elseNone" in s and "S=copy.deepcopy(S_init)" in s:
        facts.append(("bwd.cond", "survivors_minus_j"))
    elif "Z=X_full[:,[kforkinS_initifk!=j]]iflen(S_init)>1elseNone" in s:
        facts.append(("bwd.cond", "forward_set_minus_j"))
    else:
        raise Unavailable("backward conditioning set")
    rej = [n for n in ast.walk(bw) if isinstance(n, ast.If) and src(n.test).replace(" ", "") == "notpassed"]
    body = [src(b).replace(" ", "") for b in one(rej, "backward reject").body]
    if body == ["S.remove(j)"]:
        facts.append(("bwd.on_reject", "remove_j"))
    else:
        raise Unavailable(f"backward reject body {body}")
    c = _call(bw, "shuffle_test", "backward test")
    facts.append(("bwd.test_level", _arg(c, st_args, "alpha")))
    # --- drivers
    for nm, drv, fw in (("std_driver", "standard_optimal_causation_entropy", "standard_forward"),
                        ("alt_driver", "alternative_optimal_causation_entropy", "alternative_forward")):
        d = func(tree, drv)
        fa = [a.arg for a in func(tree, fw).args.args]
        ba = [a.arg for a in bw.args.args]
        facts.append((nm + ".forward_level", _arg(_call(d, fw, drv), fa, "alpha")))
        facts.append((nm + ".backward_level", _arg(_call(d, "backward", drv), ba, "alpha")))
    dn = func(tree, "discover_network")
    for nm, drv in (("discover.std_levels", "standard_optimal_causation_entropy"),
                    ("discover.alt_levels", "alternative_optimal_causation_entropy")):
        da = [a.arg for a in func(tree, drv).args.args]
        c = _call(dn, drv, "discover_network " + drv)
        facts.append((nm, _arg(c, da, "alpha1") + "," + _arg(c, da, "alpha2")))
    return facts


def coq_selection_facts(facts):
    return ("From CE Require Import Model.Selection.\nDefinition src_facts : list (string * string) :=\n  [" +
            ";\n   ".join('("%s", "%s")' % (k, v.replace('"', "'")) for k, v in facts) + "].")


# ---------------------------------------------------------------------------
# discovery.discover_network: lag construction and edge emission  ->  Lagged model
# ---------------------------------------------------------------------------
def affine(n, env):
    """Python int expression over named variables -> Coq Z expression text (fail-closed)."""
    if isinstance(n, ast.Name) and n.id in env:
        return env[n.id]
    if isinstance(n, ast.Constant) and isinstance(n.value, int) and not isinstance(n.value, bool):
        return f"({n.value})"
    if isinstance(n, ast.BinOp) and type(n.op) in (ast.Add, ast.Sub, ast.Mult):
        op = {ast.Add: "+", ast.Sub: "-", ast.Mult: "*"}[type(n.op)]
        return f"({affine(n.left, env)} {op} {affine(n.right, env)})"
    raise Unavailable(f"non-affine expression `{src(n)}`")


def discover_facts():
    tree = parse("causationentropy/core/discovery.py")
    dn = func(tree, "discover_network")
    env = {"max_lag": "L", "tau": "tau", "T": "T"}
    out = {}
    # col = series[max_lag - tau : T - tau, j] inside  for j in range(n): for tau in range(1, max_lag + 1)
    col = one((n for n in ast.walk(dn) if isinstance(n, ast.Assign) and is_name(n.targets[0], "col")), "col assignment")
    sub = col.value
    if not (isinstance(sub, ast.Subscript) and is_name(sub.value, "series") and isinstance(sub.slice, ast.Tuple)
            and len(sub.slice.elts) == 2 and isinstance(sub.slice.elts[0], ast.Slice) and sub.slice.elts[0].step is None):
        raise Unavailable("col slice shape")
    sl, cj = sub.slice.elts
    out["x_lo"], out["x_hi"] = affine(sl.lower, env), affine(sl.upper, env)
    out["x_col_var"] = src(cj)
    loops = [n for n in ast.walk(dn) if isinstance(n, ast.For)]
    outer = one((l for l in loops if is_name(l.target, "j")), "loop j")
    inner = one((l for l in outer.body if isinstance(l, ast.For) and is_name(l.target, "tau")), "loop tau inside loop j")
    if src(outer.iter).replace(" ", "") != "range(n)":
        raise Unavailable("loop j range")
    r = inner.iter
    if not (isinstance(r, ast.Call) and is_name(r.func, "range") and len(r.args) == 2):
        raise Unavailable("loop tau range")
    out["tau_from"], out["tau_to_excl"] = affine(r.args[0], env), affine(r.args[1], env)
    body = [src(b).replace(" ", "") for b in inner.body]
    if "X_lagged.append(col)" not in body:
        raise Unavailable("X_lagged.append(col)")
    lab = [b for b in body if b.startswith("feature_names.append(")]
    out["label"] = one(lab, "feature_names.append")[len("feature_names.append("):-1]
    # Y_all = series[max_lag:, :]
    ya = one((n for n in ast.walk(dn) if isinstance(n, ast.Assign) and is_name(n.targets[0], "Y_all")), "Y_all")
    ys = ya.value
    if not (isinstance(ys, ast.Subscript) and is_name(ys.value, "series") and isinstance(ys.slice, ast.Tuple)
            and isinstance(ys.slice.elts[0], ast.Slice) and ys.slice.elts[0].upper is None and src(ys.slice.elts[1]) == ":"):
        raise Unavailable("Y_all slice")
    out["y_lo"] = affine(ys.slice.elts[0].lower, env)
    s = _stmts(dn)
    if "Y=Y_all[:,[i]]" not in s or "X_lagged=np.column_stack(X_lagged)" not in s or "T,n=series.shape" not in s:
        raise Unavailable("Y / X_lagged / shape statements")
    # Z_init.append(series[max_lag - tau : T - tau, i])
    zi = one((n for n in ast.walk(dn) if isinstance(n, ast.Call) and src(n.func) == "Z_init.append"), "Z_init.append")
    zsub = zi.args[0]
    if not (isinstance(zsub, ast.Subscript) and is_name(zsub.value, "series")):
        raise Unavailable("Z_init element")
    zsl, zc = zsub.slice.elts
    out["z_lo"], out["z_hi"], out["z_col_var"] = affine(zsl.lower, env), affine(zsl.upper, env), src(zc)
    # edge emission
    need = {"src_var,src_lag=feature_names[s]": "label_lookup", "X_predictor=X_lagged[:,[s]]": "x_predictor",
            "Y_target=Y": "y_target", "other_selected=[idxforidxinSifidx!=s]": "others",
            "Z_cond=X_lagged[:,other_selected]ifother_selectedelseNone": "z_cond"}
    for k, v in need.items():
        if k not in s:
            raise Unavailable(f"edge emission statement `{k}`")
    ec = one((n for n in ast.walk(dn) if isinstance(n, ast.Call) and src(n.func) == "conditional_mutual_information"), "edge cmi call")
    out["edge_cmi_args"] = ",".join(src(a) for a in ec.args[:3])
    et = one((n for n in ast.walk(dn) if isinstance(n, ast.Call) and src(n.func) == "shuffle_test"), "edge test call")
    st_args = [a.arg for a in func(tree, "shuffle_test").args.args]
    out["edge_test_args"] = ",".join(_arg(et, st_args, a) for a in ("X", "Y", "Z", "observed_cmi", "rng", "n_shuffles"))
    ae = one((n for n in ast.walk(dn) if isinstance(n, ast.Call) and src(n.func) == "G.add_edge"), "add_edge")
    kw = {k.arg: src(k.value).replace('"', "'") for k in ae.keywords}
    out["add_edge"] = ",".join([src(a) for a in ae.args] + [f"{k}={kw[k]}" for k in sorted(kw)])
    return out


def coq_discover_facts(f):
    return f"""From Coq Require Import ZArith Lia String List.
Import ListNotations.
Open Scope Z_scope.
Definition src_x_lo (L tau T : Z) : Z := {f['x_lo']}.
Definition src_x_hi (L tau T : Z) : Z := {f['x_hi']}.
Definition src_z_lo (L tau T : Z) : Z := {f['z_lo']}.
Definition src_z_hi (L tau T : Z) : Z := {f['z_hi']}.
Definition src_y_lo (L tau T : Z) : Z := {f['y_lo']}.
Definition src_tau_from (L tau T : Z) : Z := {f['tau_from']}.
Definition src_tau_to_excl (L tau T : Z) : Z := {f['tau_to_excl']}.
(* the slice bounds read from the source equal the model's lagged_col / y_col / own_lags bounds *)
Lemma src_slices_are_modelled : forall L tau T, 1 <= tau <= L -> L < T ->
  src_x_lo L tau T = L - tau /\\ src_x_hi L tau T = T - tau /\\
  src_z_lo L tau T = L - tau /\\ src_z_hi L tau T = T - tau /\\ src_y_lo L tau T = L /\\
  src_tau_from L tau T = 1 /\\ src_tau_to_excl L tau T = L + 1.
Proof. intros; unfold src_x_lo, src_x_hi, src_z_lo, src_z_hi, src_y_lo, src_tau_from, src_tau_to_excl; lia. Qed.
Open Scope string_scope.
Definition src_roles : list (string * string) :=
  [("x_col_var", "{f['x_col_var']}"); ("z_col_var", "{f['z_col_var']}"); ("label", "{f['label']}");
   ("edge_cmi_args", "{f['edge_cmi_args']}"); ("edge_test_args", "{f['edge_test_args']}"); ("add_edge", "{f['add_edge']}")].
Lemma src_roles_are_modelled : src_roles =
  [("x_col_var", "j"); ("z_col_var", "i"); ("label", "(j,tau)");
   ("edge_cmi_args", "X_predictor,Y_target,Z_cond"); ("edge_test_args", "X_predictor,Y_target,Z_cond,cmi,rng,n_shuffles");
   ("add_edge", "var_names[src_var],var_names[i],cmi=cmi,lag=src_lag,p_value=test_result['P_value']")].
Proof. reflexivity. Qed.
"""


# ---------------------------------------------------------------------------
# discovery.discover_network: request validation  ->  Discover.validate
# ---------------------------------------------------------------------------
def guard_facts():
    tree = parse("causationentropy/core/discovery.py")
    dn = func(tree, "discover_network")
    guards = []
    for st in dn.body:
        if isinstance(st, ast.If) and len(st.body) == 1 and isinstance(st.body[0], ast.Raise):
            exc = st.body[0].exc
            guards.append((src(st.test).replace(" ", ""), src(exc.func) if isinstance(exc, ast.Call) else src(exc)))
    infos = None
    for st in dn.body:
        if isinstance(st, ast.Assign) and is_name(st.targets[0], "supported_information_types") and isinstance(st.value, ast.List):
            infos = [e.value for e in st.value.elts if isinstance(e, ast.Constant)]
    if infos is None:
        raise Unavailable("supported_information_types list")
    if len(guards) != 3:
        raise Unavailable(f"expected 3 raise-guards at the top level of discover_network, found {len(guards)}")
    g0, g1, g2 = guards
    pre = "methodnotin["
    if not (g0[0].startswith(pre) and g0[0].endswith("]")):
        raise Unavailable(f"method guard `{g0[0]}`")
    methods = [m.strip("'\"") for m in g0[0][len(pre):-1].split(",")]
    if g1[0] != "informationnotinsupported_information_types":
        raise Unavailable(f"information guard `{g1[0]}`")
    tree_len = one((st for st in dn.body if isinstance(st, ast.If) and src(st.test).replace(" ", "") == g2[0]), "length guard")
    c = tree_len.test
    if not (isinstance(c, ast.Compare) and len(c.ops) == 1 and is_name(c.left, "T")):
        raise Unavailable("length guard shape")
    return {"methods": methods, "infos": infos, "exc": [g0[1], g1[1], g2[1]],
            "len_op": type(c.ops[0]).__name__, "len_rhs": affine(c.comparators[0], {"max_lag": "L"})}


def coq_guard_facts(f):
    ql = lambda xs: "[" + "; ".join('"%s"' % x for x in xs) + "]"
    return f"""From Coq Require Import ZArith Lia String List.
From CE Require Import Model.Discover.
Import ListNotations.
Open Scope string_scope.
Definition src_methods : list string := {ql(f['methods'])}.
Definition src_infos : list string := {ql(f['infos'])}.
Definition src_exceptions : list string := {ql(f['exc'])}.
Definition src_len_op : string := "{f['len_op']}".
Definition src_len_rhs (L : Z) : Z := {f['len_rhs']}.
Lemma src_guards_are_modelled :
  src_methods = supported_methods /\\ src_infos = supported_information /\\
  src_exceptions = ["NotImplementedError"; "NotImplementedError"; "ValueError"] /\\ src_len_op = "LtE" /\\
  forall L, (src_len_rhs L = L + 2)%Z.
Proof. repeat split; try reflexivity; intros L; unfold src_len_rhs; lia. Qed.
"""


# ---------------------------------------------------------------------------
# graph/utils.network_to_dataframe: column lists  ->  Export.all_masks_ok
# ---------------------------------------------------------------------------
def export_facts():
    tree = parse("causationentropy/graph/utils.py")
    f = func(tree, "network_to_dataframe")
    params = [a.arg for a in f.args.args][1:]
    loop = one((n for n in f.body if isinstance(n, ast.For)), "edge loop")
    chain = []
    for st in loop.body:
        if isinstance(st, ast.If):
            t = src(st.test).replace(" ", "")
            if not (t.endswith("isnotNone") and len(st.body) == 1 and isinstance(st.body[0], ast.Assign)):
                raise Unavailable(f"metadata guard `{t}`")
            arg = t[:-len("isnotNone")]
            tgt = st.body[0].targets[0]
            if not (isinstance(tgt, ast.Subscript) and is_name(tgt.value, "edge_dict") and isinstance(tgt.slice, ast.Constant)
                    and is_name(st.body[0].value, arg)):
                raise Unavailable("metadata assignment shape")
            chain.append((arg, tgt.slice.value))
    if [a for a, _ in chain] != params:
        raise Unavailable(f"if-chain arguments {[a for a, _ in chain]} differ from the signature order {params}")
    d0 = one((st for st in loop.body if isinstance(st, ast.Assign) and is_name(st.targets[0], "edge_dict")), "edge_dict literal")
    base_keys = [k.value for k in d0.value.keys]
    vals = [src(v).replace(" ", "").replace('"', "'") for v in d0.value.values]
    if vals != ["u", "v", "data.get('lag',0)", "data.get('cmi',None)", "data.get('p_value',None)"]:
        raise Unavailable(f"base row values {vals}")
    order = None
    bases = []
    for n in ast.walk(f):
        if isinstance(n, ast.Assign) and is_name(n.targets[0], "metadata_order") and isinstance(n.value, ast.List):
            order = [e.value for e in n.value.elts]
        if isinstance(n, ast.Assign) and is_name(n.targets[0], "base_cols") and isinstance(n.value, ast.List):
            bases.append([e.value for e in n.value.elts])
    s = _stmts(f)
    if order is None or not bases or "final_col_order=base_cols+[colforcolinmetadata_orderifcolindf.columns]" not in s \
            or "df=df[final_col_order]" not in s or "returnpd.DataFrame(columns=base_cols)" not in s:
        raise Unavailable("column ordering statements")
    return {"chain": [c for _, c in chain], "order": order, "base_row": base_keys, "base_cols": bases}


def coq_export_facts(f):
    ql = lambda xs: "[" + "; ".join('"%s"' % x for x in xs) + "]"
    return f"""From Coq Require Import String List.
From CE Require Import Model.Export.
Import ListNotations.
Open Scope string_scope.
Definition src_chain : list string := {ql(f['chain'])}.
Definition src_order : list string := {ql(f['order'])}.
Definition src_base_row : list string := {ql(f['base_row'])}.
Definition src_base_cols : list (list string) := [{"; ".join(ql(b) for b in f['base_cols'])}].
(* with the lists the source contains NOW, all 2^9 metadata subsets give the documented frame *)
Lemma src_all_512_subsets_ok : all_masks_ok src_chain src_order = true.
Proof. vm_compute. reflexivity. Qed.
Lemma src_base_columns : src_base_row = base_cols /\\ forallb (fun b => strs_eqb b base_cols) src_base_cols = true.
Proof. split; reflexivity. Qed.
"""


# ---------------------------------------------------------------------------
# datasets/synthetic.logisic_dynamics: which matrix enters the update  ->  Logistic model
# ---------------------------------------------------------------------------
def logistic_facts():
    tree = parse("causationentropy/datasets/synthetic.py")
    f = func(tree, "logisic_dynamics")
    lm = func(tree, "logistic_map")
    if [src(b).replace(" ", "") for b in lm.body] != ["returnr*X*(1-X)"]:
        raise Unavailable("logistic_map body")
    s = _stmts(f)
    need = ["row_sums=np.sum(A,axis=1)", "non_zero_mask=row_sums>0",
            "A[non_zero_mask]=A[non_zero_mask]/row_sums[non_zero_mask,np.newaxis]", "A=A.T", "XY[0,:]=rng.random(n)", "returnXY,A"]
    for k in need:
        if k not in s:
            raise Unavailable(f"statement `{k}`")
    order = [s.index(k) for k in need[:4]]
    if order != sorted(order):
        raise Unavailable("normalisation / transpose order")
    L = one((n for n in ast.walk(f) if isinstance(n, ast.Assign) and is_name(n.targets[0], "L")
             and "np.eye" in src(n.value)), "L assignment")
    upd = one((n for n in ast.walk(f) if isinstance(n, ast.Assign) and src(n.targets[0]).replace(" ", "") == "XY[i,:]"), "update")
    return {"laplacian": src(L.value).replace(" ", ""), "update": src(upd.value).replace(" ", "")}


def coq_logistic_facts(f):
    return f"""From Coq Require Import String List.
Import ListNotations.
Open Scope string_scope.
Definition src_laplacian : string := "{f['laplacian']}".
Definition src_update : string := "{f['update']}".
(* after `A = A.T` the row-stochastic matrix is A.T, and the update is f - sigma * (L f) *)
Lemma src_update_is_modelled :
  src_laplacian = "np.eye(n)-A.T" /\\
  src_update = "logistic_map(XY[i-1,:],r)-sigma*np.dot(L,logistic_map(XY[i-1,:],r)).T".
Proof. split; reflexivity. Qed.
"""


# ---------------------------------------------------------------------------
# conditional_mutual_information.py: dispatcher route table  ->  Dispatch.route
# ---------------------------------------------------------------------------
SETTINGS = ["k", "metric", "bandwidth", "kernel"]
CMI_FILE = "causationentropy/core/information/conditional_mutual_information.py"
MI_FILE = "causationentropy/core/information/mutual_information.py"


def _identity_kwargs(call, anchor):
    """settings forwarded unchanged by a call: keyword `s=s` for s in SETTINGS (anything else is reported)"""
    fw = []
    for kw in call.keywords:
        if kw.arg in SETTINGS:
            if is_name(kw.value, kw.arg):
                fw.append(kw.arg)
            else:
                fw.append(f"{kw.arg}:={src(kw.value)}")
        elif kw.arg is not None:
            raise Unavailable(f"{anchor}: unexpected keyword {kw.arg}")
    return fw


def route_facts():
    tree = parse(CMI_FILE)
    mi_tree = parse(MI_FILE)
    disp = func(tree, "conditional_mutual_information")
    chain = one((n for n in disp.body if isinstance(n, ast.If) and "method" in src(n.test)), "dispatcher if-chain")
    routes, names_seen = [], []
    node = chain
    while True:
        t = node.test
        tests = t.values if isinstance(t, ast.BoolOp) and isinstance(t.op, ast.Or) else [t]
        names = []
        for c in tests:
            if not (isinstance(c, ast.Compare) and is_name(c.left, "method") and len(c.ops) == 1 and isinstance(c.ops[0], ast.Eq)
                    and isinstance(c.comparators[0], ast.Constant) and isinstance(c.comparators[0].value, str)):
                raise Unavailable(f"dispatcher test `{src(c)}`")
            names.append(c.comparators[0].value)
        if not (len(node.body) == 1 and isinstance(node.body[0], ast.Assign) and is_name(node.body[0].targets[0], "cmi")
                and isinstance(node.body[0].value, ast.Call)):
            raise Unavailable("dispatcher branch body")
        call = node.body[0].value
        if [src(a) for a in call.args] != ["X", "Y", "Z"]:
            raise Unavailable(f"dispatcher positional arguments {[src(a) for a in call.args]}")
        callee = src(call.func)
        fw = _identity_kwargs(call, "dispatcher->" + callee)
        for nm in names:
            routes.append({"name": nm, "z": True, "callee": callee, "forwards": fw})
            names_seen.append(nm)
        # the Z-is-None head of the callee
        cf = func(tree, callee)
        head = cf.body[1] if isinstance(cf.body[0], ast.Expr) else cf.body[0]
        if not (isinstance(head, ast.If) and src(head.test).replace(" ", "") == "ZisNone"):
            raise Unavailable(f"{callee}: no `if Z is None` head")
        inner_calls = [n for n in ast.walk(ast.Module(body=head.body, type_ignores=[]))
                       if isinstance(n, ast.Call) and isinstance(n.func, ast.Name) and n.func.id.endswith("mutual_information")]
        if len(inner_calls) == 1 and len(head.body) == 1:
            ic = inner_calls[0]
            if [src(a) for a in ic.args] != ["X", "Y"]:
                raise Unavailable(f"{callee}: Z-None call arguments")
            fw2 = [s for s in _identity_kwargs(ic, callee + "->" + ic.func.id) if s in fw]
            for nm in names:
                routes.append({"name": nm, "z": False, "callee": ic.func.id, "forwards": fw2})
        elif not inner_calls:          # estimator handles Z=None itself
            for nm in names:
                routes.append({"name": nm, "z": False, "callee": callee, "forwards": fw})
        else:
            raise Unavailable(f"{callee}: Z-None head shape")
        if len(node.orelse) == 1 and isinstance(node.orelse[0], ast.If):
            node = node.orelse[0]
        else:
            tail = node.orelse
            break
    raises = [n for n in ast.walk(ast.Module(body=tail, type_ignores=[])) if isinstance(n, ast.Raise)]
    if len(raises) != 1 or not src(raises[0].exc).startswith("ValueError("):
        raise Unavailable("dispatcher else branch does not raise ValueError")
    # the floor
    s = _stmts(disp)
    if "returnmax(0.0,cmi)" not in s or "returncmi" not in s:
        raise Unavailable("dispatcher floor statements")
    fl = one((n for n in disp.body if isinstance(n, ast.If) and src(n.test).replace(" ", "") == "np.isfinite(cmi)"), "floor guard")
    # accepted settings per callee, from the signatures
    accepts = {}
    for r in routes:
        c = r["callee"]
        if c not in accepts:
            try:
                fd = func(tree, c)
            except Unavailable:
                fd = func(mi_tree, c)
            accepts[c] = [a.arg for a in fd.args.args if a.arg in SETTINGS]
    return {"routes": routes, "accepts": accepts}


def coq_route_facts(f):
    ql = lambda xs: "[" + "; ".join('"%s"' % x for x in xs) + "]"
    rs = ";\n    ".join('{| r_name := "%s"; r_zpresent := %s; r_callee := "%s"; r_forwards := %s |}'
                         % (r["name"], "true" if r["z"] else "false", r["callee"], ql(r["forwards"])) for r in f["routes"])
    acc = ";\n    ".join('("%s", %s)' % (c, ql(a)) for c, a in f["accepts"].items())
    return f"""From Coq Require Import String List Bool.
From CE Require Import Model.Dispatch.
Import ListNotations.
Open Scope string_scope.
Definition src_routes : list route :=
   [{rs}].
Definition src_accepts : list (string * list string) :=
   [{acc}].
Definition set_eqb (a b : list string) : bool := forallb (fun x => mem x b) a && forallb (fun x => mem x a) b.
(* what each callee accepts, as the signatures say now, is what the model assumes *)
Lemma src_accepts_is_modelled : forallb (fun ca => set_eqb (snd ca) (accepts (fst ca))) src_accepts = true.
Proof. vm_compute. reflexivity. Qed.
(* every route forwards every setting its callee accepts -- except the known finding K1 *)
Lemma src_routes_forward_all_but_K1 : forallb (fun r => forwards_all r || is_K1 r) src_routes = true.
Proof. vm_compute. reflexivity. Qed.
(* every supported name has a route with and without a conditioning set; 'kde' and 'kernel_density' coincide *)
Lemma src_routes_cover_names : forallb (fun n => match lookup_route src_routes n true, lookup_route src_routes n false with
                                                   | Some _, Some _ => true | _, _ => false end) names = true.
Proof. vm_compute. reflexivity. Qed.
Lemma src_kde_alias : forallb (fun z => match lookup_route src_routes "kde" z, lookup_route src_routes "kernel_density" z with
    | Some a, Some b => String.eqb (r_callee a) (r_callee b) && set_eqb (r_forwards a) (r_forwards b) | _, _ => false end) [true; false] = true.
Proof. vm_compute. reflexivity. Qed.
"""
