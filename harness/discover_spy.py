"""Spies / scripted oracles installed at the module seam of causationentropy.core.discovery."""
import copy

import numpy as np

DRIVERS = ["standard_optimal_causation_entropy", "alternative_optimal_causation_entropy",
           "information_lasso_optimal_causation_entropy", "lasso_optimal_causation_entropy"]


def arr(a):
    return None if a is None else np.array(a, copy=True)


class Spy:
    """Records every (X, Y, Z) handed to the estimator and to the test, split into the selection phase and the
    edge-emission phase of each target; optionally replaces drivers / estimator / test by scripted versions."""

    def __init__(self, disc, select=None, estimator=None, test=None):
        self.disc, self.select, self.estimator, self.test = disc, select, estimator, test
        self.target, self.phase = -1, None
        self.S = {}
        self.cmi_calls, self.test_calls = [], []

    def __enter__(self):
        d = self.disc
        self.saved = {n: getattr(d, n) for n in DRIVERS + ["conditional_mutual_information", "shuffle_test"]}
        for n in DRIVERS:
            setattr(d, n, self._driver(n, self.saved[n]))
        orig_cmi, orig_test = self.saved["conditional_mutual_information"], self.saved["shuffle_test"]

        def cmi(X, Y, Z=None, **kw):
            rec = {"target": self.target, "phase": self.phase, "X": arr(X), "Y": arr(Y), "Z": arr(Z), "kw": dict(kw)}
            self.cmi_calls.append(rec)
            v = self.estimator(len(self.cmi_calls) - 1, rec) if self.estimator else orig_cmi(X, Y, Z, **kw)
            rec["value"] = v
            return v

        def test(X, Y, Z, observed_cmi, *a, **kw):
            rec = {"target": self.target, "phase": self.phase, "X": arr(X), "Y": arr(Y), "Z": arr(Z),
                   "observed": observed_cmi, "args": a, "kw": {k: v for k, v in kw.items() if k != "rng"},
                   "rng_copy": copy.deepcopy(kw.get("rng")) if isinstance(kw.get("rng"), np.random.Generator) else None,
                   "rng_id": id(kw.get("rng"))}
            self.test_calls.append(rec)
            if self.test:
                r = self.test(len(self.test_calls) - 1, rec)
            else:
                saved = d.conditional_mutual_information       # surrogate evaluations are not recorded as calls
                d.conditional_mutual_information = orig_cmi if not self.estimator else \
                    (lambda X_, Y_, Z_=None, **kw_: self.estimator(-1, {"surrogate": True}))
                try:
                    r = orig_test(X, Y, Z, observed_cmi, *a, **kw)
                finally:
                    d.conditional_mutual_information = saved
            rec["result"] = r
            return r
        d.conditional_mutual_information, d.shuffle_test = cmi, test
        return self

    def _driver(self, name, orig):
        def w(*a, **kw):
            if self.phase == "select":          # information_lasso delegates to lasso: not a new target
                return orig(*a, **kw)
            self.target += 1
            self.phase = "select"
            S = self.select(self.target, name, a, kw) if self.select else orig(*a, **kw)
            self.S[self.target] = [int(s) for s in S]
            self.phase = "emit"
            return S
        return w

    def __exit__(self, *exc):
        for n, v in self.saved.items():
            setattr(self.disc, n, v)
        return False
