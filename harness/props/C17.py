"""C17 -- TPR/FPR and AUC equal their confusion-matrix and trapezoid definitions."""
import itertools
from fractions import Fraction

import numpy as np

import lib
import translate_est
from lib import qlit, zmat, qlist

IMPORTS = ("From Coq Require Import List ZArith QArith.\nImport ListNotations.\n"
           "From CE Require Import Model.Harness Model.Stats.\nOpen Scope Z_scope.\n")
TOL = Fraction(1, 10**12)


def brute_rates(A, B):
    """The property's own definition, by explicit loops over off-diagonal pairs."""
    n = len(A)
    tp = fn = fp = tn = 0
    for i in range(n):
        for j in range(n):
            if i == j:
                continue
            a, b = A[i][j], B[i][j]
            tp += a == 1 and b == 1
            fn += a == 1 and b == 0
            fp += a == 0 and b == 1
            tn += a == 0 and b == 0
    tpr = Fraction(1) if tp + fn == 0 else Fraction(tp, tp + fn)
    fpr = Fraction(0) if fp + tn == 0 else Fraction(fp, fp + tn)
    return tpr, fpr, (tp, fn, fp, tn)


def is_bin0(A):
    n = len(A)
    return all(A[i][j] in (0, 1) for i in range(n) for j in range(n)) and all(A[i][i] == 0 for i in range(n))


def all_bin0(n):
    cells = [(i, j) for i in range(n) for j in range(n) if i != j]
    for bits in itertools.product((0, 1), repeat=len(cells)):
        M = [[0] * n for _ in range(n)]
        for (i, j), b in zip(cells, bits):
            M[i][j] = b
        yield M


def run(chk):
    from causationentropy.core.stats import Compute_TPR_FPR, auc
    rng = np.random.default_rng(chk.seed)
    chk.theorems()
    lib.translator_lemma(chk, "stats_facts", translate_est.stats_facts, translate_est.coq_stats_facts, "")
    chk.trusted += ["Coq 8.16.1 kernel + vm_compute", "harness/props/C17.py generators and float->Q conversion (float.as_integer_ratio)",
                    "NumPy elementwise ops / np.trapezoid are compared, not modelled"]
    chk.assumptions += ["matrices are square n x n numeric arrays (int64 or float64)",
                        "model entries are integers; float-typed inputs hold integer values"]
    # ------------------------------------------------------------------ rates
    inputs = []   # (n, A, B, dtype, stream)
    for n in (1, 2, 3):
        ms = list(all_bin0(n))
        for A in ms:
            for B in ms:
                inputs.append((n, A, B, "int64", "exhaustive"))
    n_exh = len(inputs)
    n_samp = 600 if chk.tier == "quick" else 30000
    for t in range(n_samp):
        n = int(rng.integers(4, 13))
        dens = rng.choice([0.0, 0.05, 0.3, 0.5, 0.8, 1.0])
        densb = rng.choice([0.0, 0.05, 0.3, 0.5, 0.8, 1.0])
        A = (rng.random((n, n)) < dens).astype(int)
        kind = rng.choice(["indep", "same", "complement", "flip_few"], p=[0.55, 0.1, 0.1, 0.25])
        if kind == "indep":
            B = (rng.random((n, n)) < densb).astype(int)
        elif kind == "same":
            B = A.copy()
        elif kind == "complement":
            B = 1 - A
        else:
            B = A.copy()
            for _ in range(int(rng.integers(1, 4))):
                i, j = rng.integers(0, n, 2)
                B[i, j] = 1 - B[i, j]
        np.fill_diagonal(A, 0)
        np.fill_diagonal(B, 0)
        inputs.append((n, A.tolist(), B.tolist(), str(rng.choice(["int64", "float64"])), f"sampled-{kind}"))
    # malformed stream: hypotheses violated (non-binary, non-zero diagonal); only the code route is compared
    for t in range(60 if chk.tier == "quick" else 1500):
        n = int(rng.integers(1, 7))
        A = rng.integers(0, 3, (n, n))
        B = rng.integers(-1, 3, (n, n))
        inputs.append((n, A.tolist(), B.tolist(), "int64", "malformed"))

    cases, pred_fail = [], []
    for (n, A, B, dt, stream) in inputs:
        a, b = np.array(A, dtype=dt).reshape(n, n), np.array(B, dtype=dt).reshape(n, n)
        a0, b0 = a.copy(), b.copy()
        t, f = Compute_TPR_FPR(a, b)
        t, f = float(t), float(f)
        pf = None
        if not (np.array_equal(a, a0) and np.array_equal(b, b0)):
            pf = "argument arrays were modified"
        if stream != "malformed":
            td, fd, cells = brute_rates(A, B)
            if abs(Fraction(t) - td) > TOL or abs(Fraction(f) - fd) > TOL:
                pf = f"rates ({t},{f}) differ from the confusion-matrix definition ({td},{fd}), cells TP,FN,FP,TN={cells}"
            elif not (0 <= t <= 1 and 0 <= f <= 1):
                pf = f"rates ({t},{f}) outside [0,1]"
            elif A == B and (t, f) != (1.0, 0.0):
                pf = f"identical matrices gave ({t},{f}) instead of (1,0)"
            chk.case(key=("r", n, str(A), str(B)), nontrivial=(cells[0] + cells[1] > 0 or cells[2] + cells[3] > 0),
                     sample={"n": n, "A": A, "B": B, "tpr": t, "fpr": f} if stream.startswith("sampled") else None)
        else:
            chk.case(key=("m", n, str(A), str(B)), nontrivial=True)
        chk.count("stream." + stream)
        pred_fail.append(pf)
        cases.append(f"({n}%nat, {zmat(A)}, {zmat(B)}, {qlit(t)}, {qlit(f)})")
    lib.correspond(chk, "rates_model_vs_impl", IMPORTS, "nat * mat * mat * Q * Q",
                   f"check_rates_tol {qlit(TOL)}", cases, pred_fail,
                   lambda i: {"function": "Compute_TPR_FPR", "n": inputs[i][0], "A": inputs[i][1], "B": inputs[i][2],
                              "dtype": inputs[i][3], "stream": inputs[i][4]},
                   shard=700, jobs=12)
    chk.extra["exhaustive_n_le_3_pairs"] = n_exh

    # ------------------------------------------------------------------ AUC
    curves = []
    n_auc = 400 if chk.tier == "quick" else 20000
    for t in range(n_auc):
        m = int(rng.integers(2, 31))
        kind = str(rng.choice(["monotone", "monotone_steps", "nonmonotone"], p=[0.4, 0.45, 0.15]))
        den = int(rng.choice([8, 64, 1024]))
        if kind == "nonmonotone":
            xs = [Fraction(int(v), den) for v in rng.integers(0, den + 1, m)]
            ys = [Fraction(int(v), den) for v in rng.integers(0, den + 1, m)]
        else:
            xs = sorted(int(v) for v in rng.integers(0, den + 1, m))
            ys = sorted(int(v) for v in rng.integers(0, den + 1, m))
            if kind == "monotone_steps":   # force repeated abscissae (vertical steps) and repeated ordinates
                for k in range(1, m):
                    if rng.random() < 0.4:
                        xs[k] = xs[k - 1]
                xs.sort()
            xs[0] = ys[0] = 0
            xs[-1] = ys[-1] = den
            xs = [Fraction(v, den) for v in xs]
            ys = [Fraction(v, den) for v in ys]
        curves.append((kind, ys, xs))
    curves.append(("monotone", [Fraction(0), Fraction(1)], [Fraction(0), Fraction(1)]))
    curves.append(("monotone_steps", [Fraction(0), Fraction(0), Fraction(1)], [Fraction(0), Fraction(1), Fraction(1)]))
    curves.append(("monotone_steps", [Fraction(0), Fraction(1), Fraction(1)], [Fraction(0), Fraction(0), Fraction(1)]))
    # near-perfect classifiers: the false-positive rate only takes the values 0 and 1 (integers), the TPRs are fractional
    for t in range(40 if chk.tier == "quick" else 1500):
        m = int(rng.integers(3, 12))
        den = int(rng.choice([8, 64, 1024]))
        j = int(rng.integers(1, m))
        xs = [Fraction(0)] * j + [Fraction(1)] * (m - j)
        ys = sorted(int(v) for v in rng.integers(0, den + 1, m))
        ys[0], ys[-1] = 0, den
        curves.append(("binary_fpr", [Fraction(v, den) for v in ys], xs))
    acases, apf, adesc = [], [], []
    for kind, ys, xs in curves:
        integral_x = all(v.denominator == 1 for v in xs)
        for container in ("list", "array") + (("int_literals", "int_fpr_array") if integral_x else ()):
            yf, xf = [float(v) for v in ys], [float(v) for v in xs]
            lit = lambda v: int(v) if v.denominator == 1 else float(v)
            adesc.append({"function": "auc", "TPRs": [str(v) for v in ys], "FPRs": [str(v) for v in xs], "container": container})
            got = float(auc(yf, xf) if container == "list" else auc(np.array(yf), np.array(xf)) if container == "array" else
                        auc([lit(v) for v in ys], [lit(v) for v in xs]) if container == "int_literals" else
                        auc(np.array(yf), np.array([int(v) for v in xs], dtype=np.int64)))
            chk.count("auc.container." + container)
            ref = sum((xs[k + 1] - xs[k]) * (ys[k] + ys[k + 1]) / 2 for k in range(len(xs) - 1))
            pf = None
            if abs(Fraction(got) - ref) > TOL:
                pf = f"auc = {got} but the trapezoidal area of the supplied curve is {float(ref)}"
            elif kind != "nonmonotone" and not (-1e-12 <= got <= 1 + 1e-12):
                pf = f"auc = {got} outside [0,1] for a monotone curve from (0,0) to (1,1)"
            apf.append(pf)
            acases.append(f"({qlist(ys)}, {qlist(xs)}, {qlit(got)})")
            chk.case(key=("auc", tuple(ys), tuple(xs), container), nontrivial=len(set(xs)) > 1,
                     sample={"ys": yf, "xs": xf, "auc": got} if len(chk.samples) < 5 and len(xs) < 6 else None)
            chk.count("auc." + kind)
    lib.correspond(chk, "auc_model_vs_impl", IMPORTS + "Open Scope Q_scope.\n", "list Q * list Q * Q",
                   f"check_auc_tol {qlit(TOL)}", acases, apf,
                   lambda i: adesc[i],
                   shard=500, jobs=12)
    chk.rule = ("Compute_TPR_FPR: every pair of binary zero-diagonal matrices with n<=3 (exhaustive, 4113 pairs) + seeded samples "
                "n=4..12 (independent / identical / complement / few flips; int64 and float64) + a malformed stream (non-binary, "
                "non-zero diagonal: code route only). auc: monotone polylines (with vertical steps) and non-monotone ones on dyadic "
                "grids, list and ndarray containers; curves whose FPR is 0/1 only with fractional TPRs, also written with integer literals and with an int64 FPR array. Distinct = distinct (n,A,B) or (ys,xs,container); non-trivial = at least one "
                "positive or negative off-diagonal pair / at least two distinct abscissae.")
    chk.exhaustive = False
    chk.extra["exhaustive_part"] = "all pairs of binary zero-diagonal matrices for n <= 3"


def replay(chk, rep):
    from causationentropy.core.stats import Compute_TPR_FPR, auc
    r = rep["replay"]
    r = r.get("first_disagreeing_case", r)
    if r.get("function") == "Compute_TPR_FPR":
        A, B = r["A"], r["B"]
        t, f = Compute_TPR_FPR(np.array(A, dtype=r["dtype"]), np.array(B, dtype=r["dtype"]))
        td, fd, cells = brute_rates(A, B)
        print(f"replay: impl=({t},{f}) definition=({td},{fd}) cells={cells}")
        if is_bin0(A) and is_bin0(B) and (abs(Fraction(float(t)) - td) > TOL or abs(Fraction(float(f)) - fd) > TOL):
            chk.violation("counterexample", "rates differ from definition", r)
    elif r.get("function") == "auc":
        ys = [Fraction(v) for v in r["TPRs"]]
        xs = [Fraction(v) for v in r["FPRs"]]
        lit = lambda v: int(v) if v.denominator == 1 else float(v)
        cont = r.get("container", "list")
        yf, xf = [float(v) for v in ys], [float(v) for v in xs]
        got = float(auc(yf, xf) if cont == "list" else auc(np.array(yf), np.array(xf)) if cont == "array" else
                    auc([lit(v) for v in ys], [lit(v) for v in xs]) if cont == "int_literals" else
                    auc(np.array(yf), np.array([int(v) for v in xs], dtype=np.int64)))
        ref = sum((xs[k + 1] - xs[k]) * (ys[k] + ys[k + 1]) / 2 for k in range(len(xs) - 1))
        print(f"replay: impl={got} trapezoid={float(ref)}")
        if abs(Fraction(got) - ref) > TOL:
            chk.violation("counterexample", "auc differs from trapezoid", r)
    chk.case(key="replay", nontrivial=True, sample=r)
    chk.case(key="replay2", nontrivial=True)
