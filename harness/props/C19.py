"""C19 -- coupled logistic-map network stays inside the unit interval."""
import math
import time
import numpy as np

import lib
import translate
from lib import qlit, qlist, qmat

IMPORTS = ("From Coq Require Import List QArith.\nImport ListNotations.\n"
           "From CE Require Import Model.Harness Model.Logistic.\nOpen Scope Q_scope.\n")


def run(chk):
    from causationentropy.datasets.synthetic import logisic_dynamics
    rng = np.random.default_rng(chk.seed)
    chk.theorems()
    lib.translator_lemma(chk, "logistic_facts", translate.logistic_facts, translate.coq_logistic_facts, "")
    chk.trusted += ["Coq 8.16.1 kernel + vm_compute", "harness/translate.py (logisic_dynamics anchors, fail-closed)",
                    "float rounding: the model is exact arithmetic; each implementation step is compared within 1e-12",
                    "networkx erdos_renyi_graph and NumPy RNG are exercised, not modelled"]
    chk.assumptions += ["0 <= r <= 4, 0 <= sigma <= 1", "the matrix used in the update is recovered as the transpose of the returned matrix"]
    cases, pf, desc = [], [], []
    confs = [dict()]      # the default call
    n_conf = 150 if chk.tier == "quick" else 8000
    for t in range(n_conf):
        big = rng.random() < 0.08
        confs.append(dict(n=int(rng.integers(1, 31 if big else 11)), p=float(rng.choice([0.0, 0.1, 0.3, 0.5, 0.8, 1.0, rng.random()])),
                          t=int(rng.integers(1, 201 if big else 30)), r=float(rng.choice([0.0, 1.0, 2.5, 3.57, 3.99, 4.0, 4 * rng.random()])),
                          sigma=float(rng.choice([0.0, 0.1, 0.5, 0.9, 1.0, rng.random()])), seed=int(rng.integers(0, 10000))))
    # networks beyond any internal size threshold (sparse / blocked code paths): short runs, predicate + first steps in Coq
    for nbig in ([128, 150] if chk.tier == "quick" else [128, 129, 150, 200, 256, 300, 400]):
        confs.append(dict(n=nbig, p=float(rng.choice([0.02, 0.05, 0.1])), t=int(rng.integers(40, 120)),
                          r=float(rng.choice([3.99, 4.0, 3.7])), sigma=float(rng.choice([0.1, 0.5, 1.0])), seed=int(rng.integers(0, 10000))))
    # single-node networks with every kind of edge probability (incl. the integer 1 and 1.0: "complete graph" on one node)
    for pv in (0.0, 1.0, 1, 0.5):
        confs.append(dict(n=1, p=pv, t=int(rng.integers(2, 40)), r=float(rng.choice([0.5, 2.5, 3.99, 4.0])),
                          sigma=float(rng.choice([0.0, 0.3, 1.0])), seed=int(rng.integers(0, 10000))))
    # contracting maps (0 < r < 1) run long enough for the states to decay through the subnormal range to exactly 0
    for t in range(6 if chk.tier == "quick" else 120):
        rv = float(rng.choice([0.05, 0.1, 0.3, 0.5, 0.9 * rng.random() + 0.01]))
        steps = min(4000, int(340 / math.log10(1 / rv)) + int(rng.integers(20, 200)))
        confs.append(dict(n=int(rng.integers(1, 5)), p=float(rng.choice([0.0, 0.5, 1.0])), t=steps, r=rv,
                          sigma=float(rng.choice([0.0, 0.2, 1.0, rng.random()])), seed=int(rng.integers(0, 10000))))
        chk.count("contracting_long_runs")
    # dense networks whose node degrees run through every value up to ~120 (reciprocal-degree arithmetic: k * fl(1/k) is
    # 1 - 2^-53 for k = 49, 98, 103, 107, ...): complete graphs on 50 / 99 / 104 / 108 nodes and dense random graphs
    for nd, pd_ in ([(50, 1.0), (99, 1.0), (100, 0.5)] if chk.tier == "quick" else
                    [(50, 1.0), (99, 1.0), (104, 1.0), (108, 1.0), (162, 1.0), (100, 0.5), (120, 0.4), (110, 0.9)]):
        # spread over the case list so that the heavy in-kernel evaluations land in different (parallel) shards
        confs.insert(min(len(confs), 3 + 26 * len([c for c in confs if c.get("n", 0) >= 50 and c.get("p", 0) >= 0.4])),
                     dict(n=nd, p=pd_, t=int(rng.integers(12, 30)), r=float(rng.choice([3.7, 3.99, 4.0])),
                          sigma=float(rng.choice([0.3, 0.7, 1.0])), seed=int(rng.integers(0, 10000))))
    for ci, c in enumerate(confs):
        XY, A = logisic_dynamics(**c)
        if ci % 5 == 1 and isinstance(A, np.ndarray) and A.flags.writeable:
            # the caller post-processes the returned ground truth in place (binarises it) before asking again
            keepA = A.copy()
            A[A > 0] = 1.0
            XY2, A2 = logisic_dynamics(**c)
            A = keepA
            chk.count("history.returned_matrix_edited_in_place_between_calls")
        else:
            XY2, A2 = logisic_dynamics(**c)
        full = dict(n=20, p=0.1, t=100, r=3.99, sigma=0.1, seed=42)
        full.update(c)
        R = np.asarray(A).T
        fail = None
        if XY.shape != (full["t"], full["n"]):
            fail = f"series shape {XY.shape}, expected {(full['t'], full['n'])}"
        elif not np.all(np.isfinite(XY)):
            fail = f"non-finite values in the series (first at row {int(np.argwhere(~np.isfinite(XY))[0][0])})"
        elif XY.min() < 0 or XY.max() > 1:
            fail = f"values outside [0,1]: min {XY.min()}, max {XY.max()}"
        elif not (np.array_equal(XY, XY2) and np.array_equal(A, A2)):
            fail = "two calls with the same arguments differ (the second one possibly after the caller edited the FIRST call's returned matrix in place)"
        elif np.any(R < 0) or np.any(np.abs(R.sum(axis=1) - np.round(R.sum(axis=1))) > 1e-12) or np.any(R.sum(axis=1) > 1 + 1e-12):
            fail = "the coupling matrix used in the update (transpose of the returned one) is not row-substochastic"
        pf.append(fail)
        rows = XY if XY.shape[0] * XY.shape[1] <= 500 else XY[:max(2, 500 // XY.shape[1])]
        if full["n"] >= 50 and R.size and np.count_nonzero(R) > 0.3 * R.size:
            rows = XY[:3]                         # dense large networks: two exact steps in Coq (n^2 rational products each); predicate: whole series
        if full["t"] > 300:                       # long contracting runs: tiny values have 1000-bit rational literals; the first rows suffice for the
            rows = XY[:25]                        # step-wise comparison, the predicate above has looked at the whole series
        if not np.all(np.isfinite(rows)):
            k = int(np.argwhere(~np.isfinite(rows))[0][0])
            rows = rows[:max(1, k)]
        cases.append(f"({qlit(full['r'])}, {qlit(full['sigma'])}, {qmat(R.tolist())}, {qmat(rows.tolist())})")
        desc.append({"call": c or "default", "matrix_rows_used": R.tolist() if R.size <= 36 else "large",
                     "min": float(np.nanmin(XY)), "max": float(np.nanmax(XY))})
        chk.case(key=tuple(sorted(full.items())), nontrivial=full["t"] > 1 and full["n"] > 0,
                 sample=desc[-1] if (not c or full["n"] <= 3) and len(chk.samples) < 4 else None)
        chk.count("calls")
        chk.count("steps_compared", max(0, len(rows) - 1))
        chk.count("with_isolated_node" if np.any(R.sum(axis=1) == 0) else "all_connected")
        chk.count("sigma_is_1" if full["sigma"] == 1.0 else "sigma_lt_1")
    # hypothesis of the trajectory theorem: the initial row lies in [0,1] -- tied by replay: it is the seed's uniform draw
    init_bad = []
    for c in confs[:60]:
        full = dict(n=20, p=0.1, t=100, r=3.99, sigma=0.1, seed=42)
        full.update(c)
        if len(init_bad) < 3:
            x0 = logisic_dynamics(**{**c, "t": 1})[0]
            want = np.random.default_rng(full["seed"]).random(full["n"])
            if x0.shape != (1, full["n"]) or not np.array_equal(x0[0], want):
                init_bad.append(f"n={full['n']} seed={full['seed']}: first row {x0[0][:3].tolist()}... is not default_rng(seed).random(n) = {want[:3].tolist()}...")
    chk.oblige("correspondence", "the initial row is the seed's uniform draw on [0,1) (hypothesis of the trajectory theorem, replayed)",
               not init_bad, "; ".join(init_bad)[:600])
    if init_bad:
        # the tie is broken: look for a seed whose initial row leaves [0,1] (bounded search: large n, t = 1, no edges)
        t_end = time.time() + 45
        sd = 0
        while time.time() < t_end:
            x0 = logisic_dynamics(n=400, p=0.0, t=1, seed=sd)[0]
            if not (np.all(np.isfinite(x0)) and x0.min() >= 0 and x0.max() <= 1):
                chk.violation("counterexample", f"logisic_dynamics(n=400, p=0.0, t=1, seed={sd}) starts outside [0,1]: min {x0.min()}, max {x0.max()}",
                              {"call": {"n": 400, "p": 0.0, "t": 1, "seed": sd}, "min": float(x0.min()), "max": float(x0.max())})
                break
            sd += 1
        chk.count("initial_row_search_seeds_tried", sd)
    lib.correspond(chk, "stepwise_model_vs_impl", IMPORTS, "Q * Q * list (list Q) * list (list Q)",
                   f"check_traj_case {qlit(1e-12)}", cases, pf, lambda i: desc[i], shard=25, jobs=14, timeout=1500)
    chk.rule = ("logisic_dynamics called with the default arguments and with sampled (n 1..30, p in {0,...,1}, t 1..200, r in [0,4] incl. 0, "
                "3.99, 4, sigma in [0,1] incl. 0 and 1, seeds), single-node networks with p in {0, 0.5, 1.0, 1}, complete graphs on 50 / 99 nodes and dense random graphs (every node degree up to ~100), a second call after the caller binarised the first call's returned matrix in place, and contracting maps 0 < r < 1 run until the states have decayed through the subnormal range (t up to 4000). The map is chaotic, so trajectories are compared STEP-WISE: the exact-rational "
                "model step applied to the implementation's own row t-1 must reproduce row t within 1e-12 (inside Coq), with the coupling "
                "matrix recovered from the returned matrix. Predicate on the implementation: every value finite and in [0,1]. "
                "Distinct = distinct argument tuple; non-trivial = at least one update step.")
