"""C10 -- estimates ignore sample order, conditioning-column order and X/Y roles; estimators are pure."""
import math
from fractions import Fraction

import numpy as np

import lib
import translate_est
import translate_C10
from lib import qlit, qlist, qmat, zlist, coq_list, coq_bool

IMPORTS = ("From Coq Require Import List ZArith QArith Bool.\nImport ListNotations.\n"
           "From CE Require Import Model.Harness Model.KnnCounts Model.PoissonMI Model.PoissonCMI.\nOpen Scope Z_scope.\n")
PCMI_TYPE = "nat * nat * nat * list (list Q) * Q * Q * list (bool * list nat * bool * list (Q * Q) * Q)"
RATE_TOL, VALUE_TOL = 1e-12, 1e-9      # stated in every conditional-Poisson case
REL = 1e-9
METRICS = {"euclidean": "Euclid", "cityblock": "City", "chebyshev": "Cheb"}


def close(a, b):
    if not (math.isfinite(a) and math.isfinite(b)):
        return (math.isnan(a) and math.isnan(b)) or a == b
    return abs(a - b) <= REL * max(1.0, abs(a), abs(b))


def rows_term(Xi, Yi, Zi):
    N = Xi.shape[0]
    return coq_list([f"({zlist(Xi[i])}, {zlist(Yi[i])}, {zlist(Zi[i]) if Zi is not None else '[]'})" for i in range(N)])


def nlist(xs):
    return coq_list([f"{int(x)}%nat" for x in xs])


class PoissonSpy:
    """Runs a call of the real estimator while recording (a) a copy of every matrix np.corrcoef returned, taken BEFORE the caller
    overwrites it, and (b) the argument / result of every poisson_entropy evaluation, element by element."""

    def __init__(self, cm, ent):
        self.cm, self.ent = cm, ent

    def __call__(self, f):
        cm, ent = self.cm, self.ent
        rec = {"R": [], "pe": []}
        o_corr, o_pe, o_cpe = np.corrcoef, ent.poisson_entropy, cm.poisson_entropy

        def corr(*a, **k):
            r = o_corr(*a, **k)
            rec["R"].append(np.array(r, dtype=float, copy=True))
            return r

        def pe(lam):
            arg = np.array(lam, dtype=float, copy=True).reshape(-1)
            r = o_pe(lam)
            res = np.asarray(r, dtype=float).reshape(-1).copy()
            if res.shape != arg.shape:
                res = np.full(arg.shape, np.nan)
            rec["pe"].extend(zip(arg.tolist(), res.tolist()))
            return r
        np.corrcoef, ent.poisson_entropy, cm.poisson_entropy = corr, pe, pe
        try:
            with np.errstate(all="ignore"), lib.quiet():
                try:
                    v, raised = float(f()), None
                except ValueError as e:
                    v, raised = float("nan"), f"{type(e).__name__}: {e}"[:200]
        finally:
            np.corrcoef, ent.poisson_entropy, cm.poisson_entropy = o_corr, o_pe, o_cpe
        return v, raised, rec


def pcmi_call(swapped, order, raised, pe, value):
    """Coq term for one recorded call (None when a non-finite number was recorded: cannot be written as a rational)."""
    if raised is None and not (math.isfinite(value) and all(math.isfinite(a) and math.isfinite(h) for a, h in pe)):
        return None
    recs = coq_list([f"({qlit(a)}, {qlit(h)})" for a, h in pe]) if raised is None else "[]"
    return f"({coq_bool(swapped)}, {nlist(order)}, {coq_bool(raised is not None)}, {recs}, {qlit(value if raised is None else 0.0)})"


def run(chk):
    import importlib
    cm = importlib.import_module("causationentropy.core.information.conditional_mutual_information")
    mi = importlib.import_module("causationentropy.core.information.mutual_information")
    from causationentropy.core.information.entropy import poisson_entropy
    ent = importlib.import_module("causationentropy.core.information.entropy")
    spy = PoissonSpy(cm, ent)
    rng = np.random.default_rng(chk.seed)
    chk.theorems()
    lib.translator_lemma(chk, "estimator_source", translate_est.estimator_facts, translate_est.coq_estimator_facts, "")
    # second tie of the conditional Poisson model: the branch's statements re-read from the current source = the table the model was written from
    lib.translator_lemma(chk, "poisson_conditional_branch_source", translate_C10.conditional_branch_facts,
                         translate_C10.coq_conditional_branch_facts, "")
    lib.translator_lemma(chk, "poisson_joint_entropy_source", translate_est.poisson_joint_facts, translate_est.coq_poisson_joint_facts, "")
    chk.trusted += ["Coq 8.16.1 kernel + vm_compute",
                    "the invariance theorems are about the estimator MODELS (Model/KnnCounts.v, Model/Kde.v, Model/PoissonMI.v, Model/PoissonCMI.v, and the "
                    "Gaussian / geometric models of C08 / C12); the models are tied to the code by the correspondences of C08, C11, C12, C13 "
                    "and, here, by re-evaluating the kNN and the two Poisson models on original and transformed inputs",
                    "conditional Poisson model: numpy's aliasing / broadcasting / fill_diagonal / fancy-indexing semantics are reproduced by hand in "
                    "Model/PoissonCMI.v and tied only by the differential runs (spies on np.corrcoef and poisson_entropy); np.corrcoef and "
                    "poisson_entropy themselves are oracles there (C13 covers poisson_entropy)",
                    "harness/props/C10.py: the property predicate is evaluated directly on the implementation "
                    "(transform the arguments, call again, compare within 1e-9 relative to max(1,|value|))",
                    "purity is a run-time observation: argument arrays compared bit-for-bit before/after, repeated calls compared exactly"]
    chk.assumptions += ["tie-free continuous samples for every estimator; count samples for the Gaussian and Poisson estimators; "
                        "joint correlation matrix of the sample has condition number <= 1e5 (rounding is amplified by it)",
                        "known finding K2: the CONDITIONAL Poisson estimator is not symmetric under X/Y exchange nor under reordering of "
                        "Z's columns (matched on estimator, path and transformation only; row order, Z-column permutations that keep the first "
                        "column in place, and the unconditional path stay checked); formal counterparts: C10_poisson_conditional_swap_refuted, "
                        "C10_poisson_conditional_zorder_refuted, replayed on the implementation on every run"]
    quick = chk.tier == "quick"

    # estimator table: name -> (callable(X, Y, Z-or-None, **settings), settings sampler, data kind)
    def settings_for(name, N):
        if name == "knn":
            return {"metric": str(rng.choice(list(METRICS))), "k": int(rng.integers(1, min(8, N - 2) + 1))}
        if name == "geometric_knn":
            return {"k": int(rng.choice([1, 2, 3, 3, 4, 6]))}      # incl. the dispatcher's default 6 and k >= 3 (shared neighbourhoods)
        if name == "kde":
            return {"bandwidth": (str(rng.choice(["silverman", "scott"])) if rng.random() < 0.6 else float(rng.uniform(0.2, 2.0)))}
        return {}

    direct = {
        "gaussian": lambda X, Y, Z, **s: (cm.gaussian_conditional_mutual_information(X, Y, Z) if Z is not None
                                           else mi.gaussian_mutual_information(X, Y)),
        "knn": lambda X, Y, Z, **s: (cm.knn_conditional_mutual_information(X, Y, Z, **s) if Z is not None
                                      else mi.knn_mutual_information(X, Y, **s)),
        "kde": lambda X, Y, Z, **s: (cm.kde_conditional_mutual_information(X, Y, Z, **s) if Z is not None
                                      else mi.kde_mutual_information(X, Y, **s)),
        "geometric_knn": lambda X, Y, Z, **s: (cm.geometric_knn_conditional_mutual_information(X, Y, Z, **s) if Z is not None
                                                else mi.geometric_knn_mutual_information(X, Y, **s)),
        "poisson": lambda X, Y, Z, **s: cm.poisson_conditional_mutual_information(X, Y, Z),
    }

    def call(name, via, X, Y, Z, s):
        with np.errstate(all="ignore"), lib.quiet():
            if via == "dispatcher":
                return float(cm.conditional_mutual_information(X, Y, Z, method=name, **s))
            if via == "cond_entry" and Z is None:
                f = {"gaussian": cm.gaussian_conditional_mutual_information, "knn": cm.knn_conditional_mutual_information,
                     "kde": cm.kde_conditional_mutual_information, "geometric_knn": cm.geometric_knn_conditional_mutual_information,
                     "poisson": cm.poisson_conditional_mutual_information}[name]
                return float(f(X, Y, None, **s))     # (geometric_knn: s is empty on this route, see K1 of C09)
            return float(direct[name](X, Y, Z, **s))

    n_per = {"gaussian": 60, "knn": 50, "kde": 30, "geometric_knn": 14, "poisson": 60} if quick else \
            {"gaussian": 3000, "knn": 2500, "kde": 1200, "geometric_knn": 250, "poisson": 3000}
    pc_cases, pc_pf, pc_desc, pc_match = [], [], [], []

    KNOWN_T = ("swap_xy", "zcol_perm")

    def pc_sample(kx, ky, kz, route, orders, desc, predicates=()):
        """orders: label -> (X', Y', Z', variable order new->old, value seen without spies or None).  The first entry is the original call;
        its recorded correlation matrix is the one every call of this sample hands to the model.  One Coq case per sample."""
        R0, calls, fails, variants = None, [], [], []
        for label, (a, b, c, order, seen) in orders.items():
            a, b, c = np.ascontiguousarray(a), np.ascontiguousarray(b), np.ascontiguousarray(c)
            if route == "dispatcher":
                f = lambda: cm.conditional_mutual_information(a, b, c, method="poisson")
            else:
                f = lambda: cm.poisson_conditional_mutual_information(a, b, c)
            v, raised, rec = spy(f)
            if R0 is None:
                R0 = rec["R"][0] if len(rec["R"]) == 1 and np.all(np.isfinite(rec["R"][0])) else None
                v_orig = v
            term = pcmi_call(label == "swap_xy", order, raised, rec["pe"], v) if (R0 is not None and len(rec["R"]) == 1) else None
            if term is None:    # nothing comparable was recorded (no / several corrcoef calls, non-finite numbers): a call the model rejects
                term = pcmi_call(False, list(range(kx + ky + kz)), "unrecordable" if kx == ky else None, [], 0.0)
            calls.append(term)
            if seen is not None and not (v == seen or (math.isnan(v) and math.isnan(seen))):
                fails.append(("repeat", f"poisson estimator ({route}, Z present) returned {seen} and then {v} for equal arguments ({label})"))
            elif label in predicates and raised is None and not close(v_orig, v):
                fails.append((label, f"poisson estimator ({route}, Z present): value {v_orig} becomes {v} after {label}"))
            variants.append({"variant": label, "variable_order_new_to_old": order, "value": v, "raised": raised,
                             "poisson_entropy_calls": rec["pe"]})
            chk.count(f"poisson_conditional_model.{label}")
            if raised is not None:
                chk.count("poisson_conditional_model.raised_ValueError")
        M = R0 if R0 is not None else np.eye(kx + ky + kz)
        pc_cases.append(f"({kx}%nat, {ky}%nat, {kz}%nat, {qmat(M.tolist())}, {qlit(RATE_TOL)}, {qlit(VALUE_TOL)}, {coq_list(calls)})")
        fails.sort(key=lambda lf: lf[0] in KNOWN_T)       # a failure that is not one of the two known findings comes first
        pc_pf.append(fails[0][1] if fails else None)
        pc_match.append({"site": "poisson/Z present", "transform": fails[0][0] if fails else None})
        pc_desc.append(dict(desc, corrcoef_of_original_call=M.tolist(), calls=variants))
        for lab, what in fails[1:]:      # further known-finding failures of the same sample (they only mark the finding as hit)
            if lab in KNOWN_T:
                chk.violation("counterexample", what, dict(desc, transform=lab), {"site": "poisson/Z present", "transform": lab})

    knn_cases, knn_pf, knn_desc = [], [], []
    pm_cases, pm_pf, pm_desc = [], [], []
    for name, n_samples in n_per.items():
        for t in range(n_samples):
            counts = (name == "poisson") or (name == "gaussian" and rng.random() < 0.4)
            N = int(rng.integers(12, 41)) if name != "geometric_knn" else int(rng.integers(12, 25))
            kx, ky = int(rng.integers(1, 3)), int(rng.integers(1, 3))
            cond = rng.random() < 0.65
            kz = int(rng.integers(1, 4)) if cond else 0
            if name == "poisson" and cond:
                ky = kx          # the conditional Poisson estimator only accepts equally wide X and Y blocks
            scale = None
            if counts:
                base = rng.poisson(3.0, (N, kx + ky + kz)).astype(float)
                base[:, kx:kx + ky] += rng.poisson(1.0, (N, ky)) * base[:, :1]
                W = base
            elif name == "knn":      # dyadic grid: the Coq model evaluates these exactly
                sbits = int(rng.integers(10, 21))
                grid = 2 ** sbits
                Wi = rng.integers(-4 * grid, 4 * grid, (N, kx + ky + kz))
                Wi[:, kx:kx + ky] = Wi[:, kx:kx + ky] // 3 + Wi[:, :1]
                scale = grid
                if rng.random() < 0.3:        # tiny amplitudes (1e-6 .. 1e-12): an unordered sample at any physical scale
                    scale = grid * 2 ** int(rng.integers(20, 41))
                    chk.count("knn.tiny_amplitude")
                W = Wi / scale
            else:
                d = kx + ky + kz
                W = rng.normal(size=(N, d)) @ (np.eye(d) + 0.6 * rng.normal(size=(d, d))) + rng.normal(size=(1, d)) * 3
                if name == "gaussian" and kz >= 2 and rng.random() < 0.3:
                    # two nearly (not exactly) collinear conditioning columns, r between 1 - 1e-3 and 1 - 1e-7: still an unordered list of
                    # conditioning variables (samples whose joint condition number exceeds 1e5 are skipped below, as everywhere)
                    W[:, kx + ky + 1] = W[:, kx + ky] + 10.0 ** rng.uniform(-3.5, -1.5) * W[:, kx + ky].std() * rng.normal(size=N)
                    chk.count("gaussian.near_collinear_Z_columns")
                if name != "geometric_knn" and rng.random() < 0.35:
                    # any means / scales: offsets up to 1e6 times the spread, mixed column scales.  (Not for the geometric estimator:
                    # its local SVDs lose digits in proportion to offset/spread, which is conditioning of the input, not a defect;
                    # its shift law is C12's subject, at C12's tolerance.)
                    W = W * 10.0 ** rng.uniform(-1, 1, (1, d)) + np.sign(rng.normal(size=(1, d))) * 10.0 ** rng.uniform(3, 6, (1, d))
                    chk.count(f"{name}.large_offset")
            # "up to rounding": near-collinear samples amplify rounding by the condition number of the joint correlation matrix
            # (a Gaussian MI of 9.85 nats means 1 - r^2 = 3e-9); such samples are outside what 1e-9 can decide (cf. C08's quantifier)
            with np.errstate(all="ignore"):
                cn = np.linalg.cond(np.corrcoef(W.T)) if W.shape[1] > 1 and np.all(W.std(axis=0) > 0) else 1.0
            if not np.isfinite(cn) or cn > 1e5:
                chk.count("skipped.ill_conditioned_sample")
                continue
            X, Y, Z = W[:, :kx].copy(), W[:, kx:kx + ky].copy(), (W[:, kx + ky:].copy() if cond else None)
            if counts and (np.any(X.std(axis=0) == 0) or np.any(Y.std(axis=0) == 0) or (cond and np.any(Z.std(axis=0) == 0))):
                continue
            s = settings_for(name, N)
            via = str(rng.choice(["direct", "direct", "dispatcher", "cond_entry"]))
            if via == "cond_entry" and cond:
                via = "direct"
            if name == "geometric_knn" and not cond:
                s = {}           # the unconditional route through the conditional entry ignores settings (K1); keep defaults everywhere
            keep = (X.copy(), Y.copy(), None if Z is None else Z.copy())
            try:
                v0 = call(name, via, X, Y, Z, s)
            except Exception as e:      # the estimator rejects this input altogether: outside the property
                chk.count(f"{name}.rejected_input.{type(e).__name__}")
                continue
            v0b = call(name, via, X, Y, Z, s)
            desc = {"estimator": name, "via": via, "settings": s, "conditional": cond, "counts": bool(counts), "N": N,
                    "X": X.tolist(), "Y": Y.tolist(), "Z": None if Z is None else Z.tolist(), "value": v0}
            chk.case(key=(name, via, W.tobytes(), repr(sorted(s.items())), cond), nontrivial=math.isfinite(v0) and v0 != 0.0,
                     sample=desc if N <= 12 and len(chk.samples) < 3 else None)
            chk.count(f"{name}.samples")
            chk.count(f"{name}.{'cond' if cond else 'uncond'}")
            chk.count(f"via.{via}")
            if not math.isfinite(v0):
                chk.count(f"{name}.nonfinite_skipped")
                continue
            # --- purity
            if not (np.array_equal(X, keep[0]) and np.array_equal(Y, keep[1]) and (Z is None or np.array_equal(Z, keep[2]))):
                chk.violation("counterexample", f"{name} estimator ({via}) modified its argument arrays", desc,
                              {"site": f"{name}/{'Z present' if cond else 'Z absent'}", "transform": "purity"})
                X, Y, Z = keep[0].copy(), keep[1].copy(), (None if keep[2] is None else keep[2].copy())
            if not (v0 == v0b):
                chk.violation("counterexample", f"{name} estimator ({via}) returned {v0} and then {v0b} for equal arguments", desc,
                              {"site": f"{name}/{'Z present' if cond else 'Z absent'}", "transform": "repeat"})
            # --- transformations
            perm = rng.permutation(N)
            if rng.random() < 0.3:
                # the SAME array objects, rows jointly re-ordered IN PLACE, estimated again (and restored afterwards)
                Xo, Yo, Zo = X.copy(), Y.copy(), (None if Z is None else Z.copy())
                X[:] = Xo[perm]
                Y[:] = Yo[perm]
                if Z is not None:
                    Z[:] = Zo[perm]
                v_ip = call(name, via, X, Y, Z, s)
                X[:], Y[:] = Xo, Yo
                if Z is not None:
                    Z[:] = Zo
                chk.count("transform.row_perm_in_place_same_objects")
                if not close(v0, v_ip):
                    chk.violation("counterexample", f"{name} estimator ({via}, {'Z present' if cond else 'Z absent'}): value {v0} becomes {v_ip} after "
                                  f"re-ordering the rows of the same argument arrays in place", dict(desc, transform="row_perm_in_place",
                                                                                                   row_permutation=perm.tolist(), transformed_value=v_ip),
                                  {"site": f"{name}/{'Z present' if cond else 'Z absent'}", "transform": "row_perm"})
            tiny = (name == "knn" and scale is not None and scale > 2 ** 22)
            if not counts and not tiny and name in ("knn", "geometric_knn", "kde", "gaussian") and rng.random() < (0.6 if name == "geometric_knn" else 0.25):
                # (not for tiny-amplitude samples: integer ranks of size N beside coordinates of size 1e-9 make the joint distances tie
                # in floating point -- rank differences swallow the other coordinates -- and tied samples are outside the property)
                # mixed storage types: X as tie-free integer ranks or float32, Y / Z float64 -- the roles of X and Y must still be exchangeable
                kind_ = str(rng.choice(["int_ranks", "float32"]))
                Xm = (np.argsort(np.argsort(X, axis=0), axis=0).astype(np.int64) if kind_ == "int_ranks" else X.astype(np.float32))
                Xm64 = Xm.astype(np.float64)
                try:
                    va = call(name, via, Xm, Y, Z, s)
                    vb = call(name, via, Y, Xm, Z, s)
                    chk.count("transform.mixed_dtype_swap")
                    for lab, w in (("X/Y exchange", vb),):
                        if math.isfinite(va) and not close(va, w):
                            chk.violation("counterexample", f"{name} estimator ({via}, {'Z present' if cond else 'Z absent'}) with X stored as {kind_}: "
                                          f"value {va} vs {w} under {lab}", dict(desc, X=Xm.tolist(), transform="mixed_dtype:" + lab, transformed_value=w),
                                          {"site": f"{name}/{'Z present' if cond else 'Z absent'}", "transform": "swap_xy" if lab.startswith("X/Y") else "dtype"})
                except Exception as e:
                    chk.count(f"{name}.mixed_dtype_rejected.{type(e).__name__}")
            tf = {"row_perm": (X[perm], Y[perm], None if Z is None else Z[perm]), "swap_xy": (Y, X, Z)}
            if cond and kz >= 2:
                cp = rng.permutation(kz)
                while np.array_equal(cp, np.arange(kz)):
                    cp = rng.permutation(kz)
                tf["zcol_perm"] = (X, Y, Z[:, cp])
            vals = {}
            for tname, (X2, Y2, Z2) in tf.items():
                try:
                    v1 = call(name, via, np.ascontiguousarray(X2), np.ascontiguousarray(Y2),
                              None if Z2 is None else np.ascontiguousarray(Z2), s)
                except Exception as e:
                    v1 = float("nan")
                    chk.count(f"{name}.exception_after_{tname}.{type(e).__name__}")
                vals[tname] = v1
                chk.count(f"transform.{tname}")
                if not close(v0, v1):
                    d2 = dict(desc, transform=tname, transformed_value=v1,
                              **({"row_permutation": perm.tolist()} if tname == "row_perm" else {}),
                              **({"z_column_permutation": cp.tolist()} if tname == "zcol_perm" else {}))
                    chk.violation("counterexample",
                                  f"{name} estimator ({via}, {'Z present' if cond else 'Z absent'}): value {v0} becomes {v1} after {tname}",
                                  d2, {"site": f"{name}/{'Z present' if cond else 'Z absent'}", "transform": tname})
            # --- model side: kNN on grids (exact), unconditional Poisson (rational model with recorded entropies)
            if name == "knn" and via != "dispatcher":
                Xi, Yi = np.rint(X * scale).astype(np.int64), np.rint(Y * scale).astype(np.int64)
                Zi = None if Z is None else np.rint(Z * scale).astype(np.int64)
                variants = {"orig": (Xi, Yi, Zi, v0), "row_perm": (Xi[perm], Yi[perm], None if Zi is None else Zi[perm], vals["row_perm"]),
                            "swap_xy": (Yi, Xi, Zi, vals["swap_xy"])}
                if "zcol_perm" in vals:
                    variants["zcol_perm"] = (Xi, Yi, Zi[:, cp], vals["zcol_perm"])
                for vn, (a, b, c, val) in variants.items():
                    out = f"Some {qlit(val)}" if math.isfinite(val) else "None"
                    knn_cases.append(f"({METRICS[s['metric']]}, {s['k']}%nat, {coq_bool(cond)}, {rows_term(a, b, c)}, {out}, {qlit(1e-9)})")
                    knn_pf.append(None)
                    knn_desc.append(dict(desc, variant=vn, variant_value=val))
            if name == "poisson" and not cond and via != "dispatcher":
                for vn, (a, b) in {"orig": (X, Y), "swap_xy": (Y, X)}.items():
                    R = np.corrcoef(a.T, b.T)
                    n = R.shape[0]
                    Rf = [[Fraction(float(R[i, j])) for j in range(n)] for i in range(n)]
                    off = [sum(Rf[j][i] for j in range(n)) - Rf[i][i] for i in range(n)]
                    dgv = [Rf[i][i] - off[i] for i in range(n)]
                    hd = [float(np.asarray(poisson_entropy(float(abs(x)))).reshape(-1)[0]) for x in dgv]
                    hm = [float(np.asarray(poisson_entropy(float(abs(dgv[i] + off[i])))).reshape(-1)[0]) for i in range(n)]
                    val = v0 if vn == "orig" else vals["swap_xy"]
                    pm_cases.append(f"({qmat(R.tolist())}, {qlist(hd)}, {qlist(hm)}, {qlit(val)}, {qlit(1e-9)})")
                    pm_pf.append(None)
                    pm_desc.append(dict(desc, variant=vn, variant_value=val, corrcoef=R.tolist()))
            # conditional Poisson (Model/PoissonCMI.v): the same calls again under the spies; every transformed call must be the model on
            # the ORIGINAL call's correlation matrix with the variables re-indexed
            if name == "poisson" and cond:
                orders = {"orig": (X, Y, Z, list(range(kx + ky + kz)), v0),
                          "row_perm": (X[perm], Y[perm], Z[perm], list(range(kx + ky + kz)), vals["row_perm"]),
                          "swap_xy": (Y, X, Z, [kx + i if i < ky else (i - ky if i < kx + ky else i) for i in range(kx + ky + kz)], vals["swap_xy"])}
                if "zcol_perm" in vals:
                    orders["zcol_perm"] = (X, Y, Z[:, cp], list(range(kx + ky)) + [kx + ky + int(c) for c in cp], vals["zcol_perm"])
                pc_sample(kx, ky, kz, via, orders, desc)
    # ---- large samples (beyond any internal block size): row order and X/Y roles for the fast estimators
    for t in range(6 if quick else 120):
        name = ["knn", "gaussian", "knn"][t % 3]
        N = int(rng.choice([1025, 1100, 1500, 2049, 2500])) if t % 2 == 0 else int(rng.integers(1026, 2600))
        kx, ky = int(rng.integers(1, 3)), int(rng.integers(1, 3))
        cond = t % 4 >= 2
        kz = 2 if cond else 0
        d = kx + ky + kz
        W = rng.normal(size=(N, d)) @ (np.eye(d) + 0.5 * rng.normal(size=(d, d)))
        if np.linalg.cond(np.corrcoef(W.T)) > 1e5:
            chk.count("skipped.ill_conditioned_sample")
            continue
        X, Y, Z = W[:, :kx].copy(), W[:, kx:kx + ky].copy(), (W[:, kx + ky:].copy() if cond else None)
        s_ = {"metric": "euclidean", "k": int(rng.integers(1, 6))} if name == "knn" else {}
        v0 = call(name, "direct", X, Y, Z, s_)
        perm = rng.permutation(N)
        tfs = {"row_perm": (X[perm], Y[perm], None if Z is None else Z[perm]), "row_reverse": (X[::-1], Y[::-1], None if Z is None else Z[::-1]),
               "swap_xy": (Y, X, Z)}
        chk.case(key=("large", name, W.tobytes(), cond), nontrivial=True)
        chk.count("large_N.samples")
        for tname, (X2, Y2, Z2) in tfs.items():
            v1 = call(name, "direct", np.ascontiguousarray(X2), np.ascontiguousarray(Y2), None if Z2 is None else np.ascontiguousarray(Z2), s_)
            if not close(v0, v1):
                chk.violation("counterexample", f"{name} estimator (N={N}, {'Z present' if cond else 'Z absent'}): value {v0} becomes {v1} after {tname}",
                              {"estimator": name, "settings": s_, "N": N, "conditional": cond, "transform": tname, "seed_stream": "large_N",
                               "value": v0, "transformed_value": v1, "how": f"rows generated in harness/props/C10.py large-N stream, index {t}"},
                              {"site": f"{name}/{'Z present' if cond else 'Z absent'}", "transform": tname})
    # ---- conditional Poisson, all block widths 1..3 x 1..3 x 1..4 (unequal X / Y widths: the code raises ValueError and the model says
    #      so), both routes; drawn after every other stream so that the earlier streams are the ones of the previous version of this check
    for t in range(30 if quick else 1500):
        kx = int(rng.integers(1, 4))
        ky = kx if rng.random() < 0.8 else int(rng.integers(1, 4))
        kz = int(rng.integers(1, 5))
        N = int(rng.integers(12, 41))
        d = kx + ky + kz
        W = rng.poisson(float(rng.uniform(1.0, 6.0)), (N, d)).astype(float)
        W[:, kx:kx + ky] += rng.poisson(1.0, (N, ky)) * W[:, :1]
        if rng.random() < 0.5:
            W[:, kx + ky:] += rng.poisson(0.7, (N, kz)) * W[:, kx:kx + 1]
        if np.any(W.std(axis=0) == 0):
            continue
        X, Y, Z = W[:, :kx].copy(), W[:, kx:kx + ky].copy(), W[:, kx + ky:].copy()
        route = "dispatcher" if t % 3 == 0 else "direct"
        perm = rng.permutation(N)
        ident = list(range(d))
        orders = {"orig": (X, Y, Z, ident, None), "row_perm": (X[perm], Y[perm], Z[perm], ident, None),
                  "swap_xy": (Y, X, Z, [kx + i if i < ky else (i - ky if i < kx + ky else i) for i in range(d)], None)}
        if kz >= 2:
            cp = rng.permutation(kz)
            while np.array_equal(cp, np.arange(kz)):
                cp = rng.permutation(kz)
            orders["zcol_perm"] = (X, Y, Z[:, cp], ident[:kx + ky] + [kx + ky + int(c) for c in cp], None)
        if kz >= 3:     # a re-ordering of Z's columns that keeps the first one in place: the theorem says the estimate IS invariant
            cq = np.concatenate(([0], 1 + rng.permutation(kz - 1)))
            while np.array_equal(cq, np.arange(kz)):
                cq = np.concatenate(([0], 1 + rng.permutation(kz - 1)))
            orders["zcol_perm_first_column_fixed"] = (X, Y, Z[:, cq], ident[:kx + ky] + [kx + ky + int(c) for c in cq], None)
        if kx == ky and kx >= 3:   # X and Y columns re-ordered together, first pair in place (not a clause of the property; model only)
            cx = np.concatenate(([0], 1 + rng.permutation(kx - 1)))
            orders["xy_paired_perm_first_pair_fixed"] = (X[:, cx], Y[:, cx], Z, [int(c) for c in cx] + [kx + int(c) for c in cx] + ident[kx + ky:], None)
        desc = {"estimator": "poisson", "via": route, "conditional": True, "counts": True, "N": N, "stream": "poisson_conditional_widths",
                "X": X.tolist(), "Y": Y.tolist(), "Z": Z.tolist()}
        pc_sample(kx, ky, kz, route, orders, desc,
                  predicates=("row_perm", "swap_xy", "zcol_perm", "zcol_perm_first_column_fixed") if kx == ky else ())
        chk.case(key=("pcw", route, W.tobytes(), kx, ky, kz), nontrivial=(kx == ky), sample=None)
        chk.count("poisson_conditional_widths.samples")
        chk.count(f"poisson_conditional_widths.kx{kx}_ky{ky}")
    # geometric estimator on longer low-dimensional samples with k >= 3 (many points share their (k+1)-point neighbourhood with a
    # neighbour): sample order only
    for t in range(6 if quick else 120):
        N = int(rng.integers(60, 121))
        kk = int(rng.choice([3, 4, 6]))
        W = rng.normal(size=(N, 3)) @ (np.eye(3) + 0.5 * rng.normal(size=(3, 3)))
        X, Y, Z = W[:, :1].copy(), W[:, 1:2].copy(), (W[:, 2:].copy() if t % 3 else None)
        via = ["direct", "dispatcher"][t % 2]
        s_ = {"k": kk} if Z is not None else {}
        try:
            v0 = call("geometric_knn", via, X, Y, Z, s_)
            perm = rng.permutation(N) if t % 2 else np.arange(N)[::-1]
            v1 = call("geometric_knn", via, X[perm], Y[perm], None if Z is None else Z[perm], s_)
        except Exception as e:
            chk.count(f"geometric_long.rejected.{type(e).__name__}")
            continue
        chk.case(key=("geo_long", W.tobytes(), kk, via, Z is None), nontrivial=True)
        chk.count("geometric_knn.long_low_dimensional_samples")
        if math.isfinite(v0) and not close(v0, v1):
            chk.violation("counterexample", f"geometric_knn estimator ({via}, {'Z present' if Z is not None else 'Z absent'}, k={kk}, N={N}): value {v0} "
                          f"becomes {v1} after jointly re-ordering the rows",
                          {"estimator": "geometric_knn", "via": via, "settings": s_, "X": X.tolist(), "Y": Y.tolist(),
                           "Z": None if Z is None else Z.tolist(), "row_permutation": perm.tolist(), "value": v0, "transformed_value": v1},
                          {"site": f"geometric_knn/{'Z present' if Z is not None else 'Z absent'}", "transform": "row_perm"})
    # purity on samples far from the origin (offset 1e3 .. 1e6 x spread), every estimator incl. the geometric one and its entropy function:
    # only "equal arguments give equal results and the argument arrays are not modified" is checked here (no invariance comparison)
    from scipy.spatial.distance import cdist as _cdist
    from causationentropy.core.information.entropy import geometric_knn_entropy as _gke
    for t in range(20 if quick else 400):
        name = ["geometric_knn", "geometric_knn", "knn", "kde", "gaussian"][t % 5]
        N = int(rng.integers(12, 25))
        kx, ky, kz = int(rng.integers(1, 3)), int(rng.integers(1, 3)), int(rng.integers(1, 3))
        d = kx + ky + kz
        W = rng.normal(size=(N, d)) + np.sign(rng.normal(size=(1, d))) * 10.0 ** rng.uniform(3, 6, (1, d))
        cond = bool(t % 2)
        X, Y, Z = W[:, :kx].copy(), W[:, kx:kx + ky].copy(), (W[:, kx + ky:].copy() if cond else None)
        keep = (X.copy(), Y.copy(), None if Z is None else Z.copy())
        via = ["direct", "dispatcher"][(t // 5) % 2]
        s_ = settings_for(name, N) if (cond or name != "geometric_knn") else {}
        try:
            v1 = call(name, via, X, Y, Z, s_)
            v2 = call(name, via, X, Y, Z, s_)
            if name == "geometric_knn":
                with np.errstate(all="ignore"), lib.quiet():
                    _gke(X, _cdist(X, X), 1)
        except Exception as e:
            chk.count(f"purity_far.rejected.{type(e).__name__}")
            continue
        chk.case(key=("purity_far", name, W.tobytes(), via, cond), nontrivial=True)
        chk.count(f"purity_far.{name}")
        dsc = {"estimator": name, "via": via, "conditional": cond, "settings": s_, "X": keep[0].tolist(), "Y": keep[1].tolist(),
               "Z": None if keep[2] is None else keep[2].tolist()}
        if not (np.array_equal(X, keep[0]) and np.array_equal(Y, keep[1]) and (Z is None or np.array_equal(Z, keep[2]))):
            chk.violation("counterexample", f"{name} estimator ({via}) modified its argument arrays (sample far from the origin: column means "
                          f"{np.abs(keep[0].mean(axis=0)).max():.3g})", dsc, {"site": f"{name}/{'Z present' if cond else 'Z absent'}", "transform": "purity"})
        elif not (v1 == v2 or (math.isnan(v1) and math.isnan(v2))):
            chk.violation("counterexample", f"{name} estimator ({via}) returned {v1} and then {v2} for equal arguments", dsc,
                          {"site": f"{name}/{'Z present' if cond else 'Z absent'}", "transform": "repeat"})
    lib.correspond(chk, "poisson_conditional_model_on_original_and_transformed", IMPORTS, PCMI_TYPE, "check_pcmi_case",
                   pc_cases, pc_pf, lambda i: pc_desc[i], shard=12 if quick else 60, jobs=8, match_of=lambda i: pc_match[i])
    # ---- replay of the witness of C10_poisson_conditional_swap_refuted / _zorder_refuted (K2a / K2b): an 8-row count sample (Hadamard
    #      contrasts) whose correlation matrix is Model/PoissonCMI.v `witness`: [[1,0,1/2,0],[0,1,0,0],[1/2,0,1,0],[0,0,0,1]], k_x = k_y = 1, k_z = 2
    Hd = np.array([[1 if bin(i & j).count("1") % 2 == 0 else -1 for j in range(8)] for i in range(8)])
    e1, e2, e3 = Hd[:, 4], Hd[:, 2], Hd[:, 1]
    Ws = np.column_stack([e1 + 1, e2 + 1, e1 + e3 + e1 * e2 + e1 * e3 + 4, e2 * e3 + 1]).astype(float)
    wit_cases, wit_pf, wit_desc, wit_match = [], [], [], []
    Xw, Yw, Zw = Ws[:, :1], Ws[:, 1:2], Ws[:, 2:]
    for route in ("direct", "dispatcher"):
        v_first = None
        for label, (a, b, c, order) in {"orig": (Xw, Yw, Zw, [0, 1, 2, 3]), "swap_xy": (Yw, Xw, Zw, [1, 0, 2, 3]),
                                        "zcol_perm": (Xw, Yw, Zw[:, ::-1], [0, 1, 3, 2])}.items():
            a, b, c = np.ascontiguousarray(a), np.ascontiguousarray(b), np.ascontiguousarray(c)
            f = (lambda: cm.conditional_mutual_information(a, b, c, method="poisson")) if route == "dispatcher" else \
                (lambda: cm.poisson_conditional_mutual_information(a, b, c))
            v, raised, rec = spy(f)
            ok = raised is None and math.isfinite(v) and len(rec["R"]) == 1 and rec["R"][0].shape == (4, 4) and np.all(np.isfinite(rec["R"][0]))
            Rw = rec["R"][0] if ok else np.full((4, 4), 7.0)
            wit_cases.append(f"({nlist(order)}, {lib.zmat(Ws.astype(int).tolist())}, {qmat(Rw.tolist())}, {qlit(v if ok else 0.0)}, "
                             f"{qlit(RATE_TOL)}, {qlit(1e-8)})")
            if label == "orig":
                v_first = v
            wit_pf.append(None if label == "orig" or close(v_first, v) else
                          f"poisson estimator ({route}, Z present): value {v_first} becomes {v} after {label} (witness sample of the _refuted theorems)")
            wit_match.append({"site": "poisson/Z present", "transform": label})
            wit_desc.append({"estimator": "poisson", "via": route, "conditional": True, "variant": label, "X": a.tolist(), "Y": b.tolist(),
                             "Z": c.tolist(), "value": v, "raised": raised, "corrcoef": Rw.tolist()})
            chk.count("poisson_conditional_witness.calls")
        chk.case(key=("witness", route), nontrivial=True)
    lib.correspond(chk, "poisson_conditional_witness_replay", IMPORTS, "list nat * list (list Z) * list (list Q) * Q * Q * Q", "check_witness_case",
                   wit_cases, wit_pf, lambda i: wit_desc[i], shard=10, jobs=1, match_of=lambda i: wit_match[i])
    lib.correspond(chk, "knn_model_on_original_and_transformed", IMPORTS,
                   "metric * nat * bool * list (list Z * list Z * list Z) * option Q * Q", "check_knn_case",
                   knn_cases, knn_pf, lambda i: knn_desc[i], shard=30, jobs=10)
    lib.correspond(chk, "poisson_unconditional_model_on_original_and_swapped", IMPORTS,
                   "list (list Q) * list Q * list Q * Q * Q", "check_pmi_case",
                   pm_cases, pm_pf, lambda i: pm_desc[i], shard=60, jobs=4)
    chk.rule = ("Per estimator (gaussian, knn, kde, geometric_knn, poisson): N 12..40, X/Y widths 1..2, Z absent or 1..3 columns; tie-free "
                "continuous samples (affine-mixed normals; dyadic grids for kNN), count samples for Gaussian (40%) and Poisson; settings: k, "
                "three metrics, bandwidth rule/number; through the estimator functions, the Z=None branch of the conditional entry points and "
                "the dispatcher. Transformations: a random joint row permutation, X/Y exchange, a non-identity Z column permutation (k_z>=2); "
                "the value must be unchanged within 1e-9 relative to max(1,|value|). Purity: arguments bit-identical after the call, repeated "
                "call exactly equal. The kNN model (exact) and the unconditional Poisson model are re-evaluated inside Coq on original and "
                "transformed inputs. Conditional Poisson: every such sample of the main stream plus a stream of count samples with block widths "
                "1..3 x 1..3 x 1..4 (80% k_x = k_y; unequal widths must raise ValueError), N 12..40, direct and dispatcher routes, is run again under "
                "spies on np.corrcoef / poisson_entropy for the original, row-permuted, X/Y-exchanged, Z-permuted, Z-permuted-with-first-column-fixed "
                "(k_z>=3, a property clause) and paired-X/Y-permuted (k>=3) calls; Model/PoissonCMI.v on the original call's matrix must reproduce the "
                "recorded entropy arguments (multiset, 1e-12) and the value (1e-9); the 8-row witness sample of the refutation theorems is replayed. "
                "Distinct = distinct data/settings/route; non-trivial = finite non-zero estimate.")
