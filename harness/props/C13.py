"""C13 -- Poisson entropy is the true Poisson entropy, element by element."""
import math
from fractions import Fraction

import numpy as np

import lib
import translate_est
from lib import qlit, qlist, qmat, coq_list, coq_bool, zlit

IMPORTS = ("From Coq Require Import List ZArith QArith Bool.\nImport ListNotations.\n"
           "From CE Require Import Model.Harness Model.Poisson.\n")
TOL = 1e-9


def dyl(xs):
    out = []
    for x in xs:
        m, e = math.frexp(float(x))
        out.append(f"({int(m * 2 ** 53)}, {e - 53})%Z")
    return coq_list(out)


def ref_entropy(lam):
    """log-space evaluation of -sum p_k ln p_k with a long truncation (search oracle, not a proof)"""
    lam = abs(float(lam))
    if lam == 0:
        return 0.0
    hi = int(lam + 40 * math.sqrt(lam + 1) + 60)
    s = 0.0
    for k in range(0, hi):
        q = -lam + k * math.log(lam) - math.lgamma(k + 1)
        if q > -745:
            s -= math.exp(q) * q
    return s


class PmfSpy:
    def __enter__(self):
        import scipy.stats
        self.obj = scipy.stats.poisson
        self.orig = self.obj.pmf
        self.calls = []

        def pmf(k, mu, *a, **kw):
            r = self.orig(k, mu, *a, **kw)
            self.calls.append((int(k), np.array(r, dtype=float).reshape(-1).copy()))
            return r
        self.obj.pmf = pmf
        return self

    def __exit__(self, *e):
        del self.obj.pmf
        return False


def left_table(lams, calls):
    """recompute the float partial sums exactly as the loop does; left[j][m] = (1 - Psum_j > 1e-16) after terms 0..m"""
    Psum = np.exp(-lams)
    rows = [(1 - Psum) > 1e-16]
    for _, prob in calls:
        Psum = Psum + prob
        rows.append((1 - Psum) > 1e-16)
    return np.array(rows).T


def run(chk):
    from causationentropy.core.information.entropy import poisson_entropy, poisson_joint_entropy
    rng = np.random.default_rng(chk.seed)
    chk.theorems()
    lib.translator_lemma(chk, "poisson_joint_facts", translate_est.poisson_joint_facts, translate_est.coq_poisson_joint_facts, "")
    chk.trusted += ["Coq 8.16.1 kernel + vm_compute; Coq-Interval (BigZ floats, 80 bits) for the truncated entropy enclosure",
                    "harness/props/C13.py: spy on scipy.stats.poisson.pmf, float partial sums recomputed with the loop's own operations",
                    "scipy pmf / xlogy accuracy and float summation error are covered by the 1e-9 tolerance, not by proof",
                    "the tail beyond the implementation's stopping index is checked numerically (log-space reference), not proved"]
    chk.assumptions += ["0 <= |lambda| <= 500"]

    forced = [500.0, 463.0, 300.0, 257.5, 128.0]      # every run meets the longest series (hundreds of terms)

    def rate():
        if forced:
            return forced.pop()
        r = rng.random()
        if r < 0.08:
            return 0.0
        if r < 0.2:
            return float(rng.integers(1, 501))
        if r < 0.3:
            return float(10.0 ** rng.uniform(-300, -16))
        return float(10.0 ** rng.uniform(-16, math.log10(500)))
    # ---------------------------------------------------------------- scalar calls
    n_sc = 110 if chk.tier == "quick" else 3000
    n_itv = 28 if chk.tier == "quick" else 250
    ec, ep, ed = [], [], []
    fc, fd = [], []
    tc, tp, td = [], [], []
    for t in range(n_sc):
        lam = rate()
        sign = -1.0 if rng.random() < 0.2 else 1.0
        with PmfSpy() as spy:
            v = float(np.asarray(poisson_entropy(sign * lam)).reshape(-1)[0])
        K = len(spy.calls)
        ref = ref_entropy(lam)
        fail = None
        if not np.isfinite(v):
            fail = f"poisson_entropy({sign * lam}) = {v}"
        elif abs(v - ref) > TOL:
            fail = f"poisson_entropy({sign * lam}) = {v} but the Poisson({lam}) entropy is {ref}"
        elif lam == 0 and v != 0:
            fail = f"entropy at rate 0 is {v}"
        if t < n_itv or (fail and len(ec) < n_itv + 5):
            if lam > 0:
                f = Fraction(lam)
                fv = Fraction(v)
                ec.append(f"({zlit(f.numerator)}, {zlit(f.denominator)}, {K}%nat, {zlit(fv.numerator)}, {zlit(fv.denominator)}, 1, 1000000000)%Z")
                ep.append(fail)
                ed.append({"call": "poisson_entropy(scalar)", "rate": sign * lam, "terms_summed": K + 1, "returned": v, "reference": ref})
                # complete certificate: K' with 2 lam <= K'+1 and p_K' <= 1e-18 (chosen here, CHECKED inside Coq)
                Kf = max(K, int(math.ceil(2 * lam)) - 1, 1)
                while -lam + Kf * math.log(lam) - math.lgamma(Kf + 1) > math.log(5e-19):
                    Kf += 1
                fc.append(f"({zlit(f.numerator)}, {zlit(f.denominator)}, {Kf}%nat, {zlit(fv.numerator)}, {zlit(fv.denominator)})%Z")
                fd.append({"call": "poisson_entropy(scalar)", "rate": sign * lam, "terms_in_certificate": Kf + 1, "returned": v, "reference": ref})
        elif fail:
            chk.violation("counterexample", fail, {"call": "poisson_entropy(scalar)", "rate": sign * lam, "returned": v, "reference": ref})
        # termination logic on the recorded pmf table
        lams = np.array([lam])
        lt = left_table(lams, spy.calls)
        tc.append(f"({qlist([lam])}, {coq_list([coq_list([coq_bool(b) for b in row]) for row in lt])}, "
                  f"{coq_list([dyl([c[1][0] for c in spy.calls])])}, {K}%nat)")
        tp.append(None)
        td.append({"call": "poisson_entropy(scalar)", "rate": sign * lam, "pmf_evaluations": K})
        chk.case(key=("s", sign * lam), nontrivial=lam > 0, sample=ed[-1] if ed and len(chk.samples) < 2 else None)
        chk.count("scalar.calls")
        chk.count("scalar.tiny" if 0 < lam < 1e-16 else "scalar.zero" if lam == 0 else "scalar.regular")
    # ---------------------------------------------------------------- vector / matrix calls of mixed magnitude
    n_vec = 90 if chk.tier == "quick" else 3000
    for t in range(n_vec):
        m = int(rng.integers(2, 9))
        lams = np.array([rate() * (-1 if rng.random() < 0.15 else 1) for _ in range(m)])
        shape = str(rng.choice(["vector", "matrix", "list"]))
        if rng.random() < 0.25:            # integer-typed rates (vectors, 1 x m and m x 1 matrices, lists of ints)
            lams = np.array([float(rng.integers(0, 60)) * (-1 if rng.random() < 0.15 else 1) for _ in range(m)])
            shape = str(rng.choice(["int_vector", "int_matrix", "int_column", "int_list"]))
        arg = {"list": lambda: lams.tolist(), "matrix": lambda: lams.reshape(1, -1), "vector": lambda: lams,
               "int_vector": lambda: lams.astype(np.int64), "int_matrix": lambda: lams.astype(np.int64).reshape(1, -1),
               "int_column": lambda: lams.astype(np.int64).reshape(-1, 1), "int_list": lambda: [int(x) for x in lams]}[shape]()
        with PmfSpy() as spy:
            out = np.asarray(poisson_entropy(arg), dtype=float)
        K = len(spy.calls)
        outb = np.broadcast_to(out.reshape(-1) if out.size == m else out.reshape(-1)[:1], (m,))
        single, Ks = [], []
        for x in lams:
            with PmfSpy() as s1:
                single.append(float(np.asarray(poisson_entropy(float(x))).reshape(-1)[0]))
            Ks.append(len(s1.calls))
        fail = None
        if not np.all(np.isfinite(outb)):
            fail = f"poisson_entropy({lams.tolist()}) = {out.tolist()} (non-finite element)"
        elif np.max(np.abs(outb - np.array(single))) > TOL:
            j = int(np.argmax(np.abs(outb - np.array(single))))
            fail = (f"poisson_entropy({lams.tolist()})[{j}] = {outb[j]} but poisson_entropy({lams[j]}) alone = {single[j]} "
                    f"(true {ref_entropy(lams[j])})")
        elif K < max(Ks):
            fail = f"the vector call summed {K + 1} terms but the scalar call of one of its elements sums {max(Ks) + 1}"
        la = np.abs(lams)
        lt = left_table(la, spy.calls)
        tc.append(f"({qlist(la.tolist())}, {coq_list([coq_list([coq_bool(b) for b in row]) for row in lt])}, "
                  f"{coq_list([dyl([c[1][j] if c[1].size == m else c[1][0] for c in spy.calls]) for j in range(m)])}, {K}%nat)")
        tp.append(fail)
        td.append({"call": f"poisson_entropy({shape})", "rates": lams.tolist(), "returned": out.reshape(-1).tolist(),
                   "element_wise": single, "pmf_evaluations": K})
        chk.case(key=("v", tuple(lams.tolist()), shape), nontrivial=True, sample=td[-1] if len(chk.samples) < 4 and m <= 3 else None)
        chk.count("vector.calls")
        chk.count("vector.mixed_magnitude" if la.max() > 1e3 * max(la.min(), 1e-300) else "vector.similar")
    # ---------------------------------------------------------------- r x c matrices of rates in every memory layout
    # (C order, Fortran order, transposed view, strided slice): the value at [i, j] is the entropy of the rate at [i, j]
    for t in range(24 if chk.tier == "quick" else 600):
        r, c = int(rng.integers(2, 5)), int(rng.integers(2, 5))
        M = np.array([[rate() if rng.random() < 0.8 else 0.0 for _ in range(c)] for _ in range(r)])
        if rng.random() < 0.25:
            M = rng.integers(0, 40, (r, c)).astype(float)
        layout = str(rng.choice(["C", "F", "transposed_view", "strided"]))
        if layout == "C":
            arg = np.ascontiguousarray(M)
        elif layout == "F":
            arg = np.asfortranarray(M)
        elif layout == "transposed_view":
            arg = np.ascontiguousarray(M.T).T
        else:
            big = np.zeros((2 * r, 2 * c))
            big[::2, ::2] = M
            arg = big[::2, ::2]
        assert np.array_equal(arg, M)
        keep = arg.copy()
        out = np.asarray(poisson_entropy(arg), dtype=float)
        chk.case(key=("m", M.tobytes(), layout), nontrivial=True)
        chk.count(f"matrix_layout.{layout}")
        rep = {"call": f"poisson_entropy({r}x{c} matrix, layout {layout})", "rates": M.tolist(), "returned": out.tolist()}
        if out.shape != (r, c):
            chk.violation("counterexample", f"poisson_entropy of a {r}x{c} matrix of rates ({layout}) returned shape {out.shape}", rep)
            continue
        single = np.array([[float(np.asarray(poisson_entropy(float(M[i, j]))).reshape(-1)[0]) for j in range(c)] for i in range(r)])
        if not np.all(np.isfinite(out)) or np.max(np.abs(out - single)) > TOL:
            i, j = np.unravel_index(int(np.argmax(np.abs(out - single))), out.shape)
            chk.violation("counterexample", f"poisson_entropy of a {r}x{c} matrix of rates stored in layout {layout}: element [{i},{j}] = {out[i, j]} "
                          f"but the entropy of the rate at that position, {M[i, j]}, alone is {single[i, j]}", {**rep, "element_wise": single.tolist()})
        if not np.array_equal(arg, keep):
            chk.violation("counterexample", f"poisson_entropy modified its {layout} argument", rep)
    lib.correspond(chk, "termination_vs_model", IMPORTS, "list Q * list (list bool) * list (list (Z * Z)) * nat", "check_terms_case",
                   tc, tp, lambda i: td[i], shard=20, jobs=10)
    lib.correspond(chk, "entropy_of_the_whole_series_certified", IMPORTS, "Z * Z * nat * Z * Z", "check_entropy_full_case",
                   fc, list(ep), lambda i: fd[i], shard=2, jobs=15, timeout=1500)      # ep: the value predicate of the same calls
    # ---------------------------------------------------------------- joint entropy
    jc, jp, jd = [], [], []
    for t in range(100 if chk.tier == "quick" else 4000):
        n = int(rng.integers(1, 7))
        C = rng.uniform(-1, 1, (n, n)) * 10.0 ** rng.integers(-3, 2, (n, n))
        if rng.random() < 0.3:
            C = (C + C.T) / 2
        C[np.diag_indices(n)] = [rate() * (-1 if rng.random() < 0.2 else 1) for _ in range(n)]
        if rng.random() < 0.2:             # integer-valued covariance-like matrices, passed with an integer dtype
            C = rng.integers(-3, 9, (n, n)).astype(float)
            arg = C.astype(np.int64)
            chk.count("joint.integer_dtype")
        else:
            arg = C if rng.random() < 0.7 else np.matrix(C)
        out = float(poisson_joint_entropy(arg))
        hs = [float(np.asarray(poisson_entropy(float(C[i, i]))).reshape(-1)[0]) for i in range(n)]
        exp = sum(hs) + sum(C[i, j] for i in range(n) for j in range(i + 1, n))
        fail = None
        if abs(out - exp) > TOL * max(1.0, abs(exp)):
            fail = (f"poisson_joint_entropy = {out} but sum of marginal entropies of the diagonal rates + strictly upper triangle = {exp}")
        jp.append(fail)
        jc.append(f"({qmat(C.tolist())}, {qlist(hs)}, {qlit(out)})")
        jd.append({"call": "poisson_joint_entropy", "matrix": C.tolist(), "returned": out, "definition": exp})
        chk.case(key=("j", C.tobytes()), nontrivial=n > 1)
        chk.count("joint.symmetric" if np.allclose(C, C.T) else "joint.nonsymmetric")
    lib.correspond(chk, "joint_entropy_vs_model", IMPORTS, "list (list Q) * list Q * Q", f"check_joint_case {qlit(1e-8)}",
                   jc, jp, lambda i: jd[i], shard=200, jobs=4)
    chk.rule = ("Rates: 0, integers 1..500, log-uniform in [1e-300, 500], negative signs; scalar calls, and vectors / 1 x m matrices / lists of "
                "2..8 rates of MIXED magnitude (each element from an independent decade) compared element-wise with scalar calls; r x c matrices of rates (incl. zeros) in C / Fortran / transposed-view / strided layouts, value at [i,j] = scalar call on the rate at [i,j]; square "
                "matrices 1..6 (symmetric and not) for the joint entropy. The number of series terms is compared with the Coq termination "
                "model on the recorded pmf table; a subsample of scalar values is enclosed by verified interval evaluation of the truncated "
                "entropy inside Coq (1e-9); all values are compared with a log-space reference (1e-9).")
