"""C04 -- false discoveries are controlled at the requested level under independence (partial).

Proved in Coq (Properties/C04.v): the size of the permutation test for any statistic as counting,
its reduction to alpha + 1/n, the all-tied landscape at network level.  Tied to /repo here:
  * translator facts of shuffle_test (verdict comparator, percentile argument, permuted argument)
    and of the forward/backward gates, re-read from the current source and re-proved;
  * every test run below is replayed inside Coq: the model's verdict on the recorded surrogate
    values must equal the implementation's Pass (exactly at exact ties);
  * hard predicates on the implementation's own outputs: a declared significance leaves at most
    n-1-floor((n-1)(1-alpha)) surrogate values >= observed (the lemma the size theorem rests on);
    an all-tied landscape gives no link; a noise network keeps fewer than half of the candidates.
Measured (supporting, NOT a theorem): rejection frequency of the real shuffle_test on independent
data against the theorem's bound, one-sided exact (Poisson-)binomial test at 1e-11 per test.
"""
import contextlib
import inspect
import io
import math
import multiprocessing as mp
import os
from fractions import Fraction

import numpy as np

import lib
import translate
from lib import zlit, zlist, coq_bool

IMPORTS = ("From Coq Require Import List ZArith Bool.\nImport ListNotations.\n"
           "From CE Require Import Model.Harness Model.ShuffleTest Model.Selection Model.Noise.\nOpen Scope Z_scope.\n")
VERDICT_T = "Z * Z * Z * Z * list Z * Z * bool * Z * Z"
TIED_T = "bool * nat * list nat * nat * Z * Z * Z * list nat"
BOUND_T = "Z * Z * Z * Z * Z * bool"

ESTIMATORS = ["gaussian", "knn", "kde", "geometric_knn", "poisson"]
KW = dict(metric="euclidean", k_means=5, bandwidth="silverman")
ALPHAS = [0.05, 0.1, 0.2]
NSH = 19
KEEP_TESTS_PER_TARGET = 5
P_ALARM = 1e-11          # per statistical test; at most ~25 such tests per run -> < 1e-9 per run


# --------------------------------------------------------------------------------------------
# exact arithmetic of the bound (recomputed inside Coq by check_bound_case)
# --------------------------------------------------------------------------------------------
def lo_idx(af, n):
    return ((n - 1) * (af.denominator - af.numerator)) // af.denominator


def bound(af, n):
    """(numerator, denominator) of the exact size (n - lo)/(n + 1) and the regime flag."""
    a, b = af.numerator, af.denominator
    lo = lo_idx(af, n)
    return n - lo, n + 1, (n - lo) * n * b <= (a * n + b) * (n + 1)


def position_is_safe(af, n):
    """(n-1)(1-alpha) is not within 1e-6 of an integer (NumPy computes the position in floats)."""
    h = Fraction((n - 1) * (af.denominator - af.numerator), af.denominator)
    fr = h - math.floor(h)
    return Fraction(1, 10**6) < fr < 1 - Fraction(1, 10**6)


def tail_ge(ps, k):
    """P(sum of independent Bernoulli(p_i) >= k), exact dynamic programme on positive terms."""
    dist = np.zeros(len(ps) + 1)
    dist[0] = 1.0
    for p in ps:
        dist[1:] = dist[1:] * (1.0 - p) + dist[:-1] * p
        dist[0] *= (1.0 - p)
    return float(dist[k:].sum()) if k <= len(ps) else 0.0


# --------------------------------------------------------------------------------------------
# workers (forked; everything is derived from the integer ids in `args`)
# --------------------------------------------------------------------------------------------
def _rng(*ids):
    return np.random.default_rng([int(i) for i in ids])


def gen_test_data(rng, est, kind, with_z, T):
    """X independent of (Y, Z); Y may depend on Z.  Rows i.i.d. (so X is exchangeable)."""
    dep = bool(rng.integers(0, 2))
    if kind == "count":
        lam = float(rng.choice([1.5, 3.0, 6.0]))
        X = rng.poisson(lam, (T, 1)).astype(float)
        Z = rng.poisson(float(rng.choice([1.0, 3.0])), (T, int(rng.integers(1, 3)))).astype(float) if with_z else None
        Y = rng.poisson(2.0, (T, 1)).astype(float)
        if with_z and dep:
            Y = Y + Z[:, :1]
        if rng.random() < 0.4:                  # counts handed over with the integer dtype NumPy's generators return
            X, Y = X.astype(np.int64), Y.astype(np.int64)
            Z = None if Z is None else Z.astype(np.int64)
    else:
        X = rng.standard_normal((T, 1))
        Z = rng.standard_normal((T, int(rng.integers(1, 3)))) if with_z else None
        Y = rng.standard_normal((T, 1))
        if with_z and dep:
            Y = Y + 0.8 * Z[:, :1]
    if rng.random() < 0.06:                     # a dead channel: the predictor is constant, every surrogate ties with the observed value
        X = np.full_like(X, X[0, 0])
    return X, Y, Z, dep


def test_task(args):
    base, idx, est, kind, with_z, alpha, T = args
    import causationentropy.core.discovery as disc
    rng = _rng(base, 1, idx)
    X, Y, Z, dep = gen_test_data(rng, est, kind, with_z, T)
    seed = int(rng.integers(0, 2**31))
    orig = disc.conditional_mutual_information
    out = {"idx": idx, "est": est, "kind": kind, "with_z": with_z, "alpha": alpha, "T": T, "dep": dep, "seed": seed}
    try:
        obs = float(orig(X, Y, Z, method=est, metric=KW["metric"], k=KW["k_means"], bandwidth=KW["bandwidth"]))
        nulls = []

        shape = {"perm": True, "yz": True}
        rows0 = sorted(map(tuple, X.tolist()))

        def spy(*a, **k):
            v = orig(*a, **k)
            nulls.append(float(v))
            if len(a) >= 3:
                shape["perm"] &= sorted(map(tuple, np.asarray(a[0]).tolist())) == rows0
                shape["yz"] &= bool(np.array_equal(a[1], Y) and ((a[2] is None) == (Z is None))
                                    and (Z is None or np.array_equal(a[2], Z)))
            return v
        disc.conditional_mutual_information = spy
        try:
            res = disc.shuffle_test(X, Y, Z, obs, alpha=alpha, n_shuffles=NSH, rng=seed, information=est, **KW)
        finally:
            disc.conditional_mutual_information = orig
        out.update(obs=obs, nulls=nulls, Pass=bool(res["Pass"]), Threshold=float(res["Threshold"]),
                   P_value=float(res["P_value"]), perm_ok=shape["perm"], yz_ok=shape["yz"])
    except Exception as e:     # an estimator refusing the data is outside this property; counted
        out["error"] = f"{type(e).__name__}: {e}"[:200]
    return out


def gen_net_data(rng, kind, T, n):
    return rng.poisson(3.0, (T, n)).astype(float) if kind == "count" else rng.standard_normal((T, n))


def net_task(args):
    base, idx, method, est, kind, n, L, alpha, nsh = args
    import causationentropy.core.discovery as disc
    rng = _rng(base, 2, idx)
    T = int(rng.integers(80, 151))
    data = gen_net_data(rng, kind, T, n)
    data0 = data.copy()
    ycols = [data0[L:, i] for i in range(n)]
    per = [{"values": [], "tests": []} for _ in range(n)]
    cur = {"test": None}
    orig_cmi, orig_st = disc.conditional_mutual_information, disc.shuffle_test
    st_sig = inspect.signature(orig_st)

    def target_of(Y):
        y = np.asarray(Y)[:, 0]
        for i in range(n):
            if y.shape == ycols[i].shape and np.array_equal(y, ycols[i]):
                return i
        return None

    def cmi_spy(*a, **k):
        v = orig_cmi(*a, **k)
        i = target_of(a[1] if len(a) > 1 else k["Y"])
        if i is not None:
            per[i]["values"].append(float(v))
        if cur["test"] is not None:
            cur["test"]["nulls"].append(float(v))
        return v

    def st_spy(*a, **k):
        ba = st_sig.bind(*a, **k)
        ba.apply_defaults()
        d = ba.arguments
        t = {"obs": float(d["observed_cmi"]), "alpha": float(d["alpha"]), "nsh": int(d["n_shuffles"]), "nulls": []}
        i = target_of(d["Y"])
        cur["test"] = t
        try:
            res = orig_st(*a, **k)
        finally:
            cur["test"] = None
        t.update(Pass=bool(res["Pass"]), Threshold=float(res["Threshold"]), P_value=float(res["P_value"]))
        if i is not None:
            per[i]["tests"].append(t)
        return res
    out = {"idx": idx, "method": method, "est": est, "kind": kind, "n": n, "L": L, "T": T, "alpha": alpha, "nsh": nsh}
    disc.conditional_mutual_information, disc.shuffle_test = cmi_spy, st_spy
    try:
        with contextlib.redirect_stdout(io.StringIO()):
            G = disc.discover_network(data, method=method, information=est, max_lag=L, alpha_forward=alpha,
                                      alpha_backward=alpha, n_shuffles=nsh, **KW)
    except Exception as e:
        out["error"] = f"{type(e).__name__}: {e}"[:200]
        return out
    finally:
        disc.conditional_mutual_information, disc.shuffle_test = orig_cmi, orig_st
    names = [f"X{i}" for i in range(n)]
    edges = sorted((names.index(u), names.index(v), int(dd["lag"])) for u, v, dd in G.edges(data=True))
    out.update(edges=edges, candidates=n * n * L, untouched=bool(np.array_equal(data, data0)))
    tg = []
    for i in range(n):
        vals = per[i]["values"]
        tied = len(vals) > 0 and all(np.isfinite(v) for v in vals) and all(v == vals[0] for v in vals)
        sel = sorted(u * L + (lag - 1) for (u, v, lag) in edges if v == i)
        tg.append({"target": i, "n_values": len(vals), "tied": tied, "v0": vals[0] if vals else None, "selected": sel,
                   "n_tests": len(per[i]["tests"]), "tests": per[i]["tests"][:KEEP_TESTS_PER_TARGET]})
    out["targets"] = tg
    return out


# --------------------------------------------------------------------------------------------
# Coq terms
# --------------------------------------------------------------------------------------------
def scale_of(vals):
    s = 1
    for v in vals:
        s = max(s, Fraction(v).denominator)
    return s


def natlist(xs):
    return "[" + "; ".join(f"{int(x)}%nat" for x in xs) + "]"


def verdict_case(af, obs, nulls, cnt, passed):
    """Coq term for check_verdict_case + whether the comparison is demanded exactly."""
    n = len(nulls)
    sc = scale_of([obs] + list(nulls))
    srt = sorted(nulls)
    lo = lo_idx(af, n)
    exact = position_is_safe(af, n) and (srt[lo] == srt[min(lo + 1, n - 1)])
    if exact:
        tol = Fraction(0)
    else:
        m = max([abs(obs)] + [abs(v) for v in nulls])
        tol = Fraction(max(m, 1e-300)) * Fraction(1, 10**12)
    term = "(%s, %s, %s, %s, %s, %s, %s, %s, %s)" % (
        zlit(af.numerator), zlit(af.denominator), zlit(sc), zlit(Fraction(obs) * sc),
        zlist([Fraction(v) * sc for v in nulls]), zlit(cnt), coq_bool(passed), zlit(tol.numerator), zlit(tol.denominator))
    return term, exact


def count_pred(af, obs, nulls, passed):
    """Executable statement of the lemma under the size theorem, on the implementation's outputs only."""
    n = len(nulls)
    # a surrogate whose value is not known to lie below the observed one (NaN included) counts
    cnt = sum(1 for v in nulls if not (v < obs))
    c = n - 1 - lo_idx(af, n)
    if passed and position_is_safe(af, n) and cnt > c:
        if cnt == n and all(v == obs for v in nulls):
            return (f"significance declared although the observed value {obs} is tied with all {n} surrogate values "
                    f"(p = 1): a test that can never be exact; allowed at most {c} surrogates >= observed")
        return (f"significance declared with {cnt} of {n} surrogate values not below the observed one; the (1-alpha) percentile rule "
                f"allows at most {c} (alpha={float(af)})")
    return None


# --------------------------------------------------------------------------------------------
def plan(chk):
    q = chk.tier == "quick"
    n_tests = {"gaussian": 210, "knn": 210, "kde": 108, "geometric_knn": 60, "poisson": 60} if q else \
              {e: 2000 for e in ESTIMATORS}
    tests, idx = [], 0
    prng = np.random.default_rng([chk.seed, 0])
    for est in ESTIMATORS:
        slow = est in ("geometric_knn", "poisson", "kde")
        for t in range(n_tests[est]):
            kind = "count" if est == "poisson" else ("count" if t % 3 == 2 else "continuous")
            with_z = bool(t % 2)
            alpha = ALPHAS[(t // 2) % 3]
            T = int(prng.integers(25, 41 if slow else 61))
            tests.append((chk.seed, idx, est, kind, with_z, alpha, T))
            idx += 1
    # networks: (method, estimator, data kind, n, max_lag, alpha, n_shuffles, how many)
    nets_spec = [("standard", "gaussian", "continuous", 5, 3, 0.05, NSH, 10 if q else 150),
                 ("alternative", "gaussian", "continuous", 5, 3, 0.05, NSH, 10 if q else 150),
                 ("standard", "knn", "continuous", 3, 2, 0.05, NSH, 8 if q else 200),
                 ("alternative", "knn", "continuous", 3, 2, 0.05, NSH, 8 if q else 200),
                 # slow estimators: heavy-tailed edge counts at level 0.1, so the hard predicate is run at the
                 # exact size 2/100 (alpha 0.01, 99 shuffles)
                 ("alternative", "kde", "continuous", 4, 3, 0.01, 99, 1 if q else 20),
                 ("alternative", "geometric_knn", "continuous", 4, 3, 0.01, 99, 1 if q else 10),
                 ("alternative", "poisson", "count", 4, 3, 0.01, 99, 1 if q else 10)]
    nets, idx = [], 0
    for (method, est, kind, n, L, alpha, nsh, cnt) in nets_spec:
        for _ in range(cnt):
            nets.append((chk.seed, idx, method, est, kind, n, L, alpha, nsh))
            idx += 1
    return tests, nets


def run(chk):
    chk.theorems()
    # ---- second tie: the source facts the theorems are stated for -------------------------------
    lib.translator_lemma(
        chk, "shuffle_rule", translate.shuffle_rule,
        lambda r: f"Definition src_rule : rule := {translate.coq_rule(r)}.\n"
                  "Lemma src_rule_is_modelled_rule : src_rule = repaired_rule.\nProof. reflexivity. Qed.\n"
                  "Lemma src_verdict_is_strict : cmp_pass src_rule = Gt /\\ pct_is_one_minus_alpha src_rule = true "
                  "/\\ permuted_arg src_rule = 0%nat.\nProof. repeat split; reflexivity. Qed.\n",
        "From CE Require Import Model.ShuffleTest.")
    lib.translator_lemma(
        chk, "selection_facts", translate.selection_facts,
        lambda r: translate.coq_selection_facts(r) +
        "\nLemma src_selection_is_modelled : src_facts = modelled_facts.\nProof. reflexivity. Qed.\n",
        "From Coq Require Import String List.\nImport ListNotations.\nOpen Scope string_scope.\n")
    chk.trusted += ["Coq 8.16.1 kernel + vm_compute; mathcomp 1.15 (ssreflect, fingroup) for Proofs/Exchange.v",
                    "hand-written Model/Noise.v (selection gates = ShuffleTest verdict) tied by correspondence and by "
                    "harness/translate.py (shuffle_test + forward/backward anchors, fail-closed)",
                    "harness/props/C04.py: spies at the discovery module seam, exact (Poisson-)binomial tail by dynamic programming, "
                    "multiprocessing with seeds derived from the run seed",
                    "NumPy percentile interpolation: verdict compared exactly where the two order statistics around the position "
                    "are equal, else unless |observed - threshold| <= 1e-12 * max|value|"]
    chk.assumptions += [
        "HYPOTHESIS OF THE PROPERTY, not proved: the rows of the tested predictor are exchangeable given (target, conditioning set) "
        "and the estimator is a deterministic function of its arguments; under it the counting bound over equally likely "
        "(arrangement, shuffles) outcomes IS the probability bound (C04_shuffle_test_size_over_row_permutations)",
        "the stated alpha + 1/n follows from the exact size (n - floor((n-1)(1-alpha)))/(n+1) only in the arithmetic regime "
        "frac((n-1)(1-alpha)) <= 2 alpha + 1/n (true for the defaults 0.05/200 and for every setting measured here; false e.g. "
        "for 0.05/50, where the exact size is 4/51)",
        "network level: the number of links a forward/backward run keeps on noise is measured, not bounded by a theorem; the "
        "hard 'fewer than half' predicate is applied to scenarios whose false-alarm probability was ESTIMATED offline, not proved "
        "(4000 simulated noise networks per gaussian scenario: at most 13 of 75 links; 300-1000 per kde/geometric/poisson scenario at "
        "alpha 0.01 / 99 shuffles: at most 5 of 48; kNN: 0 links in 6000; geometric extrapolation of the tails gives < 1e-12 per network)",
        "estimator values are finite floats (exact rationals, scaled to integers); non-finite estimates are counted and excluded "
        "from the Coq cases, not from the measured rate"]
    tests, nets = plan(chk)
    ctx = mp.get_context("fork")
    procs = max(2, min(16, (os.cpu_count() or 4)))
    with ctx.Pool(procs) as pool:
        slow_first = sorted(nets, key=lambda a: (a[3] in ("gaussian", "knn"), a[1]))   # long tasks start first
        net_async = pool.map_async(net_task, slow_first, chunksize=1)
        test_res = pool.map(test_task, tests, chunksize=4)
        net_res = sorted(net_async.get(), key=lambda r: r["idx"])

    # ---- (3) the bound, recomputed inside Coq ----------------------------------------------------
    combos = sorted({(Fraction(a), NSH) for a in ALPHAS} | {(Fraction(x[7]), x[8]) for x in nets} | {(Fraction(0.05), 200), (Fraction(1, 20), 200), (Fraction(1, 20), 50),
                                                              (Fraction(1, 20), 19), (Fraction(1, 10), 19), (Fraction(1, 5), 19)})
    bcases, regimes = [], {}
    for af, n in combos:
        num, den, reg = bound(af, n)
        regimes[f"alpha={float(af):.17g},n={n}"] = {"size": f"{num}/{den}", "within_alpha_plus_1_over_n": reg}
        bcases.append(f"({zlit(af.numerator)}, {zlit(af.denominator)}, {n}, {num}, {den}, {coq_bool(reg)})")
    lib.correspond(chk, "bound_arithmetic", IMPORTS, BOUND_T, "check_bound_case", bcases, [None] * len(bcases),
                   lambda i: {"case": bcases[i]})
    chk.extra["regime"] = regimes

    # ---- (1) per-test: model verdict vs implementation, count predicate ---------------------------
    cases, pf, desc = [], [], []
    groups = {}
    shape_fail = []

    def add_test(t, af, origin):
        nulls, obs = t["nulls"], t["obs"]
        finite = np.isfinite(obs) and all(np.isfinite(v) for v in nulls) and len(nulls) >= 2
        if not finite:
            chk.count(f"tests.nonfinite_skipped_in_coq.{origin['stream']}.{origin['estimator']}")
            bad = count_pred(af, obs, nulls, t["Pass"]) if len(nulls) >= 2 else None
            if bad:
                chk.violation("counterexample", "non-finite surrogate values: " + bad,
                              {"origin": origin, "alpha": float(af), "observed": obs, "null_values": [repr(v) for v in nulls],
                               "impl": {"Pass": t["Pass"], "Threshold": repr(t["Threshold"]), "P_value": t["P_value"]}})
            return
        cnt = int(round(t["P_value"] * len(nulls)))
        term, exact = verdict_case(af, obs, nulls, cnt, t["Pass"])
        cases.append(term)
        pf.append(count_pred(af, obs, nulls, t["Pass"]))
        tied = all(v == obs for v in nulls)
        desc.append({"origin": origin, "alpha": float(af), "n_shuffles": len(nulls), "observed": obs, "null_values": nulls,
                     "impl": {"Pass": t["Pass"], "Threshold": t["Threshold"], "P_value": t["P_value"]},
                     "how": "shuffle_test(X, Y, Z, observed, alpha, n_shuffles, rng=seed, information=estimator) on data regenerated "
                            "from the ids in `origin` (see harness/props/C04.py test_task / net_task)"})
        chk.case(key=(float(af), tuple(nulls), obs), nontrivial=True, sample=desc[-1] if len(chk.samples) < 3 else None)
        chk.count("verdict_cases.exact" if exact else "verdict_cases.within_tol")
        if tied:
            chk.count("verdict_cases.all_tied_with_observed")
        chk.count("verdict_cases.pass" if t["Pass"] else "verdict_cases.no_pass")

    for t in test_res:
        est = t["est"]
        g = groups.setdefault(est, {"p0": [], "k": 0, "n": 0, "errors": 0, "by_alpha": {}, "nonfinite": 0, "tied": 0, "idx_pass": []})
        chk.count(f"tests.{est}.{t['kind']}.{'Z' if t['with_z'] else 'noZ'}")
        chk.count(f"tests.T.{t['T'] // 10 * 10}s")
        if "error" in t:
            g["errors"] += 1
            chk.count(f"tests.{est}.estimator_error")
            chk.extra.setdefault("estimator_errors", [])
            if len(chk.extra["estimator_errors"]) < 5:
                chk.extra["estimator_errors"].append({"est": est, "kind": t["kind"], "error": t["error"]})
            continue
        if not (t["perm_ok"] and t["yz_ok"] and len(t["nulls"]) == NSH):
            shape_fail.append({"idx": t["idx"], "estimator": est, "rows_of_X_reordered": t["perm_ok"],
                               "Y_and_Z_untouched": t["yz_ok"], "surrogates": len(t["nulls"])})
        af = Fraction(t["alpha"])
        num, den, _ = bound(af, NSH)
        p0 = num / den
        g["p0"].append(p0)
        g["n"] += 1
        ga = g["by_alpha"].setdefault(t["alpha"], {"p0": p0, "k": 0, "n": 0})
        ga["n"] += 1
        if t["Pass"]:
            g["k"] += 1
            ga["k"] += 1
            g["idx_pass"].append(t["idx"])
        if not (np.isfinite(t["obs"]) and all(np.isfinite(v) for v in t["nulls"])):
            g["nonfinite"] += 1
        if all(v == t["obs"] for v in t["nulls"]):
            g["tied"] += 1
        add_test(t, af, {"stream": "test", "seed": chk.seed, "idx": t["idx"], "estimator": est, "kind": t["kind"],
                         "with_z": t["with_z"], "T": t["T"], "shuffle_seed": t["seed"]})

    chk.oblige("predicate", "surrogates_are_n_shuffles_reorderings_of_the_predictor_rows_with_Y_Z_untouched", not shape_fail,
               f"{len(test_res)} tests spied" + (f"; {len(shape_fail)} violate the hypothesis of the size theorem" if shape_fail else ""))
    if shape_fail:
        chk.violation("counterexample", "shuffle_test's surrogate data sets are not n_shuffles re-orderings of the tested predictor's rows "
                      "(with target and conditioning set untouched): the exactness argument of a permutation test does not apply",
                      {"stream": "test", "seed": chk.seed, "first": shape_fail[:5]})
    # ---- networks ---------------------------------------------------------------------------------
    tcases, tpf, tdesc = [], [], []
    net_stats = {}
    half_fail = []
    for r in net_res:
        key = f"{r['method']}.{r['est']}.n{r['n']}L{r['L']}"
        s = net_stats.setdefault(key, {"runs": 0, "edges": 0, "candidates": 0, "max_fraction": 0.0, "tied_targets": 0,
                                        "targets": 0, "errors": 0})
        if "error" in r:
            s["errors"] += 1
            chk.count(f"net.{key}.error")
            chk.extra.setdefault("estimator_errors", []).append({"net": key, "error": r["error"]})
            continue
        s["runs"] += 1
        s["edges"] += len(r["edges"])
        s["candidates"] += r["candidates"]
        frac = len(r["edges"]) / r["candidates"]
        s["max_fraction"] = max(s["max_fraction"], frac)
        chk.count(f"net.{key}.runs")
        chk.count(f"net.T.{r['T'] // 10 * 10}s")
        origin = {"stream": "network", "seed": chk.seed, "idx": r["idx"], "method": r["method"], "estimator": r["est"],
                  "kind": r["kind"], "n": r["n"], "max_lag": r["L"], "T": r["T"], "alpha": r["alpha"], "n_shuffles": r["nsh"]}
        chk.case(key=("net", r["idx"], r["method"], r["est"]), nontrivial=True)
        if 2 * len(r["edges"]) >= r["candidates"]:
            half_fail.append({**origin, "edges": r["edges"], "candidates": r["candidates"],
                              "how": "data = np.random.default_rng([seed, 2, idx]): T = integers(80,151); "
                                     "standard_normal((T,n)) (poisson(3) for kind=count); discover_network(data, method, "
                                     "information=estimator, max_lag, alpha_forward=alpha_backward=alpha, n_shuffles)"})
        af = Fraction(r["alpha"])
        for tg in r["targets"]:
            s["targets"] += 1
            for t in tg["tests"]:
                add_test(t, Fraction(t["alpha"]), {**origin, "target": tg["target"]})
            if tg["tied"]:
                s["tied_targets"] += 1
                n_c, L = r["n"] * r["L"], r["L"]
                init = [tg["target"] * L + k for k in range(L)] if r["method"] == "standard" else []
                sc = scale_of([tg["v0"]])
                tcases.append("(%s, %d%%nat, %s, %d%%nat, %s, %s, %s, %s)" % (
                    coq_bool(r["method"] == "standard"), n_c, natlist(init), r["nsh"],
                    zlit(af.numerator), zlit(af.denominator), zlit(Fraction(tg["v0"]) * sc), natlist(tg["selected"])))
                tpf.append(None if not tg["selected"] else
                           f"every one of the {tg['n_values']} information values computed for target {tg['target']} (data and "
                           f"surrogates) equals {tg['v0']}, yet {len(tg['selected'])} of {n_c} candidate links were selected")
                tdesc.append({**origin, "target": tg["target"], "all_values_equal": tg["v0"], "n_values": tg["n_values"],
                              "selected_columns": tg["selected"], "edges": r["edges"]})
                chk.case(key=("tied", r["idx"], tg["target"]), nontrivial=True,
                         sample=tdesc[-1] if sum(1 for x in chk.samples if "all_values_equal" in x) < 1 else None)
        if not r["untouched"]:
            chk.count("net.input_modified")
    lib.correspond(chk, "verdict_model_vs_impl", IMPORTS, VERDICT_T, "check_verdict_case", cases, pf, lambda i: desc[i],
                   shard=120 if chk.tier == "quick" else 400, jobs=12)
    lib.correspond(chk, "tied_landscape_network_model_vs_impl", IMPORTS, TIED_T, "check_tied_case", tcases, tpf,
                   lambda i: tdesc[i], shard=400, jobs=4)
    chk.count("net.tied_targets", len(tcases))
    chk.oblige("predicate", "noise_network_keeps_fewer_than_half_of_candidate_links", not half_fail,
               f"{sum(s['runs'] for s in net_stats.values())} discover_network runs on i.i.d. noise"
               + (f"; {len(half_fail)} kept at least half" if half_fail else ""))
    for h in half_fail[:2]:
        chk.violation("counterexample",
                      f"discover_network on mutually independent noise returned {len(h['edges'])} of {h['candidates']} candidate "
                      f"lagged links (method={h['method']}, estimator={h['estimator']})", h)
    done = sum(s["runs"] for s in net_stats.values())
    chk.oblige("coverage", "noise_networks_ran_and_all_tied_landscape_was_exercised",
               2 * done >= len(nets) and len(tcases) >= 1 and len(cases) >= len(tests) // 2,
               f"{done} of {len(nets)} discover_network runs completed; {len(tcases)} all-tied targets; {len(cases)} tests replayed in Coq")
    for k, s in net_stats.items():
        s["mean_edge_fraction"] = round(s["edges"] / s["candidates"], 5) if s["candidates"] else None
    chk.extra["noise_networks"] = net_stats

    # ---- measured rejection rates -----------------------------------------------------------------
    measured = {}
    for est, g in groups.items():
        if not g["n"]:
            continue
        tail = tail_ge(g["p0"], g["k"])
        m = {"tests": g["n"], "rejections": g["k"], "rate": round(g["k"] / g["n"], 4),
             "mean_bound": round(float(np.mean(g["p0"])), 4), "tail_probability_under_bound": tail,
             "nonfinite": g["nonfinite"], "all_tied": g["tied"], "estimator_errors": g["errors"], "by_alpha": {}}
        alarms = []
        if tail < P_ALARM:
            alarms.append(("pooled", g["k"], g["n"], float(np.mean(g["p0"])), tail))
        for a, ga in sorted(g["by_alpha"].items()):
            ta = tail_ge([ga["p0"]] * ga["n"], ga["k"])
            m["by_alpha"][str(a)] = {"tests": ga["n"], "rejections": ga["k"], "bound": f"{bound(Fraction(a), NSH)[0]}/{NSH + 1}",
                                     "tail_probability_under_bound": ta}
            if ta < P_ALARM:
                alarms.append((f"alpha={a}", ga["k"], ga["n"], ga["p0"], ta))
        measured[est] = m
        chk.oblige("measured", f"rejection_rate_within_theorem_bound[{est}]", not alarms,
                   f"{g['k']}/{g['n']} rejections on independent data, bound {m['mean_bound']} (mean), one-sided tail {tail:.3g}"
                   " -- statistical evidence, not a theorem")
        if alarms:
            what, k, n, p0, tl = alarms[0]
            chk.violation("counterexample",
                          f"shuffle_test with estimator {est} declared significance in {k} of {n} tests on data whose predictor is "
                          f"independent of target and conditioning set ({what}); under the exact size {p0:.4f} of a permutation "
                          f"test this has probability {tl:.3g} (< {P_ALARM})",
                          {"stream": "test", "seed": chk.seed, "estimator": est, "rejections": k, "tests": n, "bound": p0,
                           "tail_probability": tl, "indices_of_rejections": g["idx_pass"][:50],
                           "how": "test i: rng = np.random.default_rng([seed, 1, i]); data and shuffle seed as in "
                                  "harness/props/C04.py test_task; n_shuffles=19"})
    chk.extra["measured_rejection_rates"] = measured
    same_statistic_stream(chk)
    chk.rule = (
        "Independent inputs only. Tests: X (T x 1, T 25..60; 25..40 for kde/geometric/poisson) drawn independently of (Y, Z); "
        "continuous N(0,1) or Poisson counts (every third test; always for the poisson estimator); Z absent / 1-2 columns, Y "
        "depending on Z in half of the cases; alpha cycles 0.05, 0.1, 0.2; n_shuffles 19; five estimators with the library's "
        "default settings; observed value computed by the same estimator call the selection code uses. Networks: i.i.d. noise, "
        "T 80..150; gaussian n=5 max_lag=3 (75 candidates; alpha 0.05, 19 shuffles) standard and alternative; knn n=3 max_lag=2 "
        "standard and alternative (the all-tied scenario of finding F1); one kde, one geometric_knn and one poisson (counts) "
        "alternative run with n=4 max_lag=3 at alpha 0.01 / 99 shuffles (more in thorough). "
        "Every test (stand-alone and inside the networks, up to 5 per target) is replayed in Coq. Distinct = distinct "
        "(alpha, surrogate values, observed) or network id.")


def same_statistic_stream(chk):
    """The exactness theorems speak of ONE statistic evaluated on the observed data and on every surrogate.  With non-default
    estimator settings every estimator evaluation of a discovery run -- the observed values that are tested and the surrogate
    values of the null -- must be made with the settings the caller asked for."""
    import causationentropy.core.discovery as disc
    rng = np.random.default_rng([chk.seed, 9])
    plans = [("kde", dict(bandwidth=2.0)), ("kde", dict(bandwidth="scott")), ("knn", dict(metric="chebyshev", k_means=7)),
             ("knn", dict(metric="cityblock", k_means=2))]
    if chk.tier != "quick":
        plans += [("geometric_knn", dict(k_means=3)), ("kde", dict(bandwidth=0.4))]
    bad = None
    for info, settings in plans:
        for method in ("standard", "alternative"):
            X = rng.standard_normal((40, 2))
            want = {"method": info, "metric": settings.get("metric", "euclidean"), "k": settings.get("k_means", 5),
                    "bandwidth": settings.get("bandwidth", "silverman")}
            seen = []
            orig = disc.conditional_mutual_information

            def spy(Xa, Ya, Za=None, method="gaussian", metric="euclidean", k=6, bandwidth="silverman", **kw):
                seen.append({"method": method, "metric": metric, "k": k, "bandwidth": bandwidth})
                return orig(Xa, Ya, Za, method=method, metric=metric, k=k, bandwidth=bandwidth, **kw)
            disc.conditional_mutual_information = spy
            try:
                with lib.quiet():
                    disc.discover_network(X, method=method, information=info, max_lag=1, n_shuffles=4, **settings)
            finally:
                disc.conditional_mutual_information = orig
            chk.case(key=("same_statistic", info, method, repr(settings)), nontrivial=True)
            chk.count("same_statistic.runs")
            chk.count("same_statistic.estimator_evaluations", len(seen))
            relevant = {"kde": ["method", "bandwidth"], "knn": ["method", "metric", "k"], "geometric_knn": ["method", "metric", "k"]}[info]
            wrong = [c for c in seen if any(c[f] != want[f] for f in relevant)]
            if wrong and bad is None:
                bad = (info, method, settings, wrong[0], len(wrong), len(seen))
    if bad:
        info, method, settings, w, nw, ns = bad
        chk.violation("counterexample",
                      f"discover_network(information={info!r}, method={method!r}, {settings}) evaluated the estimator {nw} of {ns} times "
                      f"with other settings ({w}): observed values and their permutation null are then different statistics and the "
                      f"test is not exact",
                      {"stream": "same statistic for observed and null", "information": info, "method": method, "settings": {k: str(v) for k, v in settings.items()},
                       "first_deviating_call": {k: str(v) for k, v in w.items()},
                       "how": "X = np.random.default_rng([seed, 9]).standard_normal((40, 2)) drawn in order of the plan in harness/props/C04.py same_statistic_stream"})


def replay(chk, rep):
    """Re-runs the single test / network a replay file points to (ids -> same data, same shuffles)."""
    r = rep.get("replay", {})
    r = r.get("first_disagreeing_case", r)
    origin = r.get("origin", r)
    seed, tier = int(origin.get("seed", rep.get("seed", chk.seed))), rep.get("tier", "quick")

    class P:
        pass
    P.seed, P.tier = seed, tier
    tests, nets = plan(P)
    stream, idx = origin.get("stream"), origin.get("idx")
    if stream == "test" and idx is not None:
        t = test_task(tests[int(idx)])
        af = Fraction(t["alpha"])
        fail = t.get("error") or count_pred(af, t["obs"], t["nulls"], t["Pass"])
        if not fail and not (t["perm_ok"] and t["yz_ok"]):
            fail = "surrogates are not re-orderings of the predictor's rows with target/conditioning set untouched"
        print("replay test", {k: t.get(k) for k in ("est", "kind", "alpha", "T", "obs", "Pass", "Threshold", "P_value")},
              "->", fail or "holds")
        chk.case(key=("replay", idx), sample={k: t.get(k) for k in ("est", "alpha", "obs", "nulls", "Pass")})
        if fail:
            chk.violation("counterexample", fail, {"origin": origin, "observed": t.get("obs"), "null_values": t.get("nulls"),
                                                   "impl": {k: t.get(k) for k in ("Pass", "Threshold", "P_value")}})
    elif stream == "network" and idx is not None:
        n = net_task(nets[int(idx)])
        fail = n.get("error")
        if not fail and 2 * len(n["edges"]) >= n["candidates"]:
            fail = f"{len(n['edges'])} of {n['candidates']} candidate links on independent noise"
        if not fail:
            for tg in n["targets"]:
                if tg["tied"] and tg["selected"]:
                    fail = f"all information values for target {tg['target']} equal {tg['v0']}, yet {len(tg['selected'])} links selected"
        print("replay network", {k: n.get(k) for k in ("method", "est", "n", "L", "T", "edges")}, "->", fail or "holds")
        chk.case(key=("replay-net", idx), sample={k: n.get(k) for k in ("method", "est", "edges", "candidates")})
        if fail:
            chk.violation("counterexample", fail, {"origin": origin, "edges": n.get("edges"), "candidates": n.get("candidates")})
    else:       # statistical alarms and broken obligations: the whole deterministic stream
        chk.seed, chk.tier = seed, tier
        run(chk)
