"""C03 -- permutation test: surrogates shuffle X only; decision agrees with its p-value."""
import inspect
from fractions import Fraction

import numpy as np

import lib
import translate
from lib import zlit, zlist, coq_bool

IMPORTS = ("From Coq Require Import List ZArith Bool.\nImport ListNotations.\n"
           "From CE Require Import Model.Harness Model.ShuffleTest.\nOpen Scope Z_scope.\n")
CASE_T = "Z * Z * Z * Z * list Z * Z * Z * Z * bool * Z * Z"
ALPHAS = [(1, 1000), (1, 100), (1, 20), (1, 10), (1, 8), (1, 4), (3, 10), (1, 3), (3, 7), (1, 2), (1, 64), (5, 128)]


def scale_of(vals):
    s = 1
    for v in vals:
        s = max(s, Fraction(v).denominator)
    return s


def make_case(a, b, obs, nulls, res, tol=Fraction(1, 10**9)):
    sc = scale_of([obs] + list(nulls))
    thr = Fraction(float(res["Threshold"]))
    n = len(nulls)
    cnt = int(round(float(res["P_value"]) * n))
    return "(%s, %s, %s, %s, %s, %s, %s, %s, %s, %s, %s)" % (
        zlit(a), zlit(b), zlit(sc), zlit(Fraction(obs) * sc), zlist([Fraction(v) * sc for v in nulls]),
        zlit(thr.numerator), zlit(thr.denominator), zlit(cnt), coq_bool(bool(res["Pass"])),
        zlit(tol.numerator), zlit(tol.denominator))


def gen_values(rng, n):
    kind = str(rng.choice(["all_tied_0", "all_tied_sentinel", "all_tied_c", "partly_tied", "tie_free", "float_free"],
                          p=[0.12, 0.06, 0.1, 0.3, 0.27, 0.15]))
    if kind == "all_tied_0":
        nulls = [0.0] * n
    elif kind == "all_tied_sentinel":
        nulls = [-1000.0 * float(rng.integers(1, 3)) / 2] * n
    elif kind == "all_tied_c":
        nulls = [float(rng.integers(-2**20, 2**20)) / 1024] * n
    elif kind == "partly_tied":
        pool = [float(v) / 1024 for v in rng.integers(0, 2**14, max(1, n // 3))]
        nulls = [float(rng.choice(pool)) for _ in range(n)]
    elif kind == "tie_free":
        nulls = [float(v) / 1024 for v in rng.choice(2**20, n, replace=False)]
    else:
        nulls = [float(v) for v in np.abs(rng.standard_normal(n)) * 10.0 ** float(rng.integers(-6, 3))]
    okind = str(rng.choice(["tie", "grid", "above", "below"], p=[0.45, 0.35, 0.1, 0.1]))
    if okind == "tie":
        obs = float(rng.choice(nulls))
    elif okind == "grid":
        obs = float(np.quantile(nulls, rng.random())) + float(rng.integers(-3, 4)) / 1024
    elif okind == "above":
        obs = max(nulls) + 1.0
    else:
        obs = min(nulls) - 1.0
    return kind, okind, nulls, obs


def coherent(res, n, alpha_exact):
    """The property's coherence clause on the implementation's own outputs."""
    p = float(res["P_value"])
    c = round(p * n)
    if abs(p * n - c) > 1e-9:
        return f"P_value {p} is not a multiple of 1/{n}"
    if bool(res["Pass"]) and not (Fraction(c, n) <= alpha_exact + Fraction(1, n)):
        return f"significance declared with p={c}/{n} > alpha+1/n (alpha={float(alpha_exact)})"
    if (not bool(res["Pass"])) and not (Fraction(c, n) >= alpha_exact - Fraction(1, n)):
        return f"significance withheld with p={c}/{n} < alpha-1/n (alpha={float(alpha_exact)})"
    return None


def rows_sorted(M):
    return sorted(map(tuple, np.asarray(M).tolist()))


def run_one(disc, X, Y, Z, obs, alpha, n, rng_arg, settings, estimator, replay_perms):
    """Calls the real shuffle_test with `estimator` installed at the module seam; returns (result, log, failure)."""
    sig = inspect.signature(orig_cmi)
    log = []

    def spy(*args, **kw):
        ba = sig.bind(*args, **kw)
        ba.apply_defaults()
        d = dict(ba.arguments)
        log.append({"X": np.array(d["X"], copy=True), "Y_same": d["Y"] is Y or np.array_equal(d["Y"], Y),
                    "Z_same": (d["Z"] is None and Z is None) or (Z is not None and d["Z"] is not None and np.array_equal(d["Z"], Z)),
                    "kw": {k: d[k] for k in ("method", "metric", "k", "bandwidth")}})
        return estimator(len(log) - 1, d)
    X0, Y0, Z0 = X.copy(), Y.copy(), None if Z is None else Z.copy()
    saved = disc.conditional_mutual_information
    disc.conditional_mutual_information = spy
    try:
        res = disc.shuffle_test(X, Y, Z, obs, alpha=alpha, n_shuffles=n, rng=rng_arg, information=settings["method"],
                                metric=settings["metric"], k_means=settings["k"], bandwidth=settings["bandwidth"])
    except Exception as e:       # only possible when the estimator is no longer reached through the module seam
        disc.conditional_mutual_information = saved
        return None, log, f"SEAM:{type(e).__name__}: {e}"[:200], None
    finally:
        disc.conditional_mutual_information = saved
    fail = None
    if len(log) == 0 and n > 0:
        return res, log, "SEAM:no estimator call went through discovery.conditional_mutual_information", None
    if len(log) != n:
        fail = f"estimator evaluated on {len(log)} surrogate data sets instead of n_shuffles={n}"
    elif not all(l["Y_same"] and l["Z_same"] for l in log):
        fail = "target or conditioning set handed to the estimator differs from the caller's (must stay untouched and aligned)"
    elif not all(rows_sorted(l["X"]) == rows_sorted(X0) for l in log):
        fail = "a surrogate is not a re-ordering of the rows of the tested predictor"
    elif not (np.array_equal(X, X0) and np.array_equal(Y, Y0) and (Z is None or np.array_equal(Z, Z0))):
        fail = "caller's arrays were modified"
    elif not all(l["kw"] == settings for l in log):
        fail = f"estimator settings changed on the way to the surrogates: {log[0]['kw']} vs {settings}"
    elif not (set(res.keys()) >= {"Threshold", "Value", "Pass", "P_value"}):
        fail = "result lacks Threshold/Value/Pass/P_value"
    elif not (float(res["Value"]) == float(obs)):
        fail = f"observed value not echoed: {res['Value']} vs {obs}"
    replay_ok = None
    if replay_perms is not None and len(log) == n:
        replay_ok = all(np.array_equal(l["X"], X0[p]) for l, p in zip(log, replay_perms))
    return res, log, fail, replay_ok


orig_cmi = None


def run(chk):
    global orig_cmi
    import causationentropy.core.discovery as disc
    orig_cmi = disc.conditional_mutual_information
    rng = np.random.default_rng(chk.seed)
    chk.theorems()
    lib.translator_lemma(
        chk, "shuffle_rule", translate.shuffle_rule,
        lambda r: f"Definition src_rule : rule := {translate.coq_rule(r)}.\n"
                  "Lemma src_rule_is_modelled_rule : src_rule = repaired_rule.\nProof. reflexivity. Qed.\n",
        "From CE Require Import Model.ShuffleTest.")
    chk.trusted += ["Coq 8.16.1 kernel + vm_compute", "harness/translate.py (shuffle_test anchors, fail-closed)",
                    "harness/props/C03.py: scripted/spy estimator at the module seam, RNG replay of Generator.permutation",
                    "np.percentile float interpolation compared within 1e-9, not modelled"]
    chk.assumptions += ["estimator values are finite floats (every finite float is an exact rational; scaled to integers)",
                        "alpha enters the model as the exact rational value of the float passed to the implementation"]
    cases, pf, desc = [], [], []
    n_script = 1500 if chk.tier == "quick" else 60000
    settings0 = {"method": "gaussian", "metric": "euclidean", "k": 5, "bandwidth": "silverman"}
    replay_mismatch = 0
    seam_bypassed = []
    for t in range(n_script):
        r_n = rng.random()
        n = int(rng.integers(2, 61)) if r_n < 0.9 else (int(rng.integers(101, 161)) if chk.tier == "quick" else int(rng.integers(61, 501)))
        if t % 500 == 7:                   # surrogate counts beyond any internal block size, not a multiple of a power of two
            n = int(rng.choice([1025, 1500, 2051]))
            chk.count("scripted.n_shuffles_gt_1024")
        a, b = ALPHAS[int(rng.integers(len(ALPHAS)))]
        alpha = a / b
        af = Fraction(alpha)
        kind, okind, nulls, obs = gen_values(rng, n)
        T = int(rng.integers(3, 9))
        kx = int(rng.choice([1, 1, 2, 3]))
        X = rng.integers(0, 4, (T, kx)).astype(float) if rng.random() < 0.5 else rng.standard_normal((T, kx))
        r_dt = rng.random()
        if r_dt < 0.15:
            X = rng.integers(0, 6, (T, kx))                   # integer-typed counts (the surrogate VALUES are still arbitrary floats)
        elif r_dt < 0.25:
            X = X.astype(np.float32)
        Y = rng.standard_normal((T, 1))
        Z = None if rng.random() < 0.4 else rng.standard_normal((T, int(rng.integers(1, 3))))
        rk = str(rng.choice(["int", "generator", "none"], p=[0.45, 0.45, 0.1]))
        seed = int(rng.integers(0, 2**31))
        rng_arg = seed if rk == "int" else (np.random.default_rng(seed) if rk == "generator" else None)
        perms = None
        if rk != "none":
            g = np.random.default_rng(seed)
            perms = [g.permutation(T) for _ in range(n)]
        settings = dict(settings0, method=str(rng.choice(["gaussian", "knn", "kde", "geometric_knn", "poisson"])),
                        k=int(rng.integers(1, 7)), metric=str(rng.choice(["euclidean", "chebyshev"])))
        res, log, fail, rep_ok = run_one(disc, X, Y, Z, obs, alpha, n, rng_arg, settings,
                                         lambda i, d: nulls[i] if i < len(nulls) else 0.0, perms)
        if fail is not None and fail.startswith("SEAM:"):
            seam_bypassed.append(fail)
            continue
        if rep_ok is False:
            replay_mismatch += 1
        if fail is None:
            fail = coherent(res, n, af)
        if fail is None:
            cnt = sum(1 for v in nulls if v >= obs)
            if round(float(res["P_value"]) * n) != cnt:
                fail = f"P_value {res['P_value']} is not the fraction of surrogate values >= observed ({cnt}/{n})"
        pf.append(fail)
        ok_shape = len(log) == n
        cases.append(make_case(af.numerator, af.denominator, obs, nulls, res) if ok_shape else
                     "(1, 2, 1, 0, [0; 0], 1, 1, 0, true, 0, 1)")   # placeholder that fails the model check
        desc.append({"stream": "scripted", "alpha": alpha, "n_shuffles": n, "observed": obs, "null_values": nulls,
                     "rng": rk, "seed": seed, "X_shape": list(X.shape), "Z": None if Z is None else list(Z.shape),
                     "impl": {k: (bool(v) if k == "Pass" else float(v)) for k, v in res.items()}})
        chk.case(key=(a, b, n, tuple(nulls), obs), nontrivial=len(nulls) >= 2,
                 sample=desc[-1] if n <= 6 else None)
        chk.count("values." + kind)
        chk.count("observed." + okind)
        chk.count("rng." + rk)
        chk.count("pass." + str(bool(res["Pass"])))
    chk.oblige("correspondence", "surrogates_replay_Generator.permutation", replay_mismatch == 0,
               f"{replay_mismatch} calls whose surrogates differ from X[perm_i] with perm_i replayed from the same seed "
               "(model: permute_rows)")
    # real estimators as spied callee
    n_real = 30 if chk.tier == "quick" else 600
    for t in range(n_real):
        method = ["gaussian", "knn", "kde", "geometric_knn", "poisson"][t % 5]
        N = int(rng.integers(12, 30))
        n = int(rng.choice([2, 5, 19]))
        a, b = ALPHAS[int(rng.integers(2, len(ALPHAS)))]
        alpha = a / b
        af = Fraction(alpha)
        kx = 1 if method != "gaussian" else int(rng.choice([1, 2]))
        if method == "poisson":
            X = rng.poisson(3, (N, kx)).astype(float)
            Y = (X[:, :1] * (t % 2) + rng.poisson(2, (N, 1))).astype(float)
            Z = None if t % 3 == 0 else rng.poisson(2, (N, 1)).astype(float)
        else:
            X = rng.standard_normal((N, kx))
            Y = 0.8 * X[:, :1] * (t % 2) + rng.standard_normal((N, 1))
            Z = None if t % 3 == 0 else rng.standard_normal((N, 1))
        settings = dict(settings0, method=method, k=int(rng.integers(1, 4)))
        obs = float(orig_cmi(X, Y, Z, method=method, metric=settings["metric"], k=settings["k"], bandwidth=settings["bandwidth"]))
        if not np.isfinite(obs):
            continue
        seed = int(rng.integers(0, 2**31))
        g = np.random.default_rng(seed)
        perms = [g.permutation(N) for _ in range(n)]
        vals = []

        def est(i, d):
            v = orig_cmi(d["X"], d["Y"], d["Z"], method=d["method"], metric=d["metric"], k=d["k"], bandwidth=d["bandwidth"])
            vals.append(float(v))
            return v
        res, log, fail, rep_ok = run_one(disc, X, Y, Z, obs, alpha, n, seed, settings, est, perms)
        if fail is not None and fail.startswith("SEAM:"):
            seam_bypassed.append(fail)
            continue
        if not all(np.isfinite(v) for v in vals):
            chk.count("real.skipped_nonfinite")
            continue
        if rep_ok is False and fail is None:
            replay_mismatch += 1
        if fail is None:
            fail = coherent(res, n, af)
        pf.append(fail)
        cases.append(make_case(af.numerator, af.denominator, obs, vals, res) if len(vals) == n else
                     "(1, 2, 1, 0, [0; 0], 1, 1, 0, true, 0, 1)")
        desc.append({"stream": "real:" + method, "alpha": alpha, "n_shuffles": n, "observed": obs, "null_values": vals,
                     "seed": seed, "N": N, "impl": {k: (bool(v) if k == "Pass" else float(v)) for k, v in res.items()}})
        chk.case(key=(method, n, tuple(vals), obs), nontrivial=True, sample=desc[-1] if n <= 5 and t < 10 else None)
        chk.count("real." + method)
        if all(v == obs for v in vals):
            chk.count("real.all_tied_with_observed")
    chk.oblige("correspondence", "surrogate evaluations go through discovery.conditional_mutual_information (the seam the scripted "
               "estimator is installed at)", not seam_bypassed,
               f"{len(seam_bypassed)} calls bypassed the seam" + (f", e.g. {seam_bypassed[0]}" if seam_bypassed else ""))
    # ---- seam-free stream: nothing is patched.  Every public estimator value is >= 0 or non-finite (floor, C09), so when the
    # observed value sits exactly at the floor 0.0 every finite surrogate value is >= observed: the fraction is 1, the threshold
    # (a quantile of non-negative values) is >= 0 and the tie must not be declared significant.
    n_floor = 40 if chk.tier == "quick" else 1500
    for t in range(n_floor):
        method = ["knn", "knn", "kde", "geometric_knn"][t % 4] if t % 8 else "poisson"
        N = int(rng.integers(30, 80)) if method != "geometric_knn" else int(rng.integers(20, 30))
        n = int(rng.choice([5, 19, 40]))
        alpha = float(rng.choice([0.01, 0.05, 0.1, 0.2]))
        if method == "poisson":
            X, Y = rng.poisson(3, (N, 1)).astype(float), rng.poisson(2, (N, 1)).astype(float)
            Z = None if t % 3 == 0 else rng.poisson(2, (N, 1)).astype(float)
        else:
            X, Y = rng.standard_normal((N, 1)), rng.standard_normal((N, 1))
            Z = None if t % 3 == 0 else rng.standard_normal((N, int(rng.integers(1, 3))))
        k = int(rng.integers(3, 8))
        metric = str(rng.choice(["euclidean", "chebyshev"]))
        with np.errstate(all="ignore"), lib.quiet():
            obs = float(orig_cmi(X, Y, Z, method=method, metric=metric, k=k, bandwidth="silverman"))
        chk.count("floor_stream.calls")
        if obs != 0.0:
            chk.count("floor_stream.observed_above_floor")
            continue
        seed = int(rng.integers(0, 2**31))
        keep = (X.copy(), Y.copy(), None if Z is None else Z.copy())
        with np.errstate(all="ignore"), lib.quiet():
            res = disc.shuffle_test(X, Y, Z, obs, alpha=alpha, n_shuffles=n, rng=seed, information=method, metric=metric,
                                    k_means=k, bandwidth="silverman")
        chk.count("floor_stream.observed_at_floor." + method)
        d = {"stream": "floor-tie (nothing patched)", "information": method, "metric": metric, "k_means": k, "alpha": alpha,
             "n_shuffles": n, "seed": seed, "X": X.ravel().tolist(), "Y": Y.ravel().tolist(), "Z": None if Z is None else Z.tolist(),
             "observed": obs, "impl": {k_: (bool(v) if k_ == "Pass" else float(v)) for k_, v in res.items()}}
        chk.case(key=("floor", method, seed, N), nontrivial=True)
        thr, pv = float(res["Threshold"]), float(res["P_value"])
        f = None
        if np.isfinite(thr) and thr < 0:
            f = f"Threshold {thr} is negative although every value of the '{method}' estimator is >= 0: not a quantile of the surrogate values"
        elif np.isfinite(thr) and pv != 1.0:
            f = f"observed value 0.0 is the estimator's floor, so every surrogate value is >= it, but P_value = {pv}"
        elif bool(res["Pass"]) and np.isfinite(thr):
            f = f"observed value 0.0 merely ties with / lies below the whole null (floor) but was declared significant (p = {pv})"
        elif not (np.array_equal(X, keep[0]) and np.array_equal(Y, keep[1]) and (Z is None or np.array_equal(Z, keep[2]))):
            f = "caller's arrays were modified"
        if f:
            chk.violation("counterexample", f, d)
    lib.correspond(chk, "shuffle_model_vs_impl", IMPORTS, CASE_T, "check_case", cases, pf, lambda i: desc[i],
                   shard=500, jobs=12)
    chk.rule = ("shuffle_test called through the module seam with (a) a scripted estimator returning prescribed surrogate values "
                "(all tied at 0 / at the -1000 sentinel / at c, partly tied, tie-free grid, tie-free floats; observed tied / near / "
                "above / below; alpha from 12 rationals; n_shuffles 2..60, 101..160 (..500 thorough) and a few of 1025 / 1500 / 2051; rng as int, Generator, None; X with 1..3 "
                "columns, Z present or None) and (b) the five real estimators spied. Distinct = distinct (alpha, n, values, observed).")


def replay(chk, rep):
    import causationentropy.core.discovery as disc
    global orig_cmi
    orig_cmi = disc.conditional_mutual_information
    r = rep["replay"].get("first_disagreeing_case", rep["replay"])
    nulls, obs, n, alpha = r["null_values"], r["observed"], r["n_shuffles"], r["alpha"]
    T = 6
    rg = np.random.default_rng(0)
    X, Y = rg.standard_normal((T, 1)), rg.standard_normal((T, 1))
    settings = {"method": "gaussian", "metric": "euclidean", "k": 5, "bandwidth": "silverman"}
    res, log, fail, _ = run_one(disc, X, Y, None, obs, alpha, n, 1, settings, lambda i, d: nulls[i] if i < len(nulls) else 0.0, None)
    fail = fail or coherent(res, n, Fraction(alpha))
    print("replay:", res, "->", fail or "coherent")
    if fail:
        chk.violation("counterexample", fail, r)
    chk.case(key="replay", sample=r)
    chk.case(key="replay2")
