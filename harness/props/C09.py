"""C09 -- dispatcher = named estimator with the given settings, floored at zero."""
import inspect
import math

import numpy as np

import lib
import translate
from lib import qlit, coq_list, coq_str, coq_bool

IMPORTS = ("From Coq Require Import List QArith String Bool.\nImport ListNotations.\n"
           "From CE Require Import Model.Harness Model.Dispatch.\nOpen Scope string_scope.\n")
NAMES = ["gaussian", "kde", "kernel_density", "knn", "geometric_knn", "poisson"]
SETTINGS = ["k", "metric", "bandwidth", "kernel"]
FUNCS = ["gaussian_conditional_mutual_information", "kde_conditional_mutual_information", "knn_conditional_mutual_information",
         "geometric_knn_conditional_mutual_information", "poisson_conditional_mutual_information", "gaussian_mutual_information",
         "kde_mutual_information", "knn_mutual_information", "geometric_knn_mutual_information"]
COND = {"gaussian": "gaussian_conditional_mutual_information", "kde": "kde_conditional_mutual_information",
        "kernel_density": "kde_conditional_mutual_information", "knn": "knn_conditional_mutual_information",
        "geometric_knn": "geometric_knn_conditional_mutual_information", "poisson": "poisson_conditional_mutual_information"}
UNCOND = {"gaussian": "gaussian_mutual_information", "kde": "kde_mutual_information", "kernel_density": "kde_mutual_information",
          "knn": "knn_mutual_information", "geometric_knn": "geometric_knn_mutual_information", "poisson": None}


def coq_val(v):
    v = float(v)
    return "NaN" if math.isnan(v) else ("PInf" if v > 0 else "NInf") if math.isinf(v) else f"(Fin {qlit(v)})"


def same(a, b):
    a, b = float(a), float(b)
    return (math.isnan(a) and math.isnan(b)) or a == b


def run(chk):
    import importlib
    import sys
    importlib.import_module("causationentropy.core.information.conditional_mutual_information")
    M = sys.modules["causationentropy.core.information.conditional_mutual_information"]
    rng = np.random.default_rng(chk.seed)
    chk.theorems()
    lib.translator_lemma(chk, "route_facts", translate.route_facts, translate.coq_route_facts, "")
    chk.trusted += ["Coq 8.16.1 kernel + vm_compute", "harness/translate.py (dispatcher if-chain, Z-is-None heads, signatures; fail-closed)",
                    "harness/props/C09.py: spies wrapping every estimator function in the dispatcher's module namespace"]
    # the unconditional estimators live in mutual_information.py; the dispatcher's module usually imports them, but a version
    # that no longer does (one code path for Z = None) must not stop the check: the reference functions are then taken from their
    # defining module and only the names present in the dispatcher's namespace are wrapped
    MI = importlib.import_module("causationentropy.core.information.mutual_information")
    orig = {f: getattr(M, f, None) or getattr(MI, f) for f in FUNCS}
    present = [f for f in FUNCS if hasattr(M, f)]
    sigs = {f: inspect.signature(orig[f]) for f in FUNCS}
    log = []

    def wrap(f):
        def w(*a, **kw):
            ba = sigs[f].bind(*a, **kw)
            ba.apply_defaults()
            log.append((f, {s: ba.arguments[s] for s in SETTINGS if s in ba.arguments}))
            return orig[f](*a, **kw)
        return w
    rc, rp, rd = [], [], []
    n_cases = 400 if chk.tier == "quick" else 9000
    datasets = []
    for _ in range(3):
        N = int(rng.integers(10, 15))
        X = rng.standard_normal((N, 1))
        Y = 0.7 * X + 0.5 * rng.standard_normal((N, 1))
        Z = 0.5 * X + rng.standard_normal((N, 2))
        Xc, Yc, Zc = rng.poisson(3, (N, 1)).astype(float), rng.poisson(3, (N, 1)).astype(float), rng.poisson(2, (N, 2)).astype(float)
        datasets.append((N, X, Y, Z, Xc, Yc, Zc))
    # degenerate but legal conditioning sets: all zeros, a constant column, a zero column beside an ordinary one
    N, X, Y, Z, Xc, Yc, Zc = datasets[0]
    datasets.append((N, X, Y, np.zeros((N, 2)), Xc, Yc, np.zeros((N, 2))))
    datasets.append((N, X, Y, np.column_stack([np.full(N, 3.0), Z[:, 0]]), Xc, Yc, np.column_stack([np.full(N, 2.0), Zc[:, 0]])))
    datasets.append((N, X, Y, np.column_stack([np.zeros(N), Z[:, 1]]), Xc, Yc, np.column_stack([np.zeros(N), Zc[:, 1]])))
    # degenerate but legal X / Y: Y an exact copy of X, a constant X, a duplicated column inside X (singular or undefined correlation)
    datasets.append((N, X, X.copy(), Z, Xc, Xc.copy(), Zc))
    datasets.append((N, np.full((N, 1), 1.5), Y, Z, np.full((N, 1), 2.0), Yc, Zc))
    # (the conditional Poisson estimator needs X and Y of equal width: its count version has a two-column Y as well)
    datasets.append((N, np.column_stack([X[:, 0], X[:, 0]]), Y, Z, np.column_stack([Xc[:, 0], Xc[:, 0]]),
                     np.column_stack([Yc[:, 0], rng.poisson(3, N).astype(float)]), Zc))
    ND = len(datasets)
    # every degenerate dataset meets every estimator name with and without Z once; the remaining cases are drawn at random
    plan = [(di, nm, z) for di in range(3, ND) for nm in NAMES for z in (False, True)]
    for f in present:
        setattr(M, f, wrap(f))
    try:
        for t in range(n_cases):
            name = NAMES[t % 6] if rng.random() < 0.93 else str(rng.choice(["kernel", "KDE", "", "knn ", "gauss", "k", "density", "geometric", "Poisson"]))
            zp = bool((t // 6) % 2)
            N, X, Y, Z, Xc, Yc, Zc = datasets[t % 3] if rng.random() < 0.8 else datasets[3 + int(rng.integers(0, ND - 3))]
            if t < len(plan):
                di, name, zp = plan[t]
                N, X, Y, Z, Xc, Yc, Zc = datasets[di]
                chk.count("degenerate_dataset_plan")
            degenerate = Z.shape[0] and (not np.any(Z[:, 0] - Z[0, 0]))
            if name == "poisson":
                X, Y, Z = Xc, Yc, Zc
            if rng.random() < 0.2:              # count data handed over with an integer dtype, for every estimator name
                X, Y, Z = Xc.astype(np.int64), Yc.astype(np.int64), Zc.astype(np.int64)
                chk.count("inputs.int64_counts")
            st = {"k": int(rng.integers(1, N)), "metric": str(rng.choice(["euclidean", "cityblock", "chebyshev"])),
                  "bandwidth": [str(rng.choice(["silverman", "scott"])), float(rng.choice([0.3, 0.75, 1.25]))][int(rng.random() < 0.4)],
                  "kernel": str(rng.choice(["gaussian", "gaussian", "tophat", "epanechnikov"]))}
            if name in ("kde", "kernel_density") and st["kernel"] != "gaussian" and not isinstance(st["bandwidth"], float):
                st["bandwidth"] = 1.25          # compact kernels with a tiny automatic bandwidth give log(0)
            del log[:]
            out, err = None, None
            try:
                out = M.conditional_mutual_information(X, Y, Z if zp else None, method=name, **st)
            except ValueError as e:
                err = "ValueError"
            except Exception as e:
                err = type(e).__name__
            calls = list(log)
            fail, match = None, None
            arrived, callee = [], ""
            if name not in NAMES:
                if err != "ValueError":
                    fail = f"unknown estimator name {name!r} did not raise ValueError (returned {out!r}, raised {err})"
            elif err is not None:
                # the named estimator itself may reject degenerate data; the dispatcher must then fail the same way
                cname = COND[name]
                derr = None
                try:
                    with np.errstate(all="ignore"):
                        (orig[cname] if zp or UNCOND[name] is None else orig[UNCOND[name]])(
                            *((X, Y, Z if zp else None) if zp or UNCOND[name] is None else (X, Y)),
                            **{s_: st[s_] for s_ in SETTINGS if s_ in sigs[cname if zp or UNCOND[name] is None else UNCOND[name]].parameters})
                except Exception as e2:
                    derr = type(e2).__name__
                if derr != err:
                    fail = f"{err} raised for supported name {name!r} although the named estimator {'raises ' + derr if derr else 'returns a value'} on the same data"
                else:
                    chk.count("both_raise." + err)
            else:
                cname = COND[name]
                direct_fn = orig[cname] if zp or UNCOND[name] is None else orig[UNCOND[name]]
                accepted = [s for s in SETTINGS if s in sigs[cname if zp or UNCOND[name] is None else UNCOND[name]].parameters]
                args = (X, Y, Z) if zp or UNCOND[name] is None else (X, Y)
                if UNCOND[name] is None and not zp:
                    args = (X, Y, None)
                v = direct_fn(*args, **{s: st[s] for s in accepted})
                exp = max(0.0, float(v)) if np.isfinite(v) else float(v)
                inner = [c for c in calls if c[0] == (cname if zp or UNCOND[name] is None else UNCOND[name])]
                callee = inner[-1][0] if inner else (calls[-1][0] if calls else "")
                arrived = [s for s in accepted if inner and inner[-1][1].get(s) == st[s]]
                dropped = [s for s in accepted if s not in arrived]
                if not same(out, exp):
                    fail = (f"dispatcher({name!r}, Z {'given' if zp else 'None'}, {st}) returned {out} but max(0, {direct_fn.__name__} with "
                            f"those settings) = {exp}")
                elif dropped:
                    fail = f"settings {dropped} did not reach {callee} unchanged"
                elif np.isfinite(out) and out < 0:
                    fail = f"finite negative result {out}"
                if fail and name == "geometric_knn" and not zp:
                    # known finding K1: k / metric are replaced by the callee's defaults on this one route and nothing else is wrong
                    vd = orig[UNCOND[name]](X, Y)
                    vd = max(0.0, float(vd)) if np.isfinite(vd) else float(vd)
                    if same(out, vd) and set(dropped) <= {"k", "metric"}:
                        match = {"site": "geometric_knn/Z=None", "dropped": "k,metric"}
            rp.append((fail, match))
            rc.append(f"({coq_str(name)}, {coq_bool(zp)}, {coq_str(callee)}, {coq_list([coq_str(s) for s in arrived])}, "
                      f"{coq_bool(err == 'ValueError')})")
            rd.append({"name": name, "Z": "given" if zp else None, "settings": st, "calls": [[c[0], {k: str(v) for k, v in c[1].items()}] for c in calls],
                       "result": None if out is None else float(out), "raised": err, "Z_first_column_constant": bool(degenerate), "Z": Z.tolist() if zp else None})
            chk.case(key=(name, zp, tuple(sorted((k, str(v)) for k, v in st.items())), t % 3), nontrivial=name in NAMES,
                     sample=rd[-1] if len(chk.samples) < 3 and t in (3, 10, 16) else None)
            chk.count("route." + (name if name in NAMES else "<unknown>") + (".Z" if zp else ".None"))
            if degenerate and zp:
                chk.count("degenerate_Z")
    finally:
        for f in present:
            setattr(M, f, orig[f])
    # known finding K1 is matched on the specific route; anything else is a violation
    pf = []
    for i, (fail, match) in enumerate(rp):
        if fail and match and not chk.violation("counterexample", fail, rd[i], match):
            pf.append(None)
            rc[i] = None
        else:
            pf.append(fail)
    keep = [i for i in range(len(rc)) if rc[i] is not None]
    # the K1 route is also exempt in the model-side check (is_K1)
    lib.correspond(chk, "routes_vs_model", IMPORTS + """
Definition set_eqb (a b : list string) : bool := forallb (fun x => mem x b) a && forallb (fun x => mem x a) b.
Definition check_route_case (c : string * bool * string * list string * bool) : bool :=
  let '(name, zp, callee, arrived, raised) := c in
  match lookup_route modelled_routes name zp with
  | None => raised
  (* every setting the model says is forwarded must have arrived (a setting whose passed value equals the callee's
     default cannot be told apart from a dropped one, so the converse is left to the predicate) *)
  | Some r => negb raised && String.eqb (r_callee r) callee && forallb (fun x => mem x arrived) (r_forwards r)
  end.
""", "string * bool * string * list string * bool", "check_route_case", [rc[i] for i in keep], [pf[i] for i in keep],
                   lambda j: rd[keep[j]], shard=600, jobs=4)
    # ---- the floor, with a scripted callee
    fc, fp, fd = [], [], []
    vals = [-1.0, -1e-300, -0.0, 0.0, 1e-300, 0.5, 3.0, float("nan"), float("inf"), float("-inf"), -1000.0,
            np.float64(-0.25), np.float32(-2.0), np.float64("nan"), np.array(-0.5), np.array([[-0.125]])] + \
           [float(v) for v in rng.standard_normal(60 if chk.tier == "quick" else 3000)]
    for i, v in enumerate(vals):
        name = NAMES[i % 6]
        cname = COND[name]
        setattr(M, cname, lambda *a, v=v, **kw: v)
        try:
            out = M.conditional_mutual_information(datasets[0][1], datasets[0][2], datasets[0][3], method=name)
        finally:
            setattr(M, cname, orig[cname])
        vin = float(np.asarray(v).reshape(-1)[0])
        exp = max(0.0, vin) if np.isfinite(vin) else vin
        o = float(np.asarray(out).reshape(-1)[0])
        fp.append(None if same(o, exp) else f"estimator value {vin} came back as {o}; max(0, v) with non-finite passed through is {exp}")
        fc.append(f"({coq_val(vin)}, {coq_val(o)})")
        fd.append({"estimator_value": repr(v), "dispatcher_returned": repr(out), "name": name})
        chk.case(key=("floor", repr(v), name), nontrivial=True)
        chk.count("floor." + ("nonfinite" if not np.isfinite(vin) else "negative" if vin < 0 else "nonnegative"))
    lib.correspond(chk, "floor_vs_model", IMPORTS, "val * val", "check_floor_case", fc, fp, lambda i: fd[i], shard=800, jobs=4)
    chk.rule = ("{6 names + unknown names} x {Z given, None} x k in 1..N-1 x 3 metrics x {silverman, scott, numeric} bandwidths x kernels on three "
                "small data sets (continuous and counts): spies record which estimator function received which settings; the dispatcher's value "
                "must equal max(0, v) of the named estimator called directly with the explicit settings. Scripted callee values (negative, -0.0, "
                "tiny, NaN, +-inf, NumPy scalars/arrays) exercise the floor. Distinct = distinct (name, Z, settings, data set).")
