"""C07 -- discovery is a deterministic function of (data, parameters) only.

History correspondence: random operation sequences interleave calls of discover_network on a probe request under
different PRESENTATIONS of the same numbers (C / Fortran ndarray, strided view, nested lists, labelled DataFrame,
integer-typed counts, mixed int/float frame) with calls on other requests, np.random.seed / random.seed, draws
from both global generators and calls of other package functions.  The property predicate (Python, on the
implementation alone): every answer to the same abstract request is the identical canonical edge list (bit-equal
cmi and p-value), nodes are named after the presentation's labels, and np.random.get_state() /
random.getstate() are unchanged across every call.  The same histories are evaluated by the Coq History model
(coq/Model/History.v) inside the kernel.  Static side: harness/translate_C07.py regenerates the effect table of
the package and coq/Model/Effects.v's checks are re-proved on it.
"""
import contextlib
import hashlib
import io
import math
import multiprocessing as mp
import os
import random
import sys
import time
import warnings

import numpy as np
import pandas as pd

import lib
import translate_C07
from lib import qlit, zlit, coq_list, coq_str

IMPORTS = ("From Coq Require Import List ZArith QArith String Bool.\nImport ListNotations.\n"
           "From CE Require Import Model.Harness Model.History.\nOpen Scope string_scope.\nOpen Scope Q_scope.\n")
METHODS = ["standard", "alternative", "information_lasso", "lasso"]
INFOS = ["gaussian", "knn", "kde", "geometric_knn", "poisson"]
SLOW = {("poisson", "standard"), ("poisson", "alternative"), ("geometric_knn", "standard"), ("geometric_knn", "alternative")}
LABEL_SCHEMES = [["a", "b", "c", "d", "e"], ["X1", "X0", "X3", "X2", "X4"], ["X2", "x 1", "X0", "node-3", "X9"], [10, 20, 5, 7, 3],
                 ["0", "1", "2", "3", "4"], [1, 0, 3, 2, 4], ["temp", "flow", "X1", "level", "X0"]]


# ------------------------------------------------------------------------------------------------
# history specifications (pure data, generated in the parent from the run's seed)
# ------------------------------------------------------------------------------------------------
def gen_matrix(rng, T, n, kind):
    if kind == "counts":
        X = rng.poisson(3.0, (T, n)).astype(float)
        for t in range(1, T):
            X[t, -1] = rng.poisson(0.5 + X[t - 1, 0])
            if n > 2:
                X[t, 1] = rng.poisson(0.5 + 0.7 * X[t - 1, 1])
        return X
    X = rng.standard_normal((T, n))
    for t in range(1, T):
        X[t, -1] += 0.8 * X[t - 1, 0]
        if n > 2:
            X[t, 1] += 0.5 * X[t - 1, 1]
    if kind == "real":
        return X
    if kind == "grid":                       # dyadic grid: short exact literals, no ties to speak of
        return np.round(X * 64) / 64
    if kind == "intgrid":                    # integer valued, some ties
        return np.round(X * 6)
    raise ValueError(kind)


def gen_history(seed, idx, method, info, tier, search=False, dead_chain=False):
    """search=True: tie-prone variant (duplicated column, integer-valued data) used for the failing-input search that
    follows a broken static obligation"""
    rng = np.random.default_rng([seed, idx, 7])
    slow = (info, method) in SLOW
    if slow:
        T, n, L, ns = int(rng.integers(28, 34)), 2, 1, int(rng.integers(15, 22))
    elif info in ("kde", "geometric_knn", "poisson"):
        T, n, L, ns = int(rng.integers(30, 45)), int(rng.integers(2, 4)), int(rng.integers(1, 3)), int(rng.integers(20, 30))
        if n == 3 and L == 2:
            L = 1
    else:
        T, n, L, ns = int(rng.integers(30, 61)), int(rng.integers(2, 4)), int(rng.integers(1, 3)), int(rng.integers(20, 51))
    if method in ("lasso", "information_lasso") and not slow and rng.random() < 0.4:
        # short, wide record: T - max_lag <= n * max_lag + 1 sends the LASSO selectors down their plain-Lasso fallback
        n, L = int(rng.integers(3, 5)), 2
        T = int(rng.integers(L + 3, n * L + L + 2))
    if info == "poisson":
        kind = "counts"
    else:
        kind = str(rng.choice(["real", "grid", "intgrid", "counts"], p=[0.3, 0.2, 0.3, 0.2]))
    if search and info != "poisson":
        kind = str(rng.choice(["intgrid", "counts", "real"]))
    if dead_chain:
        kind = "real"
    dead = (not slow) and info in ("gaussian", "knn") and kind.split("+")[0] in ("real", "grid") and \
        (dead_chain or rng.random() < (0.5 if search else 0.2))
    dead_combo = [(0.1, 200), (3.3, 100), (37.2, 128), (0.7, 100)][int(rng.integers(0, 4))]
    if dead and not (method in ("lasso", "information_lasso") and T <= n * L + L + 2):
        # a dead channel: one variable is exactly constant at a non-dyadic value, in a record long enough for the rounding of a
        # column sum to depend on the order of summation (C-ordered vs column-contiguous presentations of the same numbers)
        T = dead_combo[1]
        ns = min(ns, 25)
    A = gen_matrix(rng, T, n, kind)
    if dead and A.shape[0] >= 100:
        if dead_chain:
            # weakly coupled chain x0 -> x2 -> x3 -> x4 (coefficient 0.2): several borderline tests per target, so that every draw
            # of the per-call generator matters for the p-values
            n = 5
            e = rng.normal(size=(T, n))
            A = np.zeros((T, n))
            for t_ in range(1, T):
                A[t_, 0] = 0.3 * A[t_ - 1, 0] + e[t_, 0]
                for j in range(2, n):
                    A[t_, j] = 0.2 * A[t_ - 1, j - 1 if j > 2 else 0] + e[t_, j]
            A[:, 1] = dead_combo[0]
            L = 1
            kind = "weak_chain"
        else:
            A[:, int(rng.integers(0, n))] = dead_combo[0]
        kind += "+dead_channel"
    if rng.random() < (0.7 if search else 0.12):                  # a duplicated sensor: bit-identical columns, exact ties between candidates
        A[:, 1] = A[:, 0]
        kind += "+duplicated_column"
    params = dict(method=method, information=info, max_lag=L, alpha_forward=float(rng.choice([0.05, 0.1, 0.2])),
                  alpha_backward=float(rng.choice([0.05, 0.1])), k_means=int(rng.integers(2, 5)), n_shuffles=ns,
                  metric=str(rng.choice(["euclidean", "chebyshev"])) if info == "knn" else "euclidean", bandwidth="silverman")
    reqs = [{"data": A, "params": params}]
    # other requests: nearly the same data (one entry moved), fresh data of another shape, same data / other parameters
    n_other = 1 if slow else int(rng.integers(1, 3))
    for j in range(n_other):
        v = int(rng.integers(0, 3))
        if v == 0:
            B = A.copy()
            B[int(rng.integers(0, T)), int(rng.integers(0, n))] += 1.0
            reqs.append({"data": B, "params": params})
        elif v == 1:
            T2 = T + int(rng.integers(-3, 4))
            reqs.append({"data": gen_matrix(rng, T2, n if slow else int(rng.integers(2, 4)), kind.split("+")[0].replace("weak_chain", "real")), "params": params})
        else:
            p2 = dict(params)
            which = str(rng.choice(["n_shuffles", "alpha_backward", "k_means"]))
            p2[which] = {"n_shuffles": ns + 3, "alpha_backward": 0.2, "k_means": params["k_means"] + 1}[which]
            reqs.append({"data": A, "params": p2})
    # the requests of one history are pairwise different in (data, parameters)
    uniq = []
    for r in reqs:
        if not any(r["params"] == u["params"] and r["data"].shape == u["data"].shape and np.array_equal(r["data"], u["data"])
                   for u in uniq):
            uniq.append(r)
    reqs = uniq
    length = int(rng.integers(3, 7 if slow else 13))
    n_probe = 2 if slow else int(rng.integers(2, min(5, length) + 1))
    n_oth = min(length - n_probe, int(rng.integers(0, 2 if slow else 3)))
    ops = [("call", 0)] * n_probe + [("call", int(rng.integers(1, len(reqs)))) for _ in range(n_oth)]
    while len(ops) < length:
        k = int(rng.integers(0, 6))
        ops.append([("np_seed", int(rng.integers(0, 2 ** 31))), ("py_seed", int(rng.integers(0, 2 ** 31))),
                    ("np_draw", int(rng.integers(1, 700))), ("py_draw", int(rng.integers(1, 700))),
                    ("other_api", int(rng.integers(0, 4))), ("np_seed", 42)][k])
    order = rng.permutation(len(ops))
    ops = [ops[i] for i in order]
    scheme = LABEL_SCHEMES[int(rng.integers(0, len(LABEL_SCHEMES)))]
    out = []
    for op in ops:
        if op[0] == "call":
            X = reqs[op[1]]["data"]
            kinds = ["arr_c", "arr_f", "arr_view", "nested", "frame", "frame_cols"]
            if np.all(X == np.round(X)):
                kinds += ["int_c", "int_f", "int_nested", "int_frame", "mixed_frame", "int_c", "int_frame"]
            out.append(("call", op[1], str(rng.choice(kinds)), scheme[:X.shape[1]]))
        else:
            out.append(op)
    if not slow and rng.random() < (1.0 if search else 0.5):
        # buffer-reuse pattern: A, then nearly-the-same data B of the same shape, then A again, all as C-ordered arrays (which
        # run_history hands over in ONE persistent buffer refilled in place)
        jB = next((j for j in range(1, len(reqs)) if reqs[j]["data"].shape == A.shape and reqs[j]["params"] == params
                   and not np.array_equal(reqs[j]["data"], A)), None)
        if jB is None:
            B = A.copy()
            B[int(rng.integers(0, T)), int(rng.integers(0, n))] += 1.0
            reqs.append({"data": B, "params": params})
            jB = len(reqs) - 1
        lab = scheme[:A.shape[1]]
        out += [("call", 0, "arr_c", lab), ("call", jB, "arr_c", lab), ("call", 0, "arr_c", lab)]
    if "dead_channel" in kind:        # the same request in row-contiguous and in column-contiguous presentations
        lab = scheme[:A.shape[1]]
        out += [("call", 0, "arr_c", lab), ("call", 0, "arr_f", lab), ("call", 0, "frame_cols", lab), ("call", 0, "nested", lab)]
    return {"idx": idx, "method": method, "info": info, "kind": kind, "T": T, "n": n, "reqs": reqs, "ops": out,
            "init": (int(rng.integers(0, 2 ** 31)), int(rng.integers(0, 2 ** 31)))}


# ------------------------------------------------------------------------------------------------
# running a history against the implementation (in a worker process)
# ------------------------------------------------------------------------------------------------
def present(X, kind, labels):
    """-> (object handed to discover_network, expected node names)"""
    n = X.shape[1]
    default = [f"X{i}" for i in range(n)]
    Xi = X.astype(np.int64) if kind.startswith("int") or kind == "mixed_frame" else None
    if kind == "arr_c":
        return np.ascontiguousarray(X, dtype=float), default
    if kind == "arr_f":
        return np.asfortranarray(X, dtype=float), default
    if kind == "arr_view":
        big = np.full((2 * X.shape[0], n + 1), -7.5)
        big[::2, :n] = X
        return big[::2, :n], default
    if kind == "nested":
        return [[float(v) for v in row] for row in X], default
    if kind == "frame":
        # the row index is neither data nor a parameter: countdown / shuffled-looking ids / dates must not matter
        T_ = X.shape[0]
        index = [None, list(range(T_ - 1, -1, -1)), [(7 * i + 3) % (T_ + 5) for i in range(T_)], None][int(np.sum(np.abs(X)) * 1000) % 4]
        return pd.DataFrame(np.array(X, dtype=float), columns=labels, index=index), list(labels)
    if kind == "frame_cols":
        return pd.DataFrame({l: np.array(X[:, j], dtype=float) for j, l in enumerate(labels)}), list(labels)
    if kind == "int_c":
        return np.ascontiguousarray(Xi), default
    if kind == "int_f":
        return np.asfortranarray(Xi), default
    if kind == "int_nested":
        return [[int(v) for v in row] for row in Xi], default
    if kind == "int_frame":
        return pd.DataFrame(Xi, columns=labels), list(labels)
    if kind == "mixed_frame":
        return pd.DataFrame({l: (Xi[:, j] if j % 2 == 0 else np.array(X[:, j], dtype=float)) for j, l in enumerate(labels)}), list(labels)
    raise ValueError(kind)


def np_state():
    s = np.random.get_state()
    return (s[0], s[1].copy(), s[2], s[3], s[4])


def np_state_eq(a, b):
    return a[0] == b[0] and np.array_equal(a[1], b[1]) and a[2:] == b[2:]


def digest_np(s):
    h = hashlib.sha1(repr((s[0], s[2], s[3], s[4])).encode() + s[1].tobytes()).digest()
    return int.from_bytes(h[:8], "big")


def digest_py(s):
    return int.from_bytes(hashlib.sha1(repr(s).encode()).digest()[:8], "big")


def bits(x):
    x = float(x)
    return "nan" if math.isnan(x) else x.hex()


def other_api(which, X):
    """something else from the package between two calls (may or may not touch the global generators: the
    states observed afterwards enter the model as data)"""
    from causationentropy.core.discovery import shuffle_test
    from causationentropy.core.information.conditional_mutual_information import conditional_mutual_information
    x, y = np.asarray(X, dtype=float)[:, [0]], np.asarray(X, dtype=float)[:, [-1]]
    if which == 0:
        conditional_mutual_information(x, y, None, method="gaussian")
    elif which == 1:
        shuffle_test(x, y, None, 0.1, n_shuffles=5, rng=None)          # fresh OS-entropy generator inside
    elif which == 2:
        from causationentropy.datasets.synthetic import logisic_dynamics
        logisic_dynamics(n=3, t=8, seed=int(abs(x[0, 0]) * 10) % 97)
    else:
        conditional_mutual_information(x, y, x + y, method="knn", k=2)


def run_history(spec):
    """returns the list of observed events; never raises"""
    from causationentropy.core.discovery import discover_network
    warnings.filterwarnings("ignore")
    np.random.seed(spec["init"][0])
    random.seed(spec["init"][1])
    ev = []
    bufs = {}
    t0 = time.time()
    start = (digest_np(np_state()), digest_py(random.getstate()))
    for op in spec["ops"]:
        rec = {"op": op[0]}
        try:
            if op[0] == "call":
                req = spec["reqs"][op[1]]
                obj, names = present(req["data"], op[2], op[3])
                if op[2] == "arr_c":
                    # one persistent buffer per shape, refilled IN PLACE for every call of that shape: object identity
                    # must not stand in for data identity (a cache keyed by id() would serve stale lagged matrices)
                    b = bufs.get(obj.shape)
                    if b is None:
                        b = bufs[obj.shape] = np.array(obj, dtype=float, copy=True)
                    else:
                        b[:] = obj
                    obj = b
                n0, p0 = np_state(), random.getstate()
                with contextlib.redirect_stdout(io.StringIO()):
                    try:
                        G = discover_network(obj, **req["params"])
                        err = None
                    except Exception as e:                        # noqa: BLE001
                        G, err = None, f"{type(e).__name__}: {e}"[:200]
                n1, p1 = np_state(), random.getstate()
                rec.update(req=op[1], pres=op[2], labels=list(op[3]), expected_nodes=names, error=err,
                           np_unchanged=np_state_eq(n0, n1), py_unchanged=(p0 == p1))
                if G is not None:
                    rec["nodes"] = list(G.nodes)
                    rec["edges"] = [(u, v, d.get("lag"), float(d.get("cmi")), float(d.get("p_value")))
                                    for u, v, d in G.edges(data=True)]
                    rec["extra_attrs"] = sorted({k for _, _, d in G.edges(data=True) for k in d} - {"lag", "cmi", "p_value"})
            elif op[0] == "np_seed":
                np.random.seed(op[1])
            elif op[0] == "py_seed":
                random.seed(op[1])
            elif op[0] == "np_draw":
                np.random.rand(op[1]) if op[1] % 2 else np.random.permutation(op[1])
            elif op[0] == "py_draw":
                [random.random() for _ in range(op[1])]
            elif op[0] == "other_api":
                with contextlib.redirect_stdout(io.StringIO()):
                    other_api(op[1], spec["reqs"][0]["data"])
        except Exception as e:                                    # noqa: BLE001  (harness-side failure)
            rec["harness_error"] = f"{type(e).__name__}: {e}"[:300]
        rec["np_after"], rec["py_after"] = digest_np(np_state()), digest_py(random.getstate())
        ev.append(rec)
    return {"idx": spec["idx"], "start": start, "events": ev, "wall": time.time() - t0}


# ------------------------------------------------------------------------------------------------
# the property predicate, on the implementation's observable behaviour alone
# ------------------------------------------------------------------------------------------------
def canonical(rec):
    """edges with node names mapped back to column indices, sorted; None if a name is not a label"""
    names = rec["expected_nodes"]
    idx = {l: i for i, l in enumerate(names)}
    out = []
    for u, v, lag, cmi, p in rec["edges"]:
        ku, kv = u, v
        if ku not in idx or kv not in idx:
            return None
        out.append((idx[kv], idx[ku], int(lag), bits(cmi), bits(p)))
    return sorted(out)


def answer_of(rec, where):
    """-> (answer, None) or (None, what is wrong with this answer taken alone)"""
    if rec["error"] is not None:
        return ("error", rec["error"]), None
    if list(rec["nodes"]) != list(rec["expected_nodes"]):
        return None, f"{where}: nodes {rec['nodes']!r} are not the labels {rec['expected_nodes']!r}"
    c = canonical(rec)
    if c is None:
        return None, f"{where}: an edge endpoint is not one of the labels"
    if len(set((e[0], e[1], e[2]) for e in c)) != len(c):
        return None, f"{where}: duplicate (source, target, lag) link"
    if any(not isinstance(lag, (int, np.integer)) for _, _, lag, _, _ in rec["edges"]):
        return None, f"{where}: non-integer lag"
    return ("graph", c), None


def predicate(events, refs):
    """None if the property holds on this history, else what failed.  refs: request index -> the call record
    of the same request answered in a fresh process with no history (C-ordered float array)."""
    ref_ans = {}
    for j, rec in refs.items():
        if "harness_error" in rec:
            return f"reference call of request {j}: harness error {rec['harness_error']}"
        a, bad = answer_of(rec, f"reference call of request {j} (fresh process, no history)")
        if bad:
            return bad
        ref_ans[j] = a
    for k, rec in enumerate(events):
        if "harness_error" in rec:
            return f"op {k}: harness error {rec['harness_error']}"
        if rec["op"] != "call":
            continue
        where = f"op {k} (request {rec['req']} presented as {rec['pres']})"
        if not rec["np_unchanged"]:
            return f"{where}: the call changed the state of the global NumPy generator"
        if not rec["py_unchanged"]:
            return f"{where}: the call changed the state of the global Python generator"
        ans, bad = answer_of(rec, where)
        if bad:
            return bad
        a0 = ref_ans[rec["req"]]
        if a0 != ans:
            detail = ""
            if a0[0] == "graph" and ans[0] == "graph":
                d = [e for e in ans[1] if e not in a0[1]][:2] + [e for e in a0[1] if e not in ans[1]][:2]
                detail = f"; differing links (dst, src, lag, cmi, p): {d}"
            return (f"{where}: answer differs from the answer to the same data and parameters given in a fresh process "
                    f"with no history (C-ordered float array): {len(a0[1]) if a0[0] == 'graph' else a0} vs "
                    f"{len(ans[1]) if ans[0] == 'graph' else ans} links{detail}")
    for j, rec in refs.items():
        if not (rec["np_unchanged"] and rec["py_unchanged"]):
            return f"reference call of request {j}: the call changed the state of a global generator"
    return None


# ------------------------------------------------------------------------------------------------
# Coq terms
# ------------------------------------------------------------------------------------------------
def enc_label(l):
    return l if isinstance(l, str) else (f"#{int(l)}" if isinstance(l, (int, np.integer)) else f"#{l!r}")


def coq_fnum(x):
    x = float(x)
    if math.isnan(x):
        return "NaN"
    if math.isinf(x):
        return "PInf" if x > 0 else "NInf"
    return f"(Fin {qlit(x)})"


def qrows(M):
    return coq_list([coq_list([qlit(float(v)) for v in r]) for r in M])


def zrows(M):
    return "(" + coq_list([coq_list([zlit(int(v)) for v in r]) for r in M]) + ")%Z"


def coq_presentation(obj, kind, labels):
    """the Coq `presentation` is built from the OBJECT that was handed to the implementation (its own memory
    order, dtypes and labels), not from the matrix it was made of"""
    if kind in ("arr_c", "arr_view"):
        return f"ArrC {qrows(obj.tolist())}"
    if kind == "arr_f":
        assert obj.flags["F_CONTIGUOUS"]
        return f"ArrF {qrows(obj.ravel(order='K').reshape(obj.shape[1], obj.shape[0]).tolist())}"
    if kind == "nested":
        return f"Nested {qrows(obj)}"
    if kind == "int_c":
        return f"IntArrC {zrows(obj.tolist())}"
    if kind == "int_f":
        assert obj.flags["F_CONTIGUOUS"]
        return f"IntArrF {zrows(obj.ravel(order='K').reshape(obj.shape[1], obj.shape[0]).tolist())}"
    if kind == "int_nested":
        return f"IntNested {zrows(obj)}"
    cols = []
    for j in range(obj.shape[1]):
        c = obj.iloc[:, j]
        if np.issubdtype(c.dtype, np.integer):
            cols.append("ZCol (" + coq_list([zlit(int(v)) for v in c.tolist()]) + ")%Z")
        else:
            cols.append("QCol " + coq_list([qlit(float(v)) for v in c.tolist()]))
    return f"Frame {coq_list([coq_str(enc_label(l)) for l in obj.columns])} {coq_list(cols)}"


def coq_params(p):
    return (f"(mk_params {coq_str(p['method'])} {coq_str(p['information'])} {zlit(p['max_lag'])}%Z {qlit(p['alpha_forward'])} "
            f"{qlit(p['alpha_backward'])} {zlit(p['k_means'])}%Z {zlit(p['n_shuffles'])}%Z {coq_str(p['metric'])} "
            f"{coq_str(str(p['bandwidth']))})")


def coq_events(spec, ops, events):
    evs = []
    for op, rec in zip(ops, events):
        a, b = f"{zlit(rec['np_after'])}%Z", f"{zlit(rec['py_after'])}%Z"
        if op[0] == "call":
            req = spec["reqs"][op[1]]
            obj, _ = present(req["data"], op[2], op[3])
            if rec.get("error") is not None or "nodes" not in rec:
                obs = f"([{coq_str('!error')}], [])"
            else:
                edges = coq_list([f"mk_named {coq_str(enc_label(u))} {coq_str(enc_label(v))} {zlit(lag)}%Z {coq_fnum(c)} {coq_fnum(p)}"
                                  for u, v, lag, c, p in rec["edges"]])
                obs = f"({coq_list([coq_str(enc_label(x)) for x in rec['nodes']])}, {edges})"
            evs.append(f"ECall ({coq_presentation(obj, op[2], op[3])}) {coq_params(req['params'])} {obs} {a} {b}")
        elif op[0] == "np_seed":
            evs.append(f"ESeedNp {a}")
        elif op[0] == "np_draw":
            evs.append(f"EDrawNp {a}")
        elif op[0] == "py_seed":
            evs.append(f"ESeedPy {b}")
        elif op[0] == "py_draw":
            evs.append(f"EDrawPy {b}")
        else:
            evs.append(f"EOther {a} {b}")
    return coq_list(evs)


def ref_op(spec, j):
    return ("call", j, "arr_c", [f"X{i}" for i in range(spec["reqs"][j]["data"].shape[1])])


def coq_case(spec, res, refs):
    # the History model has no notion of a rejected request: a request that is rejected (same exception) in the fresh
    # reference and at every call of the history is left to the Python predicate, which compares the exceptions, and its
    # calls become "anything else" events (world digests still checked)
    rejected = {j for j, r in refs.items() if r.get("error") is not None and
                all(e.get("error") == r.get("error") for o, e in zip(spec["ops"], res["events"]) if o[0] == "call" and o[1] == j)}
    js = sorted(j for j in refs if j not in rejected)
    ops = [("other_api", 0) if (o[0] == "call" and o[1] in rejected) else o for o in spec["ops"]]
    return (f"({zlit(res['start'][0])}%Z, {zlit(res['start'][1])}%Z, {len(js)}%nat, "
            f"{coq_events(spec, [ref_op(spec, j) for j in js], [refs[j] for j in js])}, "
            f"{coq_events(spec, ops, res['events'])})")


def run_task(task):
    spec, j = task
    if j is None:
        return (spec["idx"], None, run_history(spec))
    return (spec["idx"], j, run_history(dict(spec, ops=[ref_op(spec, j)])))


# ------------------------------------------------------------------------------------------------
# dynamic cross-check of the translator's call graph
# ------------------------------------------------------------------------------------------------
def observe_called_functions(seed):
    """package functions that actually run during discover_network calls (all methods x estimators, tiny data)"""
    from causationentropy.core.discovery import discover_network
    root = os.path.join(os.path.realpath(lib.REPO), "causationentropy") + os.sep
    seen = set()

    def note(code):
        fn = os.path.realpath(code.co_filename)
        if fn.startswith(root):
            seen.add(f"{fn[len(root):-3].replace(os.sep, '.')}:{code.co_qualname.split('.')[0]}")

    mon = getattr(sys, "monitoring", None)
    if mon is not None:                      # Python >= 3.12: one callback per code object, then disabled

        def started(code, offset):
            note(code)
            return mon.DISABLE
        mon.use_tool_id(mon.PROFILER_ID, "verif-C07")
        mon.register_callback(mon.PROFILER_ID, mon.events.PY_START, started)
        mon.restart_events()
        mon.set_events(mon.PROFILER_ID, mon.events.PY_START)
    else:
        sys.setprofile(lambda frame, event, arg: note(frame.f_code) if event == "call" else None)
    rng = np.random.default_rng([seed, 99])
    try:
        for info in INFOS:
            for method in METHODS:
                X = gen_matrix(rng, 18, 2, "counts")
                try:
                    with contextlib.redirect_stdout(io.StringIO()), warnings.catch_warnings():
                        warnings.simplefilter("ignore")
                        discover_network(X, method=method, information=info, max_lag=1, n_shuffles=4, k_means=2, alpha_forward=0.5)
                except Exception:       # noqa: BLE001  (tiny data may be rejected by an estimator: irrelevant here)
                    pass
    finally:
        if mon is not None:
            mon.set_events(mon.PROFILER_ID, 0)
            mon.register_callback(mon.PROFILER_ID, mon.events.PY_START, None)
            mon.free_tool_id(mon.PROFILER_ID)
        else:
            sys.setprofile(None)
    return sorted(x for x in seen if not x.endswith(":<module>"))


def negative_controls(chk, specs, results, references):
    """the in-kernel checker must reject corrupted copies of a real observed history (it is not vacuous)"""
    import copy
    pick = None
    for spec in specs:
        evs = results[spec["idx"]]["events"]
        calls = [k for k, e in enumerate(evs) if e["op"] == "call" and e["req"] == 0 and e.get("edges")]
        if len(calls) >= 2 and predicate(evs, references[spec["idx"]]) is None:
            pick = (spec, calls[-1])
            break
    if pick is None:
        chk.count("negative_controls_skipped_no_suitable_history")
        return
    spec, k = pick
    res, refs = results[spec["idx"]], references[spec["idx"]]
    variants = [("unchanged", res)]

    def variant(name, f):
        r = copy.deepcopy(res)
        f(r["events"][k])
        variants.append((name, r))
    def bump_cmi(e):
        u, v, lag, c, p = e["edges"][0]
        e["edges"][0] = (u, v, lag, float(np.nextafter(c, np.inf)), p)
    def bump_p(e):
        u, v, lag, c, p = e["edges"][-1]
        e["edges"][-1] = (u, v, lag, c, p + 1.0 / 64)
    variant("cmi_one_ulp", bump_cmi)
    variant("p_value_moved", bump_p)
    variant("edge_dropped", lambda e: e["edges"].pop())
    variant("lag_changed", lambda e: e["edges"].__setitem__(0, (e["edges"][0][0], e["edges"][0][1], e["edges"][0][2] + 1) + tuple(e["edges"][0][3:])))
    variant("node_renamed", lambda e: e.__setitem__("nodes", ["zz"] + list(e["nodes"][1:])))
    variant("numpy_generator_moved", lambda e: e.__setitem__("np_after", e["np_after"] ^ 1))
    variant("python_generator_moved", lambda e: e.__setitem__("py_after", e["py_after"] ^ 1))
    defs = "\n".join(f"Definition c{i} : history_case := {coq_case(spec, r, refs)}." for i, (_, r) in enumerate(variants))
    vals = lib.run_cases(chk.pid, "negative_controls", IMPORTS, defs, [f"check_history_case c{i}" for i in range(len(variants))])
    want = ["true"] + ["false"] * (len(variants) - 1)
    wrong = [variants[i][0] for i in range(len(variants)) if vals[i] != want[i]]
    chk.oblige("negative-control", "in-kernel history checker accepts a real history and rejects 7 corruptions of it", not wrong,
               f"history {spec['idx']} ({spec['method']}, {spec['info']}), corrupted call = op {k}; wrong verdicts: {wrong or 'none'}")


# ------------------------------------------------------------------------------------------------
def plan(tier, seed):
    combos = []
    if tier == "quick":
        per = {"gaussian": 3, "knn": 2, "poisson": 2, "kde": 1, "geometric_knn": 1}
        for info in INFOS:
            for method in METHODS:
                combos += [(method, info)] * per[info]
        rng = np.random.default_rng([seed, 5])
        for _ in range(4):
            combos.append((METHODS[int(rng.integers(0, 4))], INFOS[int(rng.integers(0, 3))]))
    else:
        for info in INFOS:
            for method in METHODS:
                combos += [(method, info)] * (45 if (info, method) in SLOW else 75)
    return combos


def run(chk):
    from causationentropy.core.discovery import discover_network  # noqa: F401  (import before forking)
    chk.theorems()
    observed = observe_called_functions(chk.seed)
    chk.extra["dynamically_observed_functions"] = observed
    fact = lib.translator_lemma(chk, "effect_table", translate_C07.effect_table, translate_C07.render(observed), "")
    if fact is not None:
        chk.count("effect_table.functions", len(fact["functions"]))
        chk.count("effect_table.flagged_functions_in_package_scope", sum(1 for e in fact["functions"] if e["flags"]))
        chk.extra["effect_table_findings"] = {
            "flagged": {e["name"]: e["flags"] for e in fact["functions"] if e["flags"]},
            "bad_generator_binding": [e["name"] for e in fact["functions"] if e["rngk"] == "RngBad"],
            "rng_not_passed_on": [[e["name"], c] for e in fact["functions"] for c, a in e["calls"] if a in ("ArgMissing", "ArgOther")],
            "root_generator": fact["root_rng"]}
        # self-test of the reader: textual variants of today's discovery.py must fail at least one of the three checks
        variants = translate_C07.selftest_tables()
        if variants:
            defs = "\n".join(f"Definition t{k} : table := {translate_C07.coq_table(f)}." for k, (_, f) in enumerate(variants))
            q = [f'let r := {coq_str(fact["root"])} in no_global_rng_reachable t{k} r && seed_is_literal t{k} r && '
                 f'rng_threaded_to_every_test t{k} r {coq_list([coq_str(t) for t in fact["tests"]])}' for k in range(len(variants))]
            vals = lib.run_cases(chk.pid, "effect_selftest", "From Coq Require Import List ZArith String Bool.\nFrom CE Require Import "
                                 "Model.Effects.\nImport ListNotations.\nOpen Scope string_scope.\nOpen Scope Z_scope.\n", defs, q)
            missed = [variants[k][0] for k, v in enumerate(vals) if v != "false"]
            chk.oblige("translator-selftest", "effect-table reader rejects hidden-state variants of today's source", not missed,
                       f"{len(variants)} variants ({', '.join(n for n, _ in variants)}); accepted: {missed or 'none'}")
            chk.count("effect_table.selftest_variants", len(variants))
    chk.trusted += ["Coq 8.16.1 kernel + vm_compute",
                    "harness/translate_C07.py: Python-ast reader of the effect table (fail-closed; its call graph is "
                    "cross-checked against functions observed running under sys.setprofile)",
                    "harness/props/C07.py: presentations are rebuilt for Coq from the very objects handed to the "
                    "implementation; digests (sha1, 64 bit) of np.random.get_state() / random.getstate() stand for the states in Coq; "
                    "the Python predicate compares the full state tuples",
                    "hidden state outside the package (scikit-learn, SciPy, BLAS threads) is only observed, not analysed",
                    "estimators, the permutation stream of default_rng(42) and LASSO selectors are exercised, not modelled "
                    "(`discover` is a Section variable of the model)"]
    chk.assumptions += ["DataFrame column labels are pairwise distinct (otherwise node names cannot be mapped back)",
                        "single process, single BLAS thread (OMP_NUM_THREADS=1 as set by ./check)",
                        "answers are compared bit for bit: same interpreter, same libraries, same machine"]
    combos = plan(chk.tier, chk.seed)
    specs = [gen_history(chk.seed, i, m, inf, chk.tier) for i, (m, inf) in enumerate(combos)]
    # weakly coupled chains with a dead channel (constant at a non-dyadic value), every presentation of the same request
    chains = [("standard", "gaussian"), ("alternative", "gaussian"), ("standard", "gaussian")] * (1 if chk.tier == "quick" else 6)
    specs += [gen_history(chk.seed, 10000 + i, m, inf, chk.tier, dead_chain=True) for i, (m, inf) in enumerate(chains)]
    if any(not o["ok"] for o in chk.obligations if o["kind"] == "translator-lemma") or os.environ.get("C07_FORCE_SEARCH"):
        # DESIGN 2.7: a static obligation no longer checks -> spend a dedicated budget searching for a failing input:
        # tie-prone histories (duplicated columns, integer-valued data) over every method and the fast estimators
        extra = [(m, inf) for _ in range(3) for m in METHODS for inf in ("knn", "gaussian", "kde")] + \
                [(m, "geometric_knn") for m in ("information_lasso", "lasso", "standard")]
        specs += [gen_history(chk.seed, len(combos) + i, m, inf, chk.tier, search=True) for i, (m, inf) in enumerate(extra)]
        chk.count("search_histories_after_broken_static_obligation", len(extra))
    # one task per history and one per (history, request) reference call; every task runs in a fresh forked process
    # (maxtasksperchild=1), so a reference has no history at all.  Costly ones first (better packing).
    order = sorted(range(len(specs)), key=lambda i: (0 if (specs[i]["info"], specs[i]["method"]) in SLOW else 1, i))
    tasks = []
    for i in order:
        tasks.append((specs[i], None))
        tasks += [(specs[i], j) for j in sorted({op[1] for op in specs[i]["ops"] if op[0] == "call"})]
    workers = min(14 if chk.tier == "thorough" else 10, os.cpu_count() or 2)
    t0 = time.time()
    ctx = mp.get_context("fork")
    with ctx.Pool(workers, maxtasksperchild=1) as pool:
        res_list = pool.map(run_task, tasks, chunksize=1)
    results = {idx: r for idx, j, r in res_list if j is None}
    references = {}
    for idx, j, r in res_list:
        if j is not None:
            references.setdefault(idx, {})[j] = r["events"][0]
    chk.stats["impl_wall_s"] = round(time.time() - t0, 1)
    chk.stats["impl_cpu_s"] = round(sum(r["wall"] for _, _, r in res_list), 1)
    cases, pf, desc = [], [], []
    for spec in specs:
        res = results[spec["idx"]]
        evs = res["events"]
        calls = [e for e in evs if e["op"] == "call"]
        first_err = references[spec["idx"]][0].get("error")
        if first_err is not None and all(e.get("error") == first_err for e in calls if e["req"] == 0):
            chk.count("histories_skipped_probe_request_rejected")       # consistently rejected request: nothing to compare
            continue
        refs = references[spec["idx"]]
        fail = predicate(evs, refs)
        pf.append(fail)
        cases.append(coq_case(spec, res, refs))
        chk.count("reference_calls_in_fresh_processes", len(refs))
        kinds = sorted({e["pres"] for e in calls if e["req"] == 0})
        d = {"method": spec["method"], "information": spec["info"], "values": spec["kind"], "T": spec["T"], "n": spec["n"],
             "params": spec["reqs"][0]["params"],
             "ops": [list(o[:3]) + ([[enc_label(l) for l in o[3]]] if o[0] == "call" else []) for o in spec["ops"]],
             "answers": [{"op": k, "request": e["req"], "presentation": e["pres"], "error": e.get("error"),
                          "nodes": [enc_label(x) for x in e.get("nodes", [])],
                          "edges": [[enc_label(u), enc_label(v), lag, c, p] for u, v, lag, c, p in e.get("edges", [])],
                          "np_unchanged": e["np_unchanged"], "py_unchanged": e["py_unchanged"]}
                         for k, e in enumerate(evs) if e["op"] == "call"],
             "reference_answers": {str(j): {"error": r.get("error"), "edges": [[enc_label(u), enc_label(v), lag, c, p]
                                                                              for u, v, lag, c, p in r.get("edges", [])]}
                                   for j, r in references[spec["idx"]].items()},
             "probe_data": spec["reqs"][0]["data"].tolist(), "history_index": spec["idx"]}
        desc.append(d)
        n_edges = max((len(e.get("edges", [])) for e in calls), default=0)
        chk.case(key=(spec["method"], spec["info"], spec["idx"], tuple(o[:3] for o in spec["ops"])),
                 nontrivial=len(kinds) >= 2 or len([e for e in calls if e["req"] == 0]) >= 2,
                 sample={k: d[k] for k in ("method", "information", "values", "T", "n", "ops")} if len(chk.samples) < 3 else None)
        chk.count("histories")
        chk.count(f"method.{spec['method']}")
        chk.count(f"estimator.{spec['info']}")
        chk.count(f"values.{spec['kind']}")
        chk.count("ops", len(evs))
        chk.count("discover_network_calls", len(calls))
        chk.count("calls_on_other_requests", len([e for e in calls if e["req"] != 0]))
        chk.count("histories_with_nonempty_graph" if n_edges else "histories_with_empty_graph")
        chk.count("histories_with_>=2_presentations_of_probe" if len(kinds) >= 2 else "histories_with_1_presentation_of_probe")
        for e in calls:
            chk.count(f"presentation.{e['pres']}")
        for o in spec["ops"]:
            if o[0] != "call":
                chk.count(f"op.{o[0]}")
        chk.count(f"history_length.{len(evs)}")
    negative_controls(chk, specs, results, references)
    lib.correspond(chk, "history_model_vs_impl", IMPORTS, "history_case", "check_history_case", cases, pf,
                   lambda i: desc[i], shard=(4 if chk.tier == "quick" else 20), jobs=12, timeout=1500)
    chk.rule = ("Random histories (3..12 operations) per method x estimator: >= 2 calls of discover_network on a probe request in "
                "randomly chosen presentations (C / Fortran / strided ndarray, nested lists, DataFrame from an array or from "
                "columns with string, permuted-default or integer labels; for integer-valued data also int64 ndarray C / F, lists of "
                "ints, int DataFrame, mixed int/float DataFrame), calls on other requests (one entry changed, other shape, other "
                "parameter), np.random.seed, random.seed, draws from both global generators, other package functions. Data: "
                "full-precision reals, dyadic grid, integer grid, Poisson counts, 12% with a duplicated column; T 28..60, n 2..3, max_lag 1..2, n_shuffles 15..50 "
                "(smallest sizes for the slow Poisson / geometric-kNN selections). Predicate: same abstract request => bit-identical "
                "canonical edge list AS THE REFERENCE ANSWER (same request answered once in a fresh process with no history, C-ordered "
                "float array), nodes = labels, full global generator states unchanged across every call. Coq: check_history_case runs "
                "the History model on the observed history with `discover` read off the references. Each history and each reference "
                "runs in its own freshly forked process. "
                "Distinct = distinct (method, estimator, history); non-trivial = probe answered at least twice.")
