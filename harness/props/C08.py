"""C08 -- Gaussian estimator equals the closed-form partial-covariance information."""
import math
import warnings
from fractions import Fraction

import numpy as np

import lib
from lib import zlit, zlist, zmat, coq_list

IMPORTS = ("From Coq Require Import List ZArith QArith Bool.\nImport ListNotations.\n"
           "From CE Require Import Model.Harness Model.Gauss.\n")
CASE_T = "list Z * list (list Z) * nat * nat * nat * bool * bool * (Z * Z) * list (Z * Z * Z * Z)"
ABS, REL = Fraction(1, 10 ** 8), Fraction(1, 10 ** 8)      # the property's tolerance
COND_MAX = 1e6
RES_BUDGET_S = {"quick": 2.0, "thorough": 6.0}      # estimated vm_compute seconds per sample
SEQ_BUDGET_S = {"quick": 1.0, "thorough": 3.0}


def tol_of(v):
    """1e-8 + 1e-8 |v| as an exact rational"""
    return ABS + REL * abs(Fraction(float(v)))


def ftol(v):
    return 1e-8 + 1e-8 * abs(float(v))


# ------------------------------------------------------------------------------------------------------
# exact reference (Python Fractions; independent of the Coq model): the property's closed form
#   1/2 [ log det S(X|Z) + log det S(Y|Z) - log det S(X,Y|Z) ],  S(A|Z) = S_AA - S_AZ S_ZZ^-1 S_ZA
# ------------------------------------------------------------------------------------------------------
def fr_scatter(cols):
    n = len(cols[0])
    s = [sum(c) for c in cols]
    return [[sum(a * b for a, b in zip(cols[i], cols[j])) - s[i] * s[j] / n for j in range(len(cols))]
            for i in range(len(cols))]


def fr_solve(A, B):
    """A^-1 B over Fractions (Gauss-Jordan with row search); None if singular"""
    n = len(A)
    M = [list(A[i]) + list(B[i]) for i in range(n)]
    for c in range(n):
        p = next((r for r in range(c, n) if M[r][c] != 0), None)
        if p is None:
            return None
        M[c], M[p] = M[p], M[c]
        pv = M[c][c]
        M[c] = [x / pv for x in M[c]]
        for r in range(n):
            if r != c and M[r][c] != 0:
                f = M[r][c]
                M[r] = [x - f * y for x, y in zip(M[r], M[c])]
    return [row[n:] for row in M]


def fr_det(A):
    n = len(A)
    M = [list(r) for r in A]
    d = Fraction(1)
    for c in range(n):
        p = next((r for r in range(c, n) if M[r][c] != 0), None)
        if p is None:
            return Fraction(0)
        if p != c:
            M[c], M[p] = M[p], M[c]
            d = -d
        d *= M[c][c]
        for r in range(c + 1, n):
            f = M[r][c] / M[c][c]
            if f:
                M[r] = [x - f * y for x, y in zip(M[r], M[c])]
    return d


def fr_partial(S, a, z):
    """Schur complement S_aa - S_az S_zz^-1 S_za = scatter of the least-squares residuals of columns a on (1, z)"""
    Saa = [[S[i][j] for j in a] for i in a]
    if not z:
        return Saa
    Szz = [[S[i][j] for j in z] for i in z]
    Sza = [[S[i][j] for j in a] for i in z]
    W = fr_solve(Szz, Sza)
    if W is None:
        return None
    return [[Saa[p][q] - sum(S[a[p]][z[k]] * W[k][q] for k in range(len(z))) for q in range(len(a))] for p in range(len(a))]


def flog(q):
    return math.log(q.numerator) - math.log(q.denominator)


def exact_cmi(cols, ix, iy, iz):
    """cols: list of columns of Fractions.  Returns (value as float, ratio as Fraction) or None when degenerate."""
    S = fr_scatter(cols)
    px, py, pxy = fr_partial(S, ix, iz), fr_partial(S, iy, iz), fr_partial(S, ix + iy, iz)
    if px is None:
        return None
    dx, dy_, dxy = fr_det(px), fr_det(py), fr_det(pxy)
    if dx <= 0 or dy_ <= 0 or dxy <= 0:
        return None
    q = dx * dy_ / dxy
    return 0.5 * flog(q), q


def exact_residual_form(cols, ix, iy, iz):
    """the same ratio from least-squares residual VECTORS (Gram-Schmidt in Q^N over Fractions): det S(X|Z) det S(Y|Z) / det S(XY|Z)"""
    n = len(cols[0])

    def dot(a, b):
        return sum(x * y for x, y in zip(a, b))
    basis = []
    for v in [[Fraction(1)] * n] + [cols[k] for k in iz]:
        w = list(v)
        for b in basis:
            c = dot(w, b) / dot(b, b)
            w = [x - c * y for x, y in zip(w, b)]
        basis.append(w)

    def res(v):
        w = list(v)
        for b in basis:
            c = dot(w, b) / dot(b, b)
            w = [x - c * y for x, y in zip(w, b)]
        return w
    rx, ry = [res(cols[k]) for k in ix], [res(cols[k]) for k in iy]

    def sdet(rs):
        return fr_det([[dot(a, b) for b in rs] for a in rs])
    return sdet(rx) * sdet(ry) / sdet(rx + ry)


def res_cost_estimate(kx, ky, kz, N, bits):
    """rough vm_compute seconds of the Gram-Schmidt residual form (calibrated on this machine; only steers which samples carry it)"""
    L = 1 + kz
    P = L * kz / 2 + (kx + ky) * L
    return 2.4e-5 * N * bits * L * L * (P + (kx + ky) ** 2)


def seq_cost_estimate(kx, ky, kz, N, bits):
    """rough vm_compute seconds of the sequential residual form (deeper Gram-Schmidt chains than the block form)"""
    L = 1 + kz
    P = L * (L - 1) / 2 + sum((L + j) + sum(L + j + i for i in range(kx)) + (L + j + kx) for j in range(ky))
    return 8e-6 * N * bits * P * (L + kx + ky) ** 2


# the property's literal float form: numpy lstsq residual covariances
def lstsq_cmi(X, Y, Z):
    n = X.shape[0]
    R = np.ones((n, 1)) if Z is None else np.hstack([np.ones((n, 1)), Z])

    def ld(A):
        res = A - R @ np.linalg.lstsq(R, A, rcond=None)[0]
        return np.linalg.slogdet(res.T @ res / (n - 1))[1]
    return 0.5 * (ld(X) + ld(Y) - ld(np.hstack([X, Y])))


def partial_corr_form(X, Y, Z):
    n = X.shape[0]
    R = np.ones((n, 1)) if Z is None else np.hstack([np.ones((n, 1)), Z])
    rx = X - R @ np.linalg.lstsq(R, X, rcond=None)[0]
    ry = Y - R @ np.linalg.lstsq(R, Y, rcond=None)[0]
    r = float((rx * ry).sum() / math.sqrt((rx * rx).sum() * (ry * ry).sum()))
    return -0.5 * math.log1p(-r * r), r


# ------------------------------------------------------------------------------------------------------
# generator: dyadic-grid samples  value[n, c] = ints[n, c] * 2^exps[c]  (exact in float64 and in Q)
# ------------------------------------------------------------------------------------------------------
def gen_sample(rng, kx, ky, kz, N, maxbits=15, zcols=()):
    dim = kx + ky + kz
    ncomp = int(rng.integers(1, 4))
    comp = rng.integers(0, ncomp, N)
    centers = rng.normal(0, 2.0, (ncomp, dim)) * (rng.random() < 0.6)
    L = rng.normal(size=(N, dim)) + centers[comp]
    A = np.eye(dim) + float(rng.choice([0.3, 1.0, 3.0])) * rng.normal(size=(dim, dim)) * (rng.random((dim, dim)) < 0.7)
    W = L @ A
    if dim >= 2 and rng.random() < 0.45:            # near-collinear column: raises the condition number
        c = int(rng.integers(0, dim))
        others = [j for j in range(dim) if j != c]
        w = rng.normal(size=len(others))
        comb = W[:, others] @ w
        W[:, c] = comb + (10.0 ** -rng.uniform(0.5, 3.2)) * np.std(comb) * rng.normal(size=N)
    bits = rng.integers(min(6, maxbits), maxbits + 1, dim)
    ints = np.zeros((N, dim), dtype=object)
    exps = []
    for c in range(dim):
        col = W[:, c] - W[:, c].mean()
        m = np.rint(col / (np.abs(col).max() + 1e-300) * (2 ** int(bits[c]) - 1)).astype(np.int64)
        off = int(rng.integers(-8, 9)) * 2 ** int(bits[c]) if rng.random() < 0.6 else 0
        for n in range(N):
            ints[n, c] = int(m[n]) + off
        exps.append(int(rng.integers(-20, 13)))
    if zcols:       # conditioning columns on nearby binary scales, so that Z M stays exactly representable
        ez = int(rng.integers(-20, 5))
        for c in zcols:
            exps[c] = ez + int(rng.integers(0, 9))
    return ints, exps


def to_float(ints, exps):
    F = np.zeros(ints.shape)
    for c, e in enumerate(exps):
        for n in range(ints.shape[0]):
            F[n, c] = math.ldexp(float(ints[n, c]), e)        # exact: |ints| < 2^53
    return F


def corr_cond(F):
    with warnings.catch_warnings():
        warnings.simplefilter("ignore")
        C = np.atleast_2d(np.corrcoef(F.T))
        if not np.all(np.isfinite(C)):
            return float("inf")
        return float(np.linalg.cond(C))


def split(F, kx, ky, kz):
    X, Y = F[:, :kx].copy(), F[:, kx:kx + ky].copy()
    Z = F[:, kx + ky:].copy() if kz > 0 else None
    return X, Y, Z


def run(chk):
    from causationentropy.core.information.conditional_mutual_information import (
        conditional_mutual_information, gaussian_conditional_mutual_information)
    from causationentropy.core.information.mutual_information import gaussian_mutual_information
    rng = np.random.default_rng(chk.seed)
    warnings.filterwarnings("ignore")
    from concurrent.futures import ThreadPoolExecutor
    _mx = ThreadPoolExecutor(max_workers=1).submit(lib.check_theorems, "C08Mx")     # beside the stdlib-style file's pass
    chk.theorems()
    for r in _mx.result():      # tier 2 (mathcomp) theorems live in a file of their own
        chk.oblige("theorem", r["name"], r["ok"], r.get("error", "") or ("axioms: " + (", ".join(r["axioms"]) or "none")))
        chk.extra.setdefault("theorem_axioms", {})[r["name"]] = r["axioms"]
    chk.trusted += [
        "Coq 8.16.1 kernel + vm_compute; Coq-Interval (BigZ floats, 80 bits) for the enclosure of 1/2 ln ratio",
        "Model/Gauss.v tied to the implementation by correspondence only (no translator on these anchors)",
        "np.corrcoef / np.linalg.slogdet rounding is covered by the property's tolerance (1e-8 + 1e-8|v|), not by proof",
        "the identification of the executable list model's determinant form with its residual forms is PROVED for every sample and block "
        "size (GaussBridge.v / GaussResidBridge.v, Properties/C08Mx.v LIST MODEL: ratio_det = Some q -> ratio_res = ratio_seq = Some q) by "
        "transporting GaussMx.v through a list <-> 'M[rat] refinement; it is still evaluated in Q on the samples inside Coq",
        "harness/props/C08.py: dyadic sample generation (floats are exactly ints * 2^e), exact Fraction reference, numpy lstsq reference"]
    chk.assumptions += ["non-degenerate samples: N > dim + 1, condition number of the joint correlation matrix <= 1e6",
                        "sample values on a dyadic grid (every finite float is such a value; the grid keeps the Coq terms small)"]
    g = gaussian_conditional_mutual_information
    n_cases = 120 if chk.tier == "quick" else 3000
    cases, pf, desc = [], [], []
    worst = 0.0
    t = 0
    while len(cases) < n_cases:
        t += 1
        r = rng.random()
        kx, ky = (1, 1) if r < 0.25 else (int(rng.integers(1, 4)), int(rng.integers(1, 4)))
        kz = 0 if rng.random() < 0.25 else int(rng.integers(1, 5))
        dim = kx + ky + kz
        N = int(rng.integers(max(6, dim + 2), 41))
        maxbits = int(rng.choice([8, 12, 15]))
        ints, exps = gen_sample(rng, kx, ky, kz, N, maxbits, zcols=range(kx + ky, dim))
        F = to_float(ints, exps)
        cond = corr_cond(F)
        if not cond <= COND_MAX:
            chk.count("gen.rejected_cond_gt_1e6")
            continue
        ix, iy, iz = list(range(kx)), list(range(kx, kx + ky)), list(range(kx + ky, dim))
        fcols = [[Fraction(int(ints[n, c])) * Fraction(2) ** exps[c] for n in range(N)] for c in range(dim)]
        ex = exact_cmi(fcols, ix, iy, iz)
        if ex is None:
            chk.count("gen.rejected_degenerate")
            continue
        ref, q = ex
        if exact_residual_form(fcols, ix, iy, iz) != q:
            raise RuntimeError("harness self-check: Schur-complement form and residual-vector form differ in exact arithmetic")
        with_res = res_cost_estimate(kx, ky, kz, N, maxbits) <= RES_BUDGET_S[chk.tier]
        chk.count("residual_form_in_coq.evaluated" if with_res else "residual_form_in_coq.skipped_too_slow")
        with_seq = with_res and seq_cost_estimate(kx, ky, kz, N, maxbits) <= SEQ_BUDGET_S[chk.tier]
        chk.count("sequential_residual_form_in_coq.evaluated" if with_seq else "sequential_residual_form_in_coq.skipped_too_slow")
        X, Y, Z = split(F, kx, ky, kz)
        chk.count(f"cond.1e{int(math.floor(math.log10(max(cond, 1.0))))}")
        chk.count(f"kz.{kz}")
        chk.count(f"kxky.{kx}x{ky}")
        chk.count(f"N.{'6-12' if N <= 12 else '13-24' if N <= 24 else '25-40'}")
        # ---- the implementation, through every entry point the property names
        vals = {"gaussian_cmi": float(g(X, Y, Z)),
                "dispatcher": float(conditional_mutual_information(X, Y, Z, method="gaussian"))}
        if kz == 0:
            vals["gaussian_mi"] = float(gaussian_mutual_information(X, Y))
            vals["gaussian_cmi_empty_Z"] = float(g(X, Y, np.zeros((N, 0))))
        if len(cases) % 4 == 0:
            # container independence: DataFrame blocks (pandas reductions default to other conventions than NumPy's), Fortran order
            import pandas as pd
            fX, fY = pd.DataFrame(X), pd.DataFrame(Y)
            if kz == 0:
                vals["gaussian_mi[DataFrame X, Y]"] = float(gaussian_mutual_information(fX, fY))
                vals["gaussian_cmi[DataFrame X, Y; Z=None]"] = float(g(fX, fY, None))
            else:
                vals["gaussian_cmi[DataFrame X, Y, Z]"] = float(g(fX, fY, pd.DataFrame(Z)))
            vals["gaussian_cmi[Fortran order]"] = float(g(np.asfortranarray(X), np.asfortranarray(Y), None if kz == 0 else np.asfortranarray(Z)))
            chk.count("presentations.dataframe_and_fortran")
        if len(cases) % 4 == 2:
            # blocks stored with different element types: one block is handed over as its int64 mantissas (each of its columns
            # rescaled by a power of two -- C08's own rescaling invariance, exact in floats), the others stay float64
            blk = (len(cases) // 4) % (3 if kz else 2)
            I64 = np.array(ints[:, [ix, iy, iz][blk]].tolist(), dtype=np.int64)
            mX, mY, mZ = [I64 if j == blk else a for j, a in enumerate((X, Y, Z))]
            nm = f"[{'XYZ'[blk]} stored as int64, the rest float64]"
            vals["gaussian_cmi" + nm] = float(g(mX, mY, mZ if kz else None))
            vals["dispatcher" + nm] = float(conditional_mutual_information(mX, mY, mZ if kz else None, method="gaussian"))
            if kz == 0:
                vals["gaussian_mi" + nm] = float(gaussian_mutual_information(mX, mY))
            chk.count(f"presentations.mixed_dtypes.block{'XYZ'[blk]}")
        v = vals["gaussian_cmi"]
        fail = None
        tol = ftol(ref)
        for name, val in vals.items():
            if not math.isfinite(val):
                fail = f"{name} returned {val} on a non-degenerate sample (cond {cond:.3g})"
            elif abs(val - ref) > tol:
                fail = (f"{name} = {val!r} but 1/2[logdet S(X|Z) + logdet S(Y|Z) - logdet S(XY|Z)] = {ref!r} "
                        f"(exact rational residual covariances; |diff| {abs(val - ref):.3g} > {tol:.3g})")
            if fail:
                break
            worst = max(worst, abs(val - ref) / tol)
        if fail is None:
            ls = float(lstsq_cmi(X, Y, Z))
            chk.stats["lstsq_ref.max_err_over_tol"] = max(chk.stats.get("lstsq_ref.max_err_over_tol", 0.0), abs(ls - ref) / tol)
            if abs(ls - ref) <= tol / 100 and abs(v - ls) > tol:
                fail = f"gaussian_cmi = {v!r} but the numpy lstsq residual-covariance formula gives {ls!r}"
            elif abs(ls - ref) > tol / 100:
                chk.count("lstsq_ref.too_noisy_to_judge")
        if fail is None and kx == 1 and ky == 1:
            pc, rr = partial_corr_form(X, Y, Z)
            chk.count("scalar.cases")
            if abs(pc - ref) <= tol / 100 and abs(v - pc) > tol:
                fail = f"scalar case: gaussian_cmi = {v!r} but -1/2 log(1 - r^2) = {pc!r} with partial correlation r = {rr!r}"
        if fail is None and v < -1e-8:
            fail = f"negative information {v!r}"
        # ---- invariances (exactly representable transformations, so the true value is unchanged)
        if fail is None:
            ints2 = ints.copy()
            exps2 = list(exps)
            for c in range(dim):
                a = int(rng.choice([1, 3, 5, 7, 11, 29])) * (-1 if rng.random() < 0.4 else 1)
                b = int(rng.integers(-2 ** 12, 2 ** 12)) * int(rng.choice([0, 1, 64]))
                for n in range(N):
                    ints2[n, c] = a * int(ints[n, c]) + b
                exps2[c] = exps[c] + int(rng.integers(-12, 13))
            X2, Y2, Z2 = split(to_float(ints2, exps2), kx, ky, kz)
            v2 = float(g(X2, Y2, Z2))
            if not abs(v2 - v) <= 2 * tol:
                fail = f"not invariant under affine rescaling of the columns: {v!r} became {v2!r}"
        if fail is None:
            vs = float(g(Y, X, Z))
            if not abs(vs - v) <= 2 * tol:
                fail = f"not symmetric in X and Y: I(X;Y|Z) = {v!r}, I(Y;X|Z) = {vs!r}"
        if fail is None and kz >= 1:
            emin = min(exps[kx + ky:])
            if max(exps[kx + ky:]) - emin <= 30:
                Zi = np.array([[int(ints[n, c]) << (exps[c] - emin) for c in iz] for n in range(N)], dtype=object)
                ZM = None
                for _ in range(8):
                    M = rng.integers(-3, 4, (kz, kz))
                    if not (abs(round(np.linalg.det(M))) >= 1 and np.linalg.cond(M) <= 30):
                        continue
                    Zm = Zi.dot(M.astype(object))
                    if max(abs(int(x)) for x in Zm.reshape(-1)) >= 2 ** 52:
                        continue
                    cand = np.array([[math.ldexp(float(int(x)), emin) for x in row] for row in Zm])
                    if corr_cond(np.hstack([X, Y, cand])) <= COND_MAX:
                        ZM = cand
                        break
                if ZM is None:
                    chk.count("z_mixing.skipped_no_well_conditioned_mixing_found")
                else:
                    vm = float(g(X, Y, ZM))
                    chk.count("z_mixing.checked")
                    chk.count("z_mixing.identity_or_pure_scaling" if np.count_nonzero(M - np.diag(np.diag(M))) == 0 else "z_mixing.genuine_mixing")
                    if not abs(vm - v) <= 2 * tol:
                        fail = f"not invariant under invertible mixing Z -> Z M (M = {M.tolist()}): {v!r} became {vm!r}"
            if fail is None:
                i1 = float(g(X, np.hstack([Y, Z]), None))
                i2 = float(g(X, Z, None))
                chk.count("chain_rule.checked")
                if not abs(i1 - (i2 + v)) <= ftol(i1) + ftol(i2) + tol:
                    fail = f"chain rule fails: I(X;Y,Z) = {i1!r} but I(X;Z) + I(X;Y|Z) = {i2!r} + {v!r}"
        pf.append(fail)
        vlist = []
        for name, val in vals.items():
            if math.isfinite(val):
                fv, ft = Fraction(val), tol_of(val)
                vlist.append(f"({zlit(fv.numerator)}, {zlit(fv.denominator)}, {zlit(ft.numerator)}, {zlit(ft.denominator)})")
            else:
                vlist.append("(0, 1, (-1), 1)")
        cases.append(f"({zlist(exps)}, {zmat(ints.tolist())}, {kx}%nat, {ky}%nat, {kz}%nat, {lib.coq_bool(with_res)}, {lib.coq_bool(with_seq)}, "
                     f"({zlit(q.numerator)}, {zlit(q.denominator)}), {coq_list(vlist)})%Z")
        desc.append({"k_x": kx, "k_y": ky, "k_z": kz, "N": N, "condition_number": cond, "column_exponents": exps,
                     "integer_rows_XYZ": [[int(x) for x in row] for row in ints.tolist()],
                     "returned": vals, "closed_form_exact": ref})
        chk.case(key=(kx, ky, kz, N, tuple(exps), tuple(int(x) for x in ints.reshape(-1))), nontrivial=True,
                 sample=desc[-1] if N <= 8 and dim <= 3 and len(chk.samples) < 3 else None)
    chk.stats["impl_vs_exact.max_err_over_tol"] = worst
    chk.stats["gen.attempts"] = t
    lib.correspond(chk, "gaussian_value_in_verified_enclosure_det_form_eq_residual_form", IMPORTS, CASE_T, "check_case",
                   cases, pf, lambda i: desc[i], shard=5 if chk.tier == "quick" else 25,
                   jobs=6, timeout=1700)
    # ---- call history on the SAME array objects: estimate, overwrite Y and/or Z (or X) in place, estimate again.  The second
    # value must be the closed form of the data the arrays hold NOW (estimators are functions of their arguments' contents)
    n_hist = 14 if chk.tier == "quick" else 400
    done = 0
    while done < n_hist:
        kx, ky, kz = int(rng.integers(1, 3)), int(rng.integers(1, 3)), int(rng.integers(1, 4))
        dim = kx + ky + kz
        N = int(rng.integers(dim + 4, 41))
        samples = []
        for _ in range(2):
            ints, exps = gen_sample(rng, kx, ky, kz, N, 12, zcols=range(kx + ky, dim))
            samples.append((ints, exps, to_float(ints, exps)))
        F1, F2 = samples[0][2], samples[1][2]
        X, Y, Z = [np.array(a, copy=True) for a in split(F1, kx, ky, kz)]
        X2, Y2, Z2 = split(F2, kx, ky, kz)
        which = str(rng.choice(["Y", "Z", "YZ", "X"]))
        v_first = float(g(X, Y, Z))
        if "Y" in which:
            Y[:] = Y2
        if "Z" in which:
            Z[:] = Z2
        if which == "X":
            X[:] = X2
        F_now = np.hstack([X, Y, Z])
        if not corr_cond(F_now) <= COND_MAX or not corr_cond(F1) <= COND_MAX:
            continue
        cols = [[Fraction(float(F_now[n_, c])) for n_ in range(N)] for c in range(dim)]
        ex = exact_cmi(cols, list(range(kx)), list(range(kx, kx + ky)), list(range(kx + ky, dim)))
        if ex is None:
            continue
        done += 1
        v_second = float(g(X, Y, Z))
        chk.case(key=("history", F1.tobytes(), F2.tobytes(), which), nontrivial=True)
        chk.count("history.overwrite_" + which)
        if not math.isfinite(v_second) or abs(v_second - ex[0]) > ftol(ex[0]):
            chk.violation("counterexample", f"after estimating once and overwriting {which} in place, the same array objects give {v_second!r} "
                          f"but the closed form of their current contents is {ex[0]!r} (first call returned {v_first!r})",
                          {"stream": "call history, arrays overwritten in place", "overwritten": which, "first_sample": F1.tolist(),
                           "arrays_now": F_now.tolist(), "kx": kx, "ky": ky, "kz": kz, "first_value": v_first, "second_value": v_second,
                           "closed_form_now": ex[0]})
    # ---- malformed stream: degenerate samples are outside the property; only "returns a float, no exception"
    for k in range(12 if chk.tier == "quick" else 200):
        kx, ky, kz = int(rng.integers(1, 3)), int(rng.integers(1, 3)), int(rng.integers(0, 3))
        N = int(rng.integers(6, 20))
        ints, exps = gen_sample(rng, kx, ky, kz, N)
        F = to_float(ints, exps)
        kind = str(rng.choice(["constant_column", "duplicated_column"]))
        c = int(rng.integers(0, kx + ky + kz))
        if kind == "constant_column":
            F[:, c] = F[0, c]
        else:
            F[:, c] = F[:, (c + 1) % (kx + ky + kz)]
        X, Y, Z = split(F, kx, ky, kz)
        try:
            outs = [g(X, Y, Z), conditional_mutual_information(X, Y, Z, method="gaussian")]
            bad = [o for o in outs if not isinstance(o, (float, np.floating))]
            if bad:
                chk.violation("counterexample", f"degenerate sample ({kind}): returned a {type(bad[0]).__name__}, not a float",
                              {"kind": kind, "column": c, "data": F.tolist(), "k": [kx, ky, kz]})
        except Exception as e:    # noqa: BLE001
            chk.violation("counterexample", f"degenerate sample ({kind}): raised {type(e).__name__}: {e}",
                          {"kind": kind, "column": c, "data": F.tolist(), "k": [kx, ky, kz]})
        chk.count(f"malformed.{kind}")
        chk.case(key=("malformed", kind, kx, ky, kz, N, k), nontrivial=False)
    chk.rule = ("N 6..40 (> dim+1), k_x,k_y 1..3 (25% scalar), k_z 0..4 (Z = None when 0; also an (N,0) array), samples from Gaussian "
                "mixtures through random affine maps with an optional near-collinear column, quantised to 6..15-bit integers plus "
                "integer offsets, times a per-column power of two 2^-20..2^12 (floats exact); joint correlation condition number <= 1e6 "
                "(histogram in stats). Each sample: gaussian_conditional_mutual_information, gaussian_mutual_information / Z=None / empty Z "
                "when k_z = 0, and the dispatcher. Inside Coq the determinant form (scatter and correlation variants) is computed exactly "
                "in Q and must equal the harness's exact-Fraction ratio; on the samples where Gram-Schmidt over big rationals is affordable "
                "under vm_compute (counted in stats) the least-squares residual form and the sequential residual form must coincide with "
                "it as well; 1/2 ln ratio and the code's four-logarithm form are enclosed by verified interval arithmetic and must contain "
                "every returned value within 1e-8 + 1e-8|v|. Predicate on the implementation (independent of the model): exact-Fraction "
                "partial-covariance closed form (cross-checked against exact Gram-Schmidt residual vectors on every sample), numpy lstsq "
                "residual form, scalar -1/2 log(1-r^2), non-negativity, affine-rescaling / Z-mixing / X-Y-swap invariance, chain rule. "
                "Degenerate samples (constant or duplicated column) only: returns a float without raising.")
