"""C20 -- plotting is total on discoverable networks and leaves the graph unchanged."""
import copy
import io
import math
import multiprocessing
import os
import sys
import tempfile
from collections import Counter
from concurrent.futures import ProcessPoolExecutor
from fractions import Fraction

import numpy as np

import lib
import translate_C20
from lib import qlit, zlit, coq_list, coq_bool

IMPORTS = ("From Coq Require Import List ZArith QArith Bool.\nImport ListNotations.\n"
           "From CE Require Import Model.Harness Model.Layout.\nOpen Scope Z_scope.\n")
IMPORTS_POS = ("From Coq Require Import List ZArith Bool.\nImport ListNotations.\n"
               "From CE Require Import Model.Harness Model.LayoutPos.\nOpen Scope Z_scope.\n")
TOL_POS = 1e-12          # "equally spaced on the unit circle": float evaluation of cos/sin of 2 pi i / N
TOL_DRAW = 1e-9          # model tie of widths / alphas (exact rationals vs float arithmetic)
PALETTE_STD = ["Blues", "Greens", "Oranges", "Purples", "Reds"]
PALETTE_CB = ["viridis", "plasma", "cividis", "inferno", "magma"]
CUSTOM = ["YlOrRd", "PuBu", "BuGn", "Greys", "RdPu", "YlGn"]
BOOL_OPTS = ["colorblind_safe", "show_colorbar", "use_pvalue_alpha", "show_edge_labels", "show_statistics",
             "show_plot", "transparent"]


# ------------------------------------------------------------------------------------------------
# generators (everything is drawn from the numpy Generator handed in)
# ------------------------------------------------------------------------------------------------
def node_names(rng, n):
    style = int(rng.integers(0, 4))
    if style <= 1:
        return [f"X{i}" for i in range(n)]            # ndarray input of discover_network
    if style == 2:
        return list(range(n))                        # DataFrame with default integer columns
    pool = ["temp", "load", "flow", "p_in", "p_out", "rpm", "volt", "amp", "hum", "co2", "lux", "ph", "o2"]
    return [pool[i] for i in rng.permutation(len(pool))[:n]]


def lag_pool(rng):
    k = int(rng.integers(0, 6))
    if k == 0:
        return [1]
    if k == 1:
        return list(range(1, int(rng.integers(2, 9)) + 1))
    if k == 2:
        return sorted(int(x) for x in rng.choice(np.arange(2, 9), size=int(rng.integers(1, 4)), replace=False))   # gaps, no lag 1
    if k == 3:
        return sorted(int(x) for x in rng.choice(np.arange(1, 9), size=int(rng.integers(6, 9)), replace=False))   # > 5 lag groups
    if k == 4:
        return [1, int(rng.integers(3, 9))]
    return sorted(int(x) for x in rng.choice(np.arange(1, 9), size=int(rng.integers(2, 6)), replace=False))


def gen_graph(rng, shape=None):
    """A multigraph `discover_network` can return: all variables as nodes, edges (src, tgt, lag>=1, cmi, p_value),
    at most one edge per (src, tgt, lag)."""
    import networkx as nx
    n = int(rng.integers(2, 13))
    names = node_names(rng, n)
    G = nx.MultiDiGraph()
    G.add_nodes_from(names)
    shape = shape or str(rng.choice(["mixed"] * 5 + ["parallel"] * 3 + ["zero_group"] * 3 + ["all_zero", "all_zero", "dense", "dense",
                                     "p_extremes", "p_extremes", "self_loops_only", "no_edges", "one_edge"]))
    lags = lag_pool(rng)
    triples = set()

    def cmi_value():
        r = rng.random()
        if r < 0.15:
            return 0.0
        if r < 0.20:
            return float(-rng.random() * 0.05)        # kNN / KDE estimates can come out slightly negative
        if r < 0.25:
            return float(10.0 ** rng.uniform(-300, -10))
        if r < 0.30:
            return float(10.0 ** rng.uniform(1, 6))
        if r < 0.40:
            return np.float64(rng.random())
        return float(rng.random())

    def p_value():
        r = rng.random()
        if r < 0.25:
            return 0.0
        if r < 0.5:
            return 1.0
        if r < 0.55:
            return 0.05
        return float(rng.random())

    def add(u, v, lag, cmi=None, p="gen"):
        if (u, v, lag) in triples:
            return
        triples.add((u, v, lag))
        attrs = dict(lag=int(lag), cmi=cmi_value() if cmi is None else cmi)
        if p == "gen":
            attrs["p_value"] = p_value()
        elif p is not None:
            attrs["p_value"] = p
        G.add_edge(names[u], names[v], **attrs)

    missing_p = rng.random() < 0.15
    if shape == "no_edges":
        pass
    elif shape == "one_edge":
        u, v = (int(x) for x in rng.choice(n, 2, replace=False))
        add(u, v, lags[0])
    elif shape == "self_loops_only":
        for _ in range(int(rng.integers(1, 2 * n + 1))):
            u = int(rng.integers(0, n))
            add(u, u, int(rng.choice(lags)))
    else:
        m = int(rng.integers(1, 3 * n + 1)) if shape != "dense" else int(rng.integers(3 * n, 5 * n + 1))
        zero_lag = int(rng.choice(lags))
        for _ in range(m):
            u, v = int(rng.integers(0, n)), int(rng.integers(0, n))
            if u == v and rng.random() < 0.6:
                v = (v + 1) % n
            lag = int(rng.choice(lags))
            cmi = None
            if shape == "all_zero" or (shape == "zero_group" and lag == zero_lag):
                cmi = 0.0
            p = "gen"
            if shape == "p_extremes":
                p = float(rng.choice([0.0, 1.0]))
            if missing_p and rng.random() < 0.5:
                p = None
            add(u, v, lag, cmi, p)
            if shape == "parallel":
                for l2 in lags:
                    if rng.random() < 0.6:
                        add(u, v, l2, cmi, p)
        if shape == "zero_group" and rng.random() < 0.5:      # make sure the all-zero group has >= 2 members
            for _ in range(2):
                u, v = (int(x) for x in rng.choice(n, 2, replace=False))
                add(u, v, zero_lag, 0.0)
    return G, shape


def gen_options(rng, k):
    """k-th option set for a graph: k=0 close to the defaults, k>=1 random booleans (all combinations occur)."""
    o = {b: bool(rng.integers(0, 2)) for b in BOOL_OPTS}
    if k == 0:
        o.update(colorblind_safe=False, show_colorbar=True, use_pvalue_alpha=True, show_edge_labels=False,
                 show_statistics=True, show_plot=True, transparent=False)
        if rng.random() < 0.5:
            o["colorblind_safe"] = True
    o["seed"] = int(rng.choice([7, 0, 1, int(rng.integers(0, 10 ** 6))]))
    o["pvalue_threshold"] = float(rng.choice([0.05, 0.01, 0.5]))
    o["edge_width_range"] = (1.0, 8.0) if rng.random() < 0.7 else (float(rng.choice([0.5, 2.0])), float(rng.choice([2.0, 5.0, 12.0])))
    if not o["colorblind_safe"] and rng.random() < 0.35:
        o["colormaps"] = [CUSTOM[i] for i in rng.permutation(len(CUSTOM))[:int(rng.integers(1, 4))]]
    o["figsize"] = (14, 14) if rng.random() < 0.15 else (6.0, 6.0)
    o["save"] = bool(rng.random() < 0.12)
    return o


# ------------------------------------------------------------------------------------------------
# observation of the implementation
# ------------------------------------------------------------------------------------------------
def snapshot(G):
    """Canonical, deep-copied view of nodes, edges and attributes."""
    nodes = sorted(((repr(n), copy.deepcopy(d)) for n, d in G.nodes(data=True)), key=lambda t: t[0])
    edges = sorted(((repr(u), repr(v), repr(k), copy.deepcopy(d)) for u, v, k, d in G.edges(keys=True, data=True)),
                   key=lambda t: t[:3])
    return {"nodes": nodes, "edges": edges, "graph": copy.deepcopy(dict(G.graph)), "order": [repr(n) for n in G.nodes()],
            "type": type(G).__name__}


def circle_fail(pos, nodes):
    """The property's statement about the automatic layout, on the positions handed to the drawing calls."""
    if pos is None:
        return "no node positions reached the drawing call"
    keys = list(pos.keys())
    if Counter(map(repr, keys)) != Counter(map(repr, nodes)):
        return f"positioned nodes {sorted(map(repr, keys))} are not exactly the graph's nodes {sorted(map(repr, nodes))}"
    N = len(nodes)
    slots = []
    for n in keys:
        x, y = (float(t) for t in pos[n])
        if not (math.isfinite(x) and math.isfinite(y)) or abs(math.hypot(x, y) - 1.0) > TOL_POS:
            return f"node {n!r} is placed at ({x}, {y}), not on the unit circle"
        k = int(round((math.atan2(y, x) % (2 * math.pi)) * N / (2 * math.pi))) % N
        if abs(x - math.cos(2 * math.pi * k / N)) > TOL_POS or abs(y - math.sin(2 * math.pi * k / N)) > TOL_POS:
            return f"node {n!r} at ({x}, {y}) is not on one of the {N} equally spaced points of the unit circle"
        slots.append(k)
    if sorted(slots) != list(range(N)):
        return f"the nodes do not occupy the {N} equally spaced points exactly once (slots {slots})"
    return None


class Spies:
    """Pass-through recorders on the drawing / layout calls of causationentropy.core.plotting."""

    def __enter__(self):
        import networkx as nx
        from causationentropy.core import plotting
        self.P, self.nx = plotting, nx
        self.node_pos, self.draws, self.orders, self.pos_calls = [], [], [], []
        self.saved = {"nodes": nx.draw_networkx_nodes, "edges": nx.draw_networkx_edges,
                      "opt": plotting.optimize_circular_order, "circ": plotting._circular_positions}

        def nodes(*a, **kw):
            pos = kw["pos"] if "pos" in kw else (a[1] if len(a) > 1 else None)
            if isinstance(pos, dict):
                self.node_pos.append({n: np.array(p, dtype=float).copy() for n, p in pos.items()})
            return self.saved["nodes"](*a, **kw)

        def edges(*a, **kw):
            self.draws.append({"edgelist": list(kw.get("edgelist", [])),
                               "width": np.array(kw.get("width", []), dtype=float).reshape(-1).tolist(),
                               "colors": np.array(kw.get("edge_color", []), dtype=float).reshape(-1, 4).tolist()
                               if np.ndim(kw.get("edge_color", [])) == 2 else None,
                               "style": kw.get("connectionstyle")})
            return self.saved["edges"](*a, **kw)

        def opt(*a, **kw):
            r = self.saved["opt"](*a, **kw)
            self.orders.append(list(r))
            return r

        def circ(*a, **kw):
            r = self.saved["circ"](*a, **kw)
            order = kw["order"] if "order" in kw else (a[0] if a else None)
            if order is not None and isinstance(r, dict):
                self.pos_calls.append((list(order), [(n, float(p[0]), float(p[1])) for n, p in r.items()]))
            return r
        nx.draw_networkx_nodes, nx.draw_networkx_edges = nodes, edges
        plotting.optimize_circular_order, plotting._circular_positions = opt, circ
        return self

    def __exit__(self, *e):
        self.nx.draw_networkx_nodes, self.nx.draw_networkx_edges = self.saved["nodes"], self.saved["edges"]
        self.P.optimize_circular_order, self.P._circular_positions = self.saved["opt"], self.saved["circ"]
        return False


def legend_info(ax, palette):
    """(labels, palette index per legend entry) read from the returned axes; None when there is no legend."""
    import matplotlib
    leg = ax.get_legend()
    if leg is None:
        return None
    ref = [tuple(matplotlib.colormaps[name](0.7)) for name in palette]
    labels = [t.get_text() for t in leg.get_texts()]
    idx = []
    for patch in leg.get_patches():
        fc = tuple(patch.get_facecolor())
        idx.append(ref.index(fc) if fc in ref else 999)
    return labels, idx


def plot_once(G, o, tmpdir, tag):
    """Run plot_causal_network under the spies; returns (failure or None, observations)."""
    import matplotlib.pyplot as plt
    from matplotlib.axes import Axes
    from matplotlib.figure import Figure
    from causationentropy.core import plotting
    kw = {k: o[k] for k in BOOL_OPTS}
    kw.update(seed=o["seed"], pvalue_threshold=o["pvalue_threshold"], edge_width_range=o["edge_width_range"], figsize=o["figsize"])
    if "colormaps" in o:
        kw["colormaps"] = list(o["colormaps"])
    if o["save"]:
        kw.update(save_path=os.path.join(tmpdir, f"{tag}.png"), file_format="png")
    before = snapshot(G)
    obs = {}
    fail = None
    with Spies() as sp:
        try:
            ret = plotting.plot_causal_network(G, **kw)
        except BaseException as e:       # noqa: BLE001 -- totality is the property
            if isinstance(e, (KeyboardInterrupt, SystemExit, MemoryError)):
                raise
            ret = None
            fail = f"plot_causal_network raised {type(e).__name__}: {str(e)[:200]}"
        obs["pos"] = sp.node_pos[0] if sp.node_pos else None
        obs["draws"] = sp.draws
        obs["order"] = sp.orders[0] if sp.orders else None
        obs["pos_call"] = sp.pos_calls[0] if sp.pos_calls else None
    after = snapshot(G)
    palette = PALETTE_CB if o["colorblind_safe"] else o.get("colormaps", PALETTE_STD)
    obs["palette_len"] = len(palette)
    obs["legend"] = None
    if fail is None:
        if not (isinstance(ret, tuple) and len(ret) == 2 and isinstance(ret[0], Figure) and isinstance(ret[1], Axes)):
            fail = f"plot_causal_network returned {type(ret).__name__} {str(ret)[:80]}, not (Figure, Axes)"
        else:
            obs["legend"] = legend_info(ret[1], palette)
            if o["save"] and not os.path.getsize(kw["save_path"]) > 0:
                fail = "save_path was given but no file was written"
    plt.close("all")
    if fail is None and after != before:
        what = [k for k in before if before[k] != after[k]]
        fail = f"the graph was modified by plotting ({', '.join(what)} differ from the deep copy taken before)"
    if fail is None:
        fail = circle_fail(obs["pos"], list(G.nodes()))
    if fail is None:
        for d in obs["draws"]:
            vals = list(d["width"]) + [c for row in (d["colors"] or []) for c in row]
            if not all(math.isfinite(v) for v in vals):
                fail = (f"a lag group was handed to the renderer with non-finite line widths / colours "
                        f"(widths {d['width'][:4]}): its edges are not drawn")
                break
    return fail, obs


def opt_worker(job):
    """One direct call of optimize_circular_order under the objective spy, and a second call with the same seed after the
    global random stream was perturbed (runs in a worker process)."""
    import random
    from causationentropy.core import plotting
    gi, G, max_iters, block, seed, start, perturb = job
    real_obj = plotting._objective
    calls = []

    def spy(H, order, *a, **kw):
        calls.append(list(order))
        return real_obj(H, order, *a, **kw)
    what = f"optimize_circular_order(max_iters={max_iters}, block_moves={block}, rng={seed})"
    err = None
    old = sys.stdout
    sys.stdout = io.StringIO()
    try:
        plotting._objective = spy
        try:
            out = plotting.optimize_circular_order(G, seed_order=list(start) if start is not None else None, max_iters=max_iters,
                                                   block_moves=block, rng=seed)
        except Exception as e:      # noqa: BLE001
            out, err = [], f"{what} raised {type(e).__name__}: {str(e)[:160]}"
        finally:
            plotting._objective = real_obj
        random.seed(perturb)            # perturb the global stream, then ask again
        random.random()
        out2 = out
        if err is None:
            try:
                out2 = plotting.optimize_circular_order(G, seed_order=list(start) if start is not None else None, max_iters=max_iters,
                                                        block_moves=block, rng=seed)
            except Exception as e:      # noqa: BLE001
                err = f"second call of {what} raised {type(e).__name__}: {str(e)[:160]}"
    finally:
        sys.stdout = old
    return list(out), list(out2), calls, err


def plot_worker(job):
    """One generated graph, all its option sets (runs in a worker process)."""
    import random
    gi, G, opts, repro = job
    out = []
    old = sys.stdout
    sys.stdout = io.StringIO()
    try:
        with tempfile.TemporaryDirectory(prefix="c20_") as tmp:
            for k, o in enumerate(opts):
                fail, obs = plot_once(G, o, tmp, f"g{gi}_{k}")
                if fail is None and repro and k == 0:
                    random.seed(987654 + gi)          # perturb the global stream between the two calls
                    random.random()
                    np.random.seed(gi)
                    fail2, obs2 = plot_once(G, o, tmp, f"g{gi}_{k}_again")
                    if fail2 is not None:
                        fail = "second call with the same arguments: " + fail2
                    else:
                        a, b = obs["pos"], obs2["pos"]
                        if list(map(repr, a)) != list(map(repr, b)) or any(not np.array_equal(a[n], b[n]) for n in a):
                            fail = f"the layout is not reproducible for layout seed {o['seed']}: two calls placed the nodes differently"
                    obs["repro_checked"] = True
                out.append((fail, obs))
            # the SAME graph object is edited in place (node and edge counts unchanged) and plotted again; a never-plotted twin
            # (exact pickle copy taken before, same edit applied) is plotted with the same options: plotting must be total on the
            # edited object, place every current node, and give the layout of the twin (no memory of earlier plot calls)
            if repro and out and out[0][0] is None and G.number_of_nodes() >= 2:
                import pickle
                o = opts[0]
                twin = pickle.loads(pickle.dumps(G))
                for H in (G,):
                    plot_once(H, o, tmp, f"g{gi}_warm")            # make sure G has been plotted with exactly these options
                kind = "relabel" if gi % 2 == 0 or G.number_of_edges() == 0 else "rewire"
                def edit(H):
                    nodes = list(H.nodes())
                    if kind == "relabel":
                        import networkx as nx
                        nx.relabel_nodes(H, {nodes[0]: ("renamed", gi)}, copy=False)
                        return f"nx.relabel_nodes(G, {{{nodes[0]!r}: ('renamed', {gi})}}, copy=False)"
                    u, v, kk, d = list(H.edges(keys=True, data=True))[0]
                    H.remove_edge(u, v, kk)
                    tgt = next(((a, b) for a in nodes for b in nodes if a != b and not H.has_edge(a, b) and (a, b) != (u, v)), (v, u))
                    H.add_edge(tgt[0], tgt[1], **d)
                    return f"edge {u!r}->{v!r} removed and edge {tgt[0]!r}->{tgt[1]!r} added with the same attributes"
                what = edit(G)
                edit(twin)
                fa, oa = plot_once(G, o, tmp, f"g{gi}_edited")
                fb, ob = plot_once(twin, o, tmp, f"g{gi}_twin")
                hist = None
                if fa is not None:
                    hist = fa
                elif fb is None:
                    a, b = oa["pos"], ob["pos"]
                    if list(map(repr, a)) != list(map(repr, b)) or any(not np.array_equal(a[n], b[n]) for n in a):
                        hist = ("the layout differs from the one a never-plotted identical graph gets with the same seed "
                                f"{o['seed']} (state carried over from the earlier plot call)")
                out[0][1]["history_checked"] = kind
                if hist is not None:
                    out[0] = (f"after plotting this graph, editing the same object in place ({what}) and plotting it again: " + hist, out[0][1])
    finally:
        sys.stdout = old
    return gi, out


# ------------------------------------------------------------------------------------------------
# Coq terms
# ------------------------------------------------------------------------------------------------
def fq(x):
    """exact Q literal of a float; non-finite values become an absurd sentinel no model value is close to"""
    x = float(x)
    return qlit(x) if math.isfinite(x) else "(10 ^ 40 # 1)"


def idx_list(xs, ix):
    return coq_list([zlit(ix[repr(x)]) for x in xs])


def edge_term(u, v, d, ix):
    p = d.get("p_value", None)
    return (f"({zlit(ix[repr(u)])}, {zlit(ix[repr(v)])}, {zlit(int(d.get('lag', 0)))}, {qlit(float(d.get('cmi', 0.0)))}, "
            + (f"Some {qlit(float(p))}" if p is not None else "None") + ")")


def draw_case(G, o, obs):
    ix = {repr(n): i for i, n in enumerate(G.nodes())}
    es = coq_list([edge_term(u, v, d, ix) for u, v, k, d in G.edges(keys=True, data=True)])
    leg = obs["legend"]
    ds = []
    fallback = sorted({int(d.get("lag", 0)) for u, v, d in G.edges(data=True) if u != v})
    lags_observed = leg is not None and len(leg[0]) == len(obs["draws"])
    for j, d in enumerate(obs["draws"]):
        if lags_observed:
            try:
                lag = int(leg[0][j][4:]) if leg[0][j].startswith("Lag ") else -1
            except ValueError:
                lag = -1
        else:           # no legend to read the lag from: the j-th distinct lag (this part of the tie is then vacuous)
            lag = fallback[j] if j < len(fallback) else -1
        el = coq_list([f"({zlit(ix.get(repr(u), -1))}, {zlit(ix.get(repr(v), -1))})" for u, v in d["edgelist"]])
        ws = coq_list([fq(w) for w in d["width"]])
        al = coq_list([fq(c[3]) for c in d["colors"]]) if d["colors"] is not None else "[]"
        ds.append(f"({zlit(lag)}, {el}, {ws}, {al})")
    n_d = len(obs["draws"])
    if leg is not None and len(leg[1]) == n_d:
        idx = leg[1]
        observed = True
    else:
        idx = [i % obs["palette_len"] for i in range(n_d)]
        observed = False
    w0, w1 = o["edge_width_range"]
    term = (f"({qlit(w0)}, {qlit(w1)}, {qlit(o['pvalue_threshold'])}, {coq_bool(o['use_pvalue_alpha'])}, {es}, "
            f"{coq_list(ds)}, {obs['palette_len']}%nat, {coq_list([str(i) + '%nat' for i in idx])})")
    return term, observed


# ------------------------------------------------------------------------------------------------
def run(chk):
    import threading
    import time
    quick = chk.tier == "quick"
    # worker processes are forked BEFORE the thread below exists; the theorem re-check (coqc subprocesses only)
    # then runs concurrently with the generation / plotting work and is joined before the first correspondence
    n_workers = 10 if quick else 15
    pool = ProcessPoolExecutor(max_workers=n_workers, mp_context=multiprocessing.get_context("fork"))
    list(pool.map(abs, range(n_workers)))
    bg = {}

    def recheck():
        try:
            t1 = time.time()
            chk.theorems()
            chk.stats["wall.theorems_s"] = round(time.time() - t1, 1)
            lib.translator_lemma(chk, "layout_facts", translate_C20.layout_facts, translate_C20.coq_layout_facts, "")
        except BaseException as e:      # noqa: BLE001 -- re-raised in the main thread
            bg["error"] = e
    th = threading.Thread(target=recheck)
    th.start()
    try:
        _run(chk, pool, th, bg)
    finally:
        th.join()
        pool.shutdown(wait=False, cancel_futures=True)


def _run(chk, pool, th, bg):
    import time
    import networkx as nx
    from causationentropy.core import plotting
    rng = np.random.default_rng(chk.seed)
    quick = chk.tier == "quick"
    chk.trusted += [
        "Coq 8.16.1 kernel + vm_compute; Coq-Interval (BigZ floats, 80 bits) for the cos/sin enclosures",
        "harness/translate_C20.py (anchors: _circular_positions, max_cmi guard, palette index, moves of optimize_circular_order; fail-closed)",
        "harness/props/C20.py: pass-through spies on networkx's community finder, plotting._objective, "
        "plotting._circular_positions, plotting.optimize_circular_order, nx.draw_networkx_nodes / draw_networkx_edges; "
        "the legend of the returned axes is read to observe the palette index",
        "matplotlib (Agg backend) and networkx drawing are exercised, not modelled: totality and graph immutability of "
        "plot_causal_network are OBSERVED on generated graphs, not proved",
        "Python's random module and the objective function are oracles of the optimiser model (any stream, any cost)"]
    chk.assumptions += ["node labels are distinct hashable values (strings or integers, as discover_network creates them)",
                        "every edge carries an integer 'lag' and a float 'cmi' (as discover_network writes them); 'p_value' may be missing",
                        "communities returned by the community finder contain only nodes of the graph"]

    # ------------------------------------------------------------------ graphs
    n_graphs = 60 if quick else 900
    n_opts = 2 if quick else 3
    forced = ["self_loops_only", "no_edges", "zero_group", "all_zero", "parallel", "p_extremes", "dense", "one_edge"]
    graphs = []
    for gi in range(n_graphs):
        G, shape = gen_graph(rng, forced[gi] if gi < len(forced) else None)
        graphs.append((G, shape))

    # ------------------------------------------------------------------ 1. community seed order
    t0 = time.time()
    sc, sp_, sd = [], [], []
    comm_mod = nx.algorithms.community
    real_gmc = comm_mod.greedy_modularity_communities
    for gi, (G, shape) in enumerate(graphs):
        nodes = list(G.nodes())
        ix = {repr(n): i for i, n in enumerate(nodes)}
        variants = ["real"] + [str(v) for v in rng.choice(["overlap", "incomplete", "raise", "shuffled", "singletons", "empty"],
                                                           size=2 if quick else 3, replace=False)]
        for var in variants:
            rec = {}

            def oracle(H, *a, _var=var, **kw):
                if _var == "real":
                    r = list(real_gmc(H, *a, **kw))
                elif _var == "raise":
                    rec["raised"] = True
                    raise ZeroDivisionError("oracle failure injected by the harness")
                else:
                    perm = [nodes[i] for i in rng.permutation(len(nodes))]
                    if _var == "singletons":
                        r = [frozenset([x]) for x in perm]
                    elif _var == "empty":
                        r = []
                    else:
                        k = int(rng.integers(1, max(2, len(nodes) // 2) + 1))
                        cuts = sorted(int(x) for x in rng.integers(0, len(nodes) + 1, size=k - 1))
                        parts = [perm[a:b] for a, b in zip([0] + cuts, cuts + [len(nodes)])]
                        if _var == "incomplete":
                            parts = [p[: max(0, len(p) - int(rng.integers(0, 3)))] for p in parts]
                        if _var == "overlap":
                            parts = [p + [perm[int(rng.integers(0, len(nodes)))] for _ in range(int(rng.integers(0, 3)))] for p in parts]
                        r = [set(p) if rng.random() < 0.5 else frozenset(p) for p in parts]
                rec["comms"] = [list(c) for c in r]
                return r
            comm_mod.greedy_modularity_communities = oracle
            err = None
            try:
                with lib.quiet():
                    out = plotting._communities_seed_order(G)
            except Exception as e:      # noqa: BLE001
                out, err = [], f"_communities_seed_order raised {type(e).__name__}: {str(e)[:160]}"
            finally:
                comm_mod.greedy_modularity_communities = real_gmc
            comms = rec.get("comms")
            if rec.get("raised"):
                comms = [list(set(G.nodes()))]          # the fallback of the except branch, rebuilt the same way
            if comms is None:
                chk.count("seed_order.spy_not_called")
                continue
            fail = err
            if fail is None and Counter(map(repr, out)) != Counter(map(repr, nodes)):
                fail = (f"_communities_seed_order returned {out!r}, which is not a permutation of the nodes {nodes!r} "
                        f"(communities {comms!r})")
            edges = coq_list([f"({zlit(ix[repr(u)])}, {zlit(ix[repr(v)])})" for u, v in G.edges()])
            known = all(repr(x) in ix for x in out)
            sc.append(f"({edges}, {coq_list([idx_list(c, ix) for c in comms])}, {idx_list(nodes, ix)}, "
                      f"{idx_list(out, ix) if known else '[(-1)]'})")
            sp_.append(fail)
            sd.append({"call": "_communities_seed_order", "nodes": [repr(n) for n in nodes], "edges": [(repr(u), repr(v)) for u, v in G.edges()],
                       "community_oracle": var, "communities": [[repr(x) for x in c] for c in comms], "returned": [repr(x) for x in out]})
            chk.case(key=("seed", gi, var, tuple(map(tuple, sd[-1]["communities"]))), nontrivial=len(nodes) > 2,
                     sample=sd[-1] if len(chk.samples) < 1 and var == "overlap" else None)
            chk.count(f"seed_order.oracle.{var}")
    chk.stats["wall.seed_order_s"] = round(time.time() - t0, 1)
    # ------------------------------------------------------------------ 2. optimiser
    t0 = time.time()
    oc, op, od = [], [], []
    budgets = [0, 1, 2, 3, 5, 10, 30, 100, 300] if quick else [0, 1, 2, 3, 5, 10, 30, 100, 300, 300, 1000, 1000, 3000]
    n_opt = 2 if quick else 3
    ojobs = []
    for gi, (G, shape) in enumerate(graphs):
        nodes = list(G.nodes())
        for rep in range(n_opt):
            max_iters = int(rng.choice(budgets))
            block = bool(rng.integers(0, 2))
            seed = int(rng.choice([7, 0, 1, 2, int(rng.integers(0, 10 ** 6))]))
            explicit = rng.random() < 0.3
            start = [nodes[i] for i in rng.permutation(len(nodes))] if explicit else None
            ojobs.append((gi, G, max_iters, block, seed, start, int(rng.integers(0, 10 ** 6))))
    ores = list(pool.map(opt_worker, ojobs, chunksize=4 if quick else 16))
    for (gi, G, max_iters, block, seed, start, _), (out, out2, calls, err) in zip(ojobs, ores):
        nodes = list(G.nodes())
        ix = {repr(n): i for i, n in enumerate(nodes)}
        explicit = start is not None
        fail = err
        if fail is not None:
            pass
        elif Counter(map(repr, out)) != Counter(map(repr, nodes)):
            fail = (f"optimize_circular_order(max_iters={max_iters}, block_moves={block}, rng={seed}) returned {out!r}: "
                    f"not a permutation of the nodes {nodes!r}")
        elif list(map(repr, out)) != list(map(repr, out2)):
            fail = (f"optimize_circular_order(max_iters={max_iters}, block_moves={block}, rng={seed}) is not reproducible: "
                    f"{out!r} then {out2!r} for the same seed")
        traced = len(calls) >= 1 and all(all(repr(x) in ix for x in c) for c in calls) and \
            (not explicit or list(map(repr, calls[0])) == list(map(repr, start)))
        known = all(repr(x) in ix for x in out)
        seed_ord = calls[0] if traced else (start if explicit else nodes)
        oc.append(f"({coq_bool(block)}, {idx_list(seed_ord, ix)}, {coq_bool(traced)}, "
                  f"{coq_list([idx_list(c, ix) for c in calls[1:]]) if traced else '[]'}, "
                  f"{idx_list(out, ix) if known else '[(-1)]'}, {idx_list(nodes, ix)})")
        op.append(fail)
        od.append({"call": "optimize_circular_order", "nodes": [repr(n) for n in nodes], "edges": [(repr(u), repr(v)) for u, v in G.edges()],
                   "seed_order": [repr(x) for x in start] if explicit else None, "max_iters": max_iters, "block_moves": block,
                   "rng": seed, "returned": [repr(x) for x in out], "objective_evaluations": len(calls)})
        chk.case(key=("opt", gi, max_iters, block, seed, tuple(od[-1]["returned"])), nontrivial=max_iters > 0 and len(nodes) > 2,
                 sample=od[-1] if len(chk.samples) < 2 and max_iters == 5 else None)
        chk.count("optimizer.calls")
        chk.count("optimizer.traced" if traced else "optimizer.untraced")
        chk.count("optimizer.block_moves_possible" if block and len(nodes) >= 6 else "optimizer.swaps_only")
        chk.count("optimizer.zero_budget" if max_iters == 0 else "optimizer.positive_budget")
        chk.count("optimizer.moved" if list(map(repr, out)) != list(map(repr, seed_ord)) else "optimizer.returned_seed")

    chk.stats["wall.optimizer_calls_s"] = round(time.time() - t0, 1)
    # ------------------------------------------------------------------ 3. drawing (worker processes)
    t0 = time.time()
    jobs = []
    for gi, (G, shape) in enumerate(graphs):
        opts = [gen_options(rng, k) for k in range(n_opts)]
        jobs.append((gi, G, opts, gi % 3 == 0))
    results = {}
    for gi, out in pool.map(plot_worker, jobs, chunksize=1 if quick else 4):
        results[gi] = out
    chk.stats["wall.plots_s"] = round(time.time() - t0, 1)
    dc, dp, dd = [], [], []
    pc, pp, pd_ = [], [], []
    uc, up, ud = [], [], []
    for gi, G, opts, repro in jobs:
        shape = graphs[gi][1]
        nodes = list(G.nodes())
        ix = {repr(n): i for i, n in enumerate(nodes)}
        lags = sorted({d["lag"] for u, v, d in G.edges(data=True) if u != v})
        for k, o in enumerate(opts):
            fail, obs = results[gi][k]
            term, observed = draw_case(G, o, obs)
            dc.append(term)
            dp.append(fail)
            dd.append({"call": "plot_causal_network", "graph_shape": shape, "nodes": [repr(n) for n in nodes],
                       "edges": [(repr(u), repr(v), repr(kk), {a: (float(b) if isinstance(b, float) else b) for a, b in d.items()})
                                 for u, v, kk, d in G.edges(keys=True, data=True)],
                       "options": {a: b for a, b in o.items()}, "failure": fail,
                       "lag_groups_drawn": len(obs["draws"]), "order": [repr(x) for x in obs["order"]] if obs["order"] else None})
            chk.case(key=("plot", gi, k, tuple(sorted((a, repr(b)) for a, b in o.items()))), nontrivial=G.number_of_edges() > 0,
                     sample=dd[-1] if len(chk.samples) < 4 and G.number_of_nodes() <= 3 and G.number_of_edges() <= 3 else None)
            chk.count("plot.calls")
            chk.count(f"plot.shape.{shape}")
            chk.count(f"plot.nodes.{len(nodes)}")
            chk.count("plot.lag_groups.gt5" if len(lags) > 5 else f"plot.lag_groups.{len(lags)}")
            chk.count("plot.palette." + ("colorblind" if o["colorblind_safe"] else "custom" if "colormaps" in o else "standard"))
            chk.count("plot.palette_index_" + ("observed" if observed else "unobserved"))
            for b in BOOL_OPTS:
                chk.count(f"plot.opt.{b}={o[b]}")
            if obs.get("repro_checked"):
                chk.count("plot.reproducibility_checked")
            if obs.get("history_checked"):
                chk.count("plot.in_place_edit_history." + obs["history_checked"])
            if o["save"]:
                chk.count("plot.saved_to_file")
            if any(u == v for u, v in G.edges()):
                chk.count("plot.with_self_loops")
            if any("p_value" not in d for _, _, d in G.edges(data=True)):
                chk.count("plot.with_missing_p_value")
            if len(lags) > obs["palette_len"]:
                chk.count("plot.more_lag_groups_than_colormaps")
            # the order the plot used: permutation acceptor (untraced) + positions tie
            if obs["order"] is not None:
                known = all(repr(x) in ix for x in obs["order"])
                uc.append(f"(true, {idx_list(nodes, ix)}, false, [], {idx_list(obs['order'], ix) if known else '[(-1)]'}, {idx_list(nodes, ix)})")
                up.append(None if Counter(map(repr, obs["order"])) == Counter(map(repr, nodes)) else
                          f"the order used by plot_causal_network {obs['order']!r} is not a permutation of the nodes")
                ud.append({"call": "optimize_circular_order via plot_causal_network", "rng": o["seed"], "nodes": [repr(n) for n in nodes],
                           "returned": [repr(x) for x in obs["order"]]})
                chk.count("optimizer.orders_from_plots")
            if obs["pos_call"] is not None and k == 0 and gi % (2 if quick else 3) == 0:
                order, items = obs["pos_call"]
                if all(repr(x) in ix for x in order) and all(repr(n) in ix for n, _, _ in items):
                    pc.append(pos_term(order, items, ix))
                    pp.append(None)
                    pd_.append({"call": "_circular_positions (inside plot_causal_network)", "order": [repr(x) for x in order],
                                "returned": [(repr(n), x, y) for n, x, y in items]})
    th.join()
    if "error" in bg:
        raise bg["error"]
    lib.correspond(chk, "community_seed_order_vs_model", IMPORTS, "list (Z * Z) * list (list Z) * list Z * list Z", "check_seed_case",
                   sc, sp_, lambda i: sd[i], shard=100, jobs=8)

    lib.correspond(chk, "optimizer_vs_model", IMPORTS, "bool * list Z * bool * list (list Z) * list Z * list Z", "check_opt_case",
                   oc, op, lambda i: od[i], shard=40 if quick else 8, jobs=10 if quick else 15, timeout=1500)
    lib.correspond(chk, "orders_used_by_plots_are_permutations", IMPORTS, "bool * list Z * bool * list (list Z) * list Z * list Z",
                   "check_opt_case", uc, up, lambda i: ud[i], shard=400, jobs=8)
    lib.correspond(chk, "drawing_vs_model", IMPORTS,
                   "Q * Q * Q * bool * list edge * list drawn * nat * list nat", f"check_draw_case {qlit(TOL_DRAW)}",
                   dc, dp, lambda i: dd[i], shard=40, jobs=10)

    # ------------------------------------------------------------------ 4. positions
    sizes = list(range(2, 13)) + [1] + ([int(x) for x in rng.integers(13, 40, size=3)] if quick else list(range(13, 60)))
    for N in sizes:
        order = [f"X{i}" for i in rng.permutation(N)]
        try:
            r = plotting._circular_positions(list(order))
            items = [(n, float(p[0]), float(p[1])) for n, p in r.items()]
            err = None
        except Exception as e:      # noqa: BLE001
            items, err = [], f"_circular_positions raised {type(e).__name__}: {str(e)[:160]} for {N} nodes"
        ixn = {repr(n): i for i, n in enumerate(sorted(order))}
        pc.append(pos_term(order, items, ixn))
        pp.append((err or circle_fail({n: np.array([x, y]) for n, x, y in items}, order)) if N >= 2 else None)
        pd_.append({"call": "_circular_positions", "order": order, "returned": items})
        chk.case(key=("pos", N, tuple(order)), nontrivial=N > 2)
        chk.count("positions.direct_calls")
    lib.correspond(chk, "circular_positions_in_verified_enclosure", IMPORTS_POS, "list Z * list obs",
                   "check_pos_case 1 1000000000000", pc, pp, lambda i: pd_[i], shard=6, jobs=14, timeout=1500)
    chk.count("positions.cases", len(pc))

    chk.rule = (
        "Graphs: 2..12 nodes named as discover_network names them (X0.., integer columns, string columns), edge multisets with "
        "lags from pools {1}, 1..L, gapped without lag 1, 6-8 distinct lags (more groups than colour maps), parallel edges at "
        "several lags, self-loops only, no edges, one edge, an all-zero cmi lag group, all cmi zero, dense; cmi in {0, tiny, "
        "huge, slightly negative, uniform, numpy scalars}; p in {0, 1, threshold, uniform} or missing. Each graph is drawn with "
        f"{n_opts} option sets (defaults-like + random booleans over {', '.join(BOOL_OPTS)}; standard / colour-blind / custom palettes of "
        "1-3 maps; several layout seeds; some saved to a file). PREDICATE on the real plot_causal_network under Agg: no exception, "
        "(Figure, Axes) returned, nodes/edges/attributes equal to a deep copy taken before, finite widths / colours handed to the "
        "renderer for every lag group, positions handed to the drawing call "
        "= the graph's nodes exactly once on the N equally spaced unit-circle points (1e-12), and for a third of the graphs a second "
        "call with the same layout seed (global random state perturbed in between) places the nodes identically. TIES inside Coq: "
        "the community seed order against the model for the real community finder and for injected oracles (overlapping, incomplete, "
        "raising, empty, singletons); optimize_circular_order for budgets 0..300 (thorough ..3000), block_moves on/off, several seeds, "
        "explicit and automatic seed orders: the returned order must pass is_perm and the recorded sequence of evaluated orders must "
        "be accepted by check_trace (each proposal one swap/reversal from the current best, result = some accepted/rejected run); "
        "per lag group the edge list, widths and alpha column handed to draw_networkx_edges and the palette index read from the "
        "legend against group/widths/alpha_of/cmap_index; _circular_positions against the interval-evaluated cos/sin model (1e-12). "
        "Distinct = distinct (graph, options / arguments) tuple; non-trivial = graph with edges / positive budget / N > 2.")


def pos_term(order, items, ix):
    def fr(x):
        f = Fraction(float(x)) if math.isfinite(float(x)) else Fraction(10 ** 40)
        return f"({zlit(f.numerator)}, {zlit(f.denominator)})"
    o = coq_list([f"({zlit(ix[repr(n)])}, {fr(x)}, {fr(y)})" for n, x, y in items])
    return f"({idx_list(order, ix)}, {o})"
