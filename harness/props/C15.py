"""C15 -- tabular export lists each edge exactly once with unchanged attributes."""
import itertools

import networkx as nx
import numpy as np
import pandas as pd

import lib
import translate
from lib import qlit, coq_list, coq_str, coq_bool

IMPORTS = ("From Coq Require Import List ZArith QArith String Bool.\nImport ListNotations.\n"
           "From CE Require Import Model.Harness Model.Export.\nOpen Scope string_scope.\n")
ARGS = ["method", "information", "alpha_forward", "alpha_backward", "metric", "bandwidth", "k_means", "n_shuffles", "max_lag"]
COLS = ["Method", "Information", "Alpha_Forward", "Alpha_Backward", "Metric", "Bandwidth", "K_Means", "N_Shuffles", "Max_Lag"]
POOL = [0, 1, 2, "x", "y", "node 7", (1, 2), ("u", 0), "Z", 10]


def cell(v, nodes=None, col=None):
    """canonical Coq cell of a value read back from the frame (None/NaN unified)"""
    if col in ("Source", "Sink"):
        if isinstance(v, np.generic):
            v = v.item()
        for i, lab in enumerate(nodes):
            if type(lab) is type(v) and lab == v:
                return f"(CLabel {i})"
        return "(CLabel 999)"
    if v is None or (isinstance(v, (float, np.floating)) and np.isnan(v)) or v is pd.NA:
        return "CNone"
    if isinstance(v, (bool, np.bool_)):
        return f"(CBool {coq_bool(bool(v))})"
    if isinstance(v, (int, np.integer)):
        return f"(CInt ({int(v)})%Z)"
    if isinstance(v, (float, np.floating)):
        return f"(CNum {qlit(float(v))})"
    if isinstance(v, str):
        return f"(CStr {coq_str(v)})"
    return "(CStr \"<other>\")"


def opt(v, f):
    return "None" if v is None else f"(Some {f(v)})"


def gen_graph(rng, n_edges=None):
    n = int(rng.integers(1, 6))
    labels = [POOL[i] for i in rng.permutation(len(POOL))[:n]]
    G = nx.MultiDiGraph()
    G.add_nodes_from(labels)
    m = int(rng.integers(0, 13)) if n_edges is None else n_edges
    for _ in range(m):
        u, v = labels[int(rng.integers(n))], labels[int(rng.integers(n))]
        d = {}
        if rng.random() < 0.85:
            d["lag"] = int(rng.integers(0, 6))
        if rng.random() < 0.8:
            d["cmi"] = float(rng.choice([0.0, 0.5, float(rng.random())]))
        if rng.random() < 0.8:
            d["p_value"] = float(rng.choice([0.0, 1.0, float(rng.integers(0, 41)) / 40]))
        G.add_edge(u, v, **d)
    return G, labels


def meta_values(rng, mask):
    vals = {"method": rng.choice(["standard", "lasso", ""]), "information": rng.choice(["knn", "gaussian"]),
            "alpha_forward": rng.choice([0.05, 0.0, 0.5]), "alpha_backward": rng.choice([0.05, 0.0]),
            "metric": rng.choice(["euclidean", ""]), "bandwidth": rng.choice(["silverman", "scott"]),
            "k_means": rng.choice([5, 0, 1]), "n_shuffles": rng.choice([200, 0]), "max_lag": rng.choice([5, 0, 1])}
    out = {}
    for a, b in zip(ARGS, mask):
        if b:
            v = vals[a]
            out[a] = v.item() if hasattr(v, "item") else v
            if isinstance(out[a], np.str_):
                out[a] = str(out[a])
    return out


def run(chk):
    from causationentropy.graph.utils import network_to_dataframe, pcmci_network_to_dataframe
    rng = np.random.default_rng(chk.seed)
    chk.theorems()
    lib.translator_lemma(chk, "export_facts", translate.export_facts, translate.coq_export_facts, "")
    chk.trusted += ["Coq 8.16.1 kernel + vm_compute", "harness/translate.py (network_to_dataframe column lists, fail-closed)",
                    "harness/props/C15.py: reading DataFrame cells back into canonical cells (None/NaN unified)",
                    "pandas DataFrame construction is exercised, not modelled"]
    cases, pf, desc = [], [], []
    jobs = []
    fixed = [gen_graph(rng, n_edges=k) for k in (1, 3, 7)]
    for G, labels in fixed:                                     # all 512 subsets on three graphs
        for mask in itertools.product((False, True), repeat=9):
            jobs.append((G, labels, mask, "all_512_subsets"))
    for t in range(300 if chk.tier == "quick" else 25000):
        G, labels = gen_graph(rng)
        jobs.append((G, labels, tuple(bool(b) for b in rng.random(9) < rng.choice([0.0, 0.3, 0.8])), "sampled"))
    for G, labels, mask, stream in jobs:
        meta = meta_values(rng, mask)
        snap = list(G.edges(keys=True, data=True))
        df = network_to_dataframe(G, **meta)
        nodes = list(G.nodes())
        edges = list(G.edges(data=True))
        fail = None
        exp_cols = ["Source", "Sink", "Lag", "CMI", "P_Value"] + ([c for a, c in zip(ARGS, COLS) if a in meta] if edges else [])
        if list(df.columns) != exp_cols:
            fail = f"columns {list(df.columns)} but expected {exp_cols} for supplied arguments {sorted(meta)}"
        elif len(df) != len(edges):
            fail = f"{len(df)} rows for {len(edges)} edges"
        else:
            for i, (u, v, d) in enumerate(edges):
                got = [cell(df[c].iloc[i], nodes, c) for c in df.columns]     # column-wise: a row Series would upcast
                exp = [cell(u, nodes, "Source"), cell(v, nodes, "Sink"), cell(d.get("lag", 0)), cell(d.get("cmi")), cell(d.get("p_value"))] \
                    + [cell(meta[a]) for a in ARGS if a in meta]
                if got != exp:
                    fail = f"row {i} is {got} but edge {i} with the supplied metadata requires {exp}"
                    break
        if list(G.edges(keys=True, data=True)) != snap:
            fail = fail or "graph modified"
        pf.append(fail)
        rows = [[cell(df[c].iloc[i], nodes, c) for c in df.columns] for i in range(len(df))]
        idx = lambda lab: [k for k, x in enumerate(nodes) if type(x) is type(lab) and x == lab][0]
        cases.append("(%s, %s, %s, %s)" % (
            coq_list([opt(meta.get(a), cell) for a in ARGS]),
            coq_list(["(%d, %d, %s, %s, %s)" % (idx(u), idx(v), opt(d.get("lag"), lambda z: f"({z})%Z"),
                                                  opt(d.get("cmi"), qlit), opt(d.get("p_value"), qlit)) for u, v, d in edges]),
            coq_list([coq_str(c) for c in df.columns]), coq_list([coq_list(r) for r in rows])))
        desc.append({"function": "network_to_dataframe", "stream": stream, "nodes": [repr(x) for x in nodes],
                     "edges": [[repr(u), repr(v), d] for u, v, d in edges], "metadata": {k: v for k, v in meta.items()},
                     "columns": list(df.columns)})
        chk.case(key=(cases[-1]), nontrivial=len(edges) > 0, sample=desc[-1] if len(edges) in (1, 2) and len(chk.samples) < 3 else None)
        chk.count("network." + stream)
        if fail is None and edges and rng.random() < 0.2:
            # call history: edit one edge's attributes in place on the same graph object (counts unchanged), export again
            j = int(rng.integers(len(edges)))
            d = edges[j][2]
            d["cmi"] = (d.get("cmi") or 0.0) + 0.125
            d["p_value"] = 0.5
            df2 = network_to_dataframe(G, **meta)
            chk.count("network.re_exported_after_in_place_edit")
            got2 = (cell(df2["CMI"].iloc[j]), cell(df2["P_Value"].iloc[j]))
            if len(df2) != len(edges) or got2 != (cell(d["cmi"]), cell(d["p_value"])):
                chk.violation("counterexample", f"network_to_dataframe on the same graph object after an in-place change of edge {j}'s attributes "
                              f"lists {got2} instead of ({d['cmi']}, {d['p_value']})",
                              {"function": "network_to_dataframe", "history": "export, edit one edge in place, export again",
                               "edge_index": j, "edges_now": [[repr(u), repr(v), dd] for u, v, dd in G.edges(data=True)]})
    lib.correspond(chk, "network_frame_vs_model", IMPORTS,
                   "list (option cell) * list (nat * nat * option Z * option Q * option Q) * list string * list (list cell)",
                   "check_network_case", cases, pf, lambda i: desc[i], shard=450, jobs=12)
    # ------------------------------------------------------------------ PCMCI-graph export
    TY = ["directed", "undirected", "conflicting", "possible_directed", None]
    CT = {"directed": "Directed", "undirected": "Undirected", "conflicting": "Conflicting", "possible_directed": "Possible", None: "Directed"}
    pc, pp, pd_ = [], [], []
    for t in range(500 if chk.tier == "quick" else 25000):
        n = int(rng.integers(1, 6))
        labels = [POOL[i] for i in rng.permutation(len(POOL))[:n]]
        G = nx.MultiDiGraph()
        G.add_nodes_from(labels)
        es = []
        for _ in range(int(rng.integers(0, 11))):
            u, v = labels[int(rng.integers(n))], labels[int(rng.integers(n))]
            ty = TY[int(rng.integers(len(TY)))]
            d = {}
            if ty is not None:
                d["link_type"] = ty
            if rng.random() < 0.85:
                d["lag"] = int(rng.integers(0, 3))
            if rng.random() < 0.8:
                d["val"] = float(rng.choice([0.0, -0.5, float(rng.random())]))
            if rng.random() < 0.8:
                d["p_value"] = float(rng.choice([0.0, 1.0, float(rng.random())]))
            if rng.random() < 0.3:
                d["significant"] = bool(rng.random() < 0.5)
            G.add_edge(u, v, **d)
            if ty in ("undirected", "conflicting") and rng.random() < 0.8:      # PCMCI graphs hold both directions
                G.add_edge(v, u, **d)
        rank = {repr(type(l)) + repr(l): i for i, l in enumerate(sorted(set(labels), key=str))}
        rid = lambda l: rank[repr(type(l.item() if isinstance(l, np.generic) else l)) + repr(l.item() if isinstance(l, np.generic) else l)]
        edges = list(G.edges(data=True))
        df = pcmci_network_to_dataframe(G)
        # expected (definition): oriented links one row each in edge order; a symmetric link once, endpoints in str order
        exp, seen = [], set()
        for u, v, d in edges:
            ty = d.get("link_type", "directed")
            a, b = u, v
            if ty in ("undirected", "conflicting"):
                a, b = sorted((u, v), key=str)
                k = (rid(a), rid(b), d.get("lag", 0), ty)
                if k in seen:
                    continue
                seen.add(k)
            exp.append((rid(a), rid(b), d.get("lag", 0), ty, d.get("val"), d.get("p_value"), d.get("significant")))
        fail = None
        exp_cols = ["Source", "Sink", "Lag", "Val", "P_Value", "Link_Type"] + (
            ["Significant"] if (not exp) or any(e[6] is not None for e in exp) else [])
        got = []
        if list(df.columns) != exp_cols:
            fail = f"columns {list(df.columns)} expected {exp_cols}"
        else:
            for i in range(len(df)):
                r = {c: df[c].iloc[i] for c in df.columns}
                nn = lambda x: None if x is None or (isinstance(x, (float, np.floating)) and np.isnan(x)) else (x.item() if isinstance(x, np.generic) else x)
                sg = nn(r["Significant"]) if "Significant" in df.columns else None
                got.append((rid(r["Source"]), rid(r["Sink"]), int(r["Lag"]), r["Link_Type"], nn(r["Val"]), nn(r["P_Value"]),
                            None if sg is None else bool(sg)))
            if got != exp:
                fail = f"rows {got} but the definition requires {exp}"
        pp.append(fail)
        tup = lambda e: "(%d, %d, (%d)%%Z, %s, %s, %s, %s)" % (e[0], e[1], e[2], CT[e[3]], opt(e[4], qlit), opt(e[5], qlit), opt(e[6], coq_bool))
        pc.append("(%s, %s, %s)" % (
            coq_list([tup((rid(u), rid(v), d.get("lag", 0), d.get("link_type"), d.get("val"), d.get("p_value"), d.get("significant")))
                      for u, v, d in edges]),
            coq_list([tup(e) for e in got]) if fail is None else "[]", coq_list([coq_str(c) for c in df.columns])))
        pd_.append({"function": "pcmci_network_to_dataframe", "nodes": [repr(x) for x in labels],
                    "edges": [[repr(u), repr(v), d] for u, v, d in edges], "rows": [list(map(str, g)) for g in got]})
        chk.case(key=pc[-1], nontrivial=len(edges) > 0, sample=pd_[-1] if 0 < len(edges) < 3 and len(chk.samples) < 5 else None)
        chk.count("pcmci.sampled")
        chk.count("pcmci.with_symmetric" if any(d.get("link_type") in ("undirected", "conflicting") for _, _, d in edges) else "pcmci.oriented_only")
    lib.correspond(chk, "pcmci_frame_vs_model", IMPORTS,
                   "list (nat * nat * Z * ltype * option Q * option Q * option bool) * "
                   "list (nat * nat * Z * ltype * option Q * option Q * option bool) * list string",
                   "check_pcmci_case", pc, pp, lambda i: pd_[i], shard=500, jobs=8)
    chk.rule = ("network_to_dataframe: all 512 metadata subsets on three fixed graphs (1, 3, 7 edges) + sampled multigraphs (0..12 edges, "
                "1..5 nodes with int/str/tuple labels, parallel edges, self-loops, each attribute independently missing, falsy metadata "
                "values such as 0 and ''); pcmci_network_to_dataframe: sampled graphs with all link types, symmetric links stored in both "
                "directions, missing attributes, optional significant flags. Frames are read back cell by cell and compared with the "
                "Coq model in the kernel and with the definition in Python.")
    chk.extra["exhaustive_part"] = "all 2^9 metadata subsets on three graphs"
