"""C12 -- geometric-kNN entropy obeys the laws of a differential entropy estimate."""
import math
import re
from fractions import Fraction

import numpy as np

import lib
from lib import qlit, zlist, zlit, coq_list, coq_bool

IMPORTS = ("From Coq Require Import List ZArith QArith Bool.\nImport ListNotations.\n"
           "From CE Require Import Model.Harness Model.KnnCounts Model.Itv Model.GeoKnn Model.GeoEllipsoid Model.GeoRank.\nOpen Scope Z_scope.\n")
TOL = 1e-8                      # the property's tolerance
TOLQ = "1, 100000000"
BALL = {1: 2.0, 2: math.pi, 3: 4 * math.pi / 3, 4: math.pi ** 2 / 2, 5: 8 * math.pi ** 2 / 15}
SVD = np.linalg.svd             # the library routine itself, captured before any spy is installed
GUARD = 1e-12                   # the implementation's absolute guard
RANK_TOL = 1e-6                 # "numerically zero": trailing / leading singular value of a neighbourhood with k < d (Model/GeoRank.E12 = 1/RANK_TOL^2)


# ------------------------------------------------------------------ independent evaluation of the published formula
class Degenerate(Exception):
    """the sample is outside the property's quantifier: ties, or a `> 1e-12` guard / the `<= 1` ellipsoid test within
    reach of rounding"""


def ref_entropy(X, k):
    """log N + log c_d + d/N sum_i log rho_i + mean_i( -log max(1, inside_i) + sum_{l < rank} log(sigma_il/sigma_i0) )
    with explicit loops: own neighbour search, own centring, own SVD call per neighbourhood.
    rank = min(k, d) is the rank of a centred generic (k+1)-point neighbourhood; the code reads exactly the first
    min(d, len(S), k) = rank singular values (the remaining one, present when k < d, is zero up to rounding noise of any size:
    finding F6).  Raises Degenerate when the sample is not generic."""
    X = np.asarray(X, dtype=float)
    N, d = X.shape
    if not N > k + 1:
        raise Degenerate("N <= k+1")
    log_rho, corr = 0.0, 0.0
    for i in range(N):
        sq = sorted((sum((X[i, c] - X[j, c]) ** 2 for c in range(d)), j) for j in range(N) if j != i)
        if sq[0][0] <= 0.0:
            raise Degenerate("duplicate sample")
        for a, b in zip(sq[:k + 1], sq[1:k + 2]):
            if b[0] - a[0] <= 1e-9 * b[0]:
                raise Degenerate("near-tie among the nearest distances")
        nb = [j for _, j in sq[:k]]
        rho = math.sqrt(sq[k - 1][0])
        if rho < 10 * GUARD:
            raise Degenerate("radius near the guard")
        log_rho += math.log(rho)
        P = np.array([X[i]] + [X[j] for j in nb])
        Y = P - P.sum(axis=0) / (k + 1)
        S, Vt = SVD(Y)[1:]
        rank = min(k, d)
        if S[rank - 1] < 10 * GUARD or S[rank - 1] / S[0] < 10 * GUARD:
            raise Degenerate("singular value near the guard")
        if S[rank - 1] / S[0] < 1e-4:
            # float-level limit, not a guard: the rounding of an SVD is absolute (~1e-16 sigma_0), so log(sigma_l/sigma_0) of a
            # transformed copy can only be reproduced to ~1e-16 / ratio
            raise Degenerate("ill-conditioned neighbourhood")
        inside = 0
        for j in nb:
            z = X[j] - X[i]
            v = sum((float(z @ Vt[l]) / S[l]) ** 2 for l in range(rank))
            if abs(v - 1.0) < 1e-6:
                raise Degenerate("ellipsoid test within rounding of its boundary")
            if v <= 1.0:
                inside += 1
        corr += -math.log(max(1, inside)) + sum(math.log(S[l] / S[0]) for l in range(rank))
    return math.log(N) + math.log(BALL[d]) + d / N * log_rho + corr / N


# ------------------------------------------------------------------ spy on numpy.linalg.svd
class SvdSpy:
    def __enter__(self):
        self.rec = []

        def spy(a, *args, **kw):
            out = SVD(a, *args, **kw)
            self.rec.append((np.array(a, dtype=float, copy=True), [np.array(o, dtype=float, copy=True) for o in out]
                             if isinstance(out, tuple) else None))
            return out
        np.linalg.svd = spy
        return self

    def __exit__(self, *a):
        np.linalg.svd = SVD


def svd_trust(Y, out):
    """numeric check of a recorded decomposition before its singular values are used as oracle values"""
    if out is None or len(out) != 3:
        return "svd was not asked for U, S, Vt"
    U, S, Vt = out
    r = len(S)
    if U.shape[0] != Y.shape[0] or Vt.shape[1] != Y.shape[1] or r != min(Y.shape):
        return "unexpected shapes"
    scale = max(1.0, float(np.abs(Y).max()))
    if np.abs((U[:, :r] * S) @ Vt[:r] - Y).max() > 1e-10 * scale:
        return "U S Vt does not reconstruct the matrix"
    if np.abs(U.T @ U - np.eye(U.shape[1])).max() > 1e-10 or np.abs(Vt @ Vt.T - np.eye(Vt.shape[0])).max() > 1e-10:
        return "factors not orthogonal"
    if np.any(S < 0) or np.any(np.diff(S) > 0):
        return "singular values not non-negative decreasing"
    return None


def tie_free(P):
    """exact: from every point the squared distances to all points are pairwise distinct"""
    N = len(P)
    rows = [[int(v) for v in p] for p in P]
    for i in range(N):
        ds = {sum((a - b) ** 2 for a, b in zip(rows[i], rows[j])) for j in range(N)}
        if len(ds) != N:
            return False
    return True


def pts_term(P):
    return coq_list([zlist(p) for p in P])


def oracle_from_spy(P, S_, k, rec):
    """P integer points, real sample P / S_.  rec: the N recorded (matrix, svd) pairs of one entropy call.
    Returns (svl [list of list of Fraction], insl, nbl [neighbour integer points, nearest first]) or raises
    Degenerate / ValueError(reason)"""
    N, d = P.shape
    X = P / S_
    if len(rec) != N:
        raise ValueError(f"{len(rec)} SVD calls for {N} samples")
    svl, insl, nbl = [], [], []
    for i, (Y, out) in enumerate(rec):
        why = svd_trust(Y, out)
        if why:
            raise ValueError(f"sample {i}: {why}")
        if Y.shape != (k + 1, d) or np.abs(Y.sum(axis=0)).max() > 1e-9 * max(1.0, np.abs(Y).max()):
            raise ValueError(f"sample {i}: SVD input is not a centred (k+1) x d neighbourhood")
        U, S, Vt = out
        nb = []
        for j in range(1, k + 1):
            q = (Y[j] - Y[0]) * S_ + P[i]
            qi = np.rint(q)
            if np.abs(q - qi).max() > 1e-3:
                raise ValueError(f"sample {i}: SVD input row is not a sample point")
            nb.append([int(v) for v in qi])
        rank = min(k, d)
        if S[rank - 1] < 10 * GUARD or S[rank - 1] / S[0] < 10 * GUARD:
            raise Degenerate("singular value near the guard")
        cnt = 0
        with np.errstate(all="ignore"):
            for q in nb:
                z = (np.array(q) - P[i]) / S_
                v = float((((z @ Vt.T[:, :len(S)]) / S) ** 2).sum())
                if abs(v - 1.0) < 1e-6:
                    raise Degenerate("ellipsoid test within rounding of its boundary")
                if v <= 1.0:
                    cnt += 1
        svl.append([Fraction(float(s)) ** 2 for s in S])
        insl.append(cnt)
        nbl.append(nb)
    return svl, insl, nbl


def rank_pairs(rec, N, k, d):
    """(leading, last) squared singular values of each recorded SVD call, as exact rationals, read from the raw spy record
    (no assumption that the recorded input is a centred neighbourhood); an unreadable record gives (0, 1), which the Coq
    check rejects"""
    out = []
    for i in range(N):
        try:
            S = np.asarray(rec[i][1][1], dtype=float)
            if S.shape != (min(k + 1, d),) or not np.all(np.isfinite(S)):
                raise ValueError
            out.append((Fraction(float(S[0])) ** 2, Fraction(float(S[-1])) ** 2))
        except Exception:
            out.append((Fraction(0), Fraction(1)))
    return out


def coqchk_mx(chk):
    """thorough tier: the independent checker on the mathcomp property file as well"""
    rc, out = lib.sh(["timeout", str(lib.COQCHK_TIMEOUT), "coqchk", "-silent", "-o", "-Q", lib.COQ, "CE", "CE.Properties.C12Mx"], timeout=lib.COQCHK_TIMEOUT + 100)
    axioms, sect = [], None
    for line in out.splitlines():
        m = re.match(r"^\* (.*?):\s*(.*)$", line.strip())
        if m:
            sect = m.group(1)
            continue
        if sect == "Axioms" and line.strip():
            axioms.append(line.strip())
    # C12Mx now also contains the list-model transport (LinAlgBridge / GeoRankBridge), whose dependencies load the stdlib Reals and
    # Coq-Interval libraries: the axioms of ALL loaded libraries are therefore the allow-listed ones (each theorem's own
    # `Print Assumptions` -- "Closed under the global context" for every C12Mx theorem -- is checked by check_theorems)
    short = [a.replace("Coq.Logic.", "").replace("Coq.Reals.", "").replace("Coq.Numbers.Cyclic.Int63.", "").replace("Coq.Floats.", "")
             for a in axioms]
    bad = [a for a in short if a not in lib.ALLOWED_AXIOMS and not a.startswith(lib.ALLOWED_AXIOM_PREFIXES)]
    ok = rc == 0 and not bad
    chk.oblige("coqchk", "coqchk -o CE.Properties.C12Mx", ok,
               f"axioms of all loaded libraries: {', '.join(short) or 'none'}" if ok else f"rc={rc} bad axioms={bad} tail={out[-400:]}")


def entropy_case_body(P, S_, k, svl, insl):
    N, d = P.shape
    svt = coq_list([coq_list([qlit(x) for x in sv]) for sv in svl])
    return f"{S_}, {d}%nat, {k}%nat, {pts_term(P)}, {svt}, {zlist(insl)}"


def val_q(v):
    fv = Fraction(v) if math.isfinite(v) else Fraction(10 ** 9)
    return f"{zlit(fv.numerator)}, {zlit(fv.denominator)}"


def grid_points(rng, N, d, kind):
    """tie-free integer points and the scale S: the real sample is points / S (S a power of two: exact in floats)"""
    for _ in range(200):
        if kind == "integer":
            r = 40 * N * N if d == 1 else (60 if N <= 15 else 500)
            S_, lo, hi = 1, -r, r + 1
        else:
            s = int(rng.integers(14 if d == 1 else 8, 19))
            S_, lo, hi = 2 ** s, -4 * 2 ** s, 4 * 2 ** s
        P = rng.integers(lo, hi, (N, d))
        if kind == "dyadic" and d > 1 and rng.random() < 0.5:       # anisotropic cloud: singular-value ratios far from 1
            P[:, 1:] = P[:, 1:] // int(rng.integers(3, 40)) + P[:, :1] // int(rng.integers(1, 5))
        if tie_free(P):
            return P, S_
    raise RuntimeError("no tie-free grid sample found")


def haar(rng, d):
    Q, R = np.linalg.qr(rng.normal(size=(d, d)))
    return Q * np.sign(np.diag(R))


def run(chk):
    import causationentropy.core.information.entropy as ent_mod
    from causationentropy.core.information.mutual_information import geometric_knn_mutual_information
    from causationentropy.core.information.conditional_mutual_information import (
        geometric_knn_conditional_mutual_information, conditional_mutual_information)
    from scipy.spatial.distance import cdist
    rng = np.random.default_rng(chk.seed)
    from concurrent.futures import ThreadPoolExecutor
    _mx = ThreadPoolExecutor(max_workers=1).submit(lib.check_theorems, "C12Mx")     # beside the stdlib-style file's pass
    chk.theorems()
    for r in _mx.result():      # mathcomp theorems (rank of the centred neighbourhood) live in a file of their own
        chk.oblige("theorem", r["name"], r["ok"], r.get("error", "") or ("axioms: " + (", ".join(r["axioms"]) or "none")))
        chk.extra.setdefault("theorem_axioms", {})[r["name"]] = r["axioms"]
    if chk.tier == "thorough":
        coqchk_mx(chk)
    import translate_C12
    lib.translator_lemma(chk, "geo_facts", translate_C12.geo_facts, translate_C12.coq_geo_facts, "")
    quick = chk.tier == "quick"
    chk.trusted += [
        "Coq 8.16.1 kernel + vm_compute; Coq-Interval (BigZ floats, 80 bits) for the enclosures; stdlib real axioms",
        "Model/GeoKnn.v, Model/GeoEllipsoid.v tied by correspondence; a fail-closed ast reader (harness/translate_C12.py) additionally re-proves "
        "lemmas on the neighbour slice / radius index / guard constants / accumulation / signed sums read from the current source",
        "numpy.linalg.svd is an ORACLE for d >= 3: its singular values are recorded by a spy, accepted only after a numeric check "
        "(reconstruction, orthogonality <= 1e-10, ordering) and enter the model as exact rationals (squares of the floats); the inside-counts "
        "derived from the checked factors are compared with an exact rational evaluation of the ellipsoid test inside Coq "
        "(Model/GeoEllipsoid.v; its specification is PROVED for k >= d, every d: the value is the quadratic form z^T (Y^T Y)^-1 z, the count "
        "is the number of neighbours with value <= 1, and the implementation's sum over singular vectors equals it given an exact "
        "eigen-decomposition as hypothesis; for k < d the returned 0 is justified at the mathcomp level only); for d = 1 and d = 2 the value is "
        "additionally enclosed with NO recorded SVD data (d = 1: exact rational; d = 2: closed form with a square root)",
        "rank <= k of the centred neighbourhood: proved for abstract mathcomp matrices (GeoRankMx.v) AND transported to the executable list "
        "functions (LinAlgBridge.v, GeoRankBridge.v, Properties/C12Mx.v LIST MODEL): zdet IS the determinant, centred IS (k+1) x the mathcomp "
        "centring, both Gram determinants of a centred neighbourhood vanish (k < d for the d x d one) and Model/Gauss.v's elimination meets a "
        "zero pivot, for EVERY well-shaped input; Model/GeoRank.rank_one is thereby reduced (theorem) to its comparisons with the recorded "
        "singular values; these list functions are still EVALUATED on every recorded neighbourhood, which ties the theorem's subject to the code",
        "harness/props/C12.py: scaling of dyadic samples to integers, recovery of the neighbour lists from the spy's SVD inputs, "
        "the explicit-loop evaluation of the published formula used as the property predicate, the genericity filter",
        "scipy cdist / gamma are compared, not modelled"]
    chk.assumptions += [
        "tie-free samples, N > k+1, d in 1..5, k in 1..8, Euclidean metric; scale factors in [0.1, 10]; shifts up to 1e4 x the data scale",
        "generic samples: no `> 1e-12` guard within a factor 10 of flipping, no ellipsoid test within 1e-6 of its boundary, no neighbourhood "
        "with sigma_min/sigma_0 < 1e-4 (float conditioning), no near-tied neighbour distances "
        "(finding F6, fixed in /repo 2752a61: a neighbourhood with k < d has exactly-zero singular values whose rounding noise passed "
        "the absolute guard for shifted or float32 samples)",
        "theorems: the SVD data are hypotheses for d >= 2 (unchanged by isometries/row order, squares homogeneous of degree 2, guards stable); none for d = 1"]

    def H(X, k):
        X = np.ascontiguousarray(X, dtype=float)
        return float(ent_mod.geometric_knn_entropy(X, cdist(X, X), k))

    # ------------------------------------------------------------------ A. Coq correspondence on grid samples
    ec, ep, ed = [], [], []                 # entropy cases on recorded SVD data
    sc, sp_, sd = [], [], []                # skeleton cases
    oc, op_, od = [], [], []                # d = 1 cases without any oracle
    tc, tp, td_ = [], [], []                # d = 2 cases without any oracle (closed form with sqrt)
    xc, xd = [], []                         # inside-counts against the exact rational ellipsoid test
    rc_, rp_, rd_ = [], [], []              # rank of the centred neighbourhoods: exact determinants vs recorded singular values
    rank_ctl = []                           # negative control: a k < d case whose trailing singular value is NOT small
    rank_stat = {"k<d.worst_trailing_over_leading": 0.0, "k>=d.smallest_last_over_leading": float("inf")}

    def add_entropy_case(P, S_, k, tag, law_ref=None):
        """run the implementation on P / S_ with the spy; law_ref = (value of the base sample, expected difference, what)"""
        N, d = P.shape
        X = P / S_
        with SvdSpy() as spy:
            h = H(X, k)
        try:
            ref = ref_entropy(X, k)
            svl, insl, nbl = oracle_from_spy(P, S_, k, spy.rec)
        except Degenerate as e:
            chk.count("grid.skipped_nongeneric")
            chk.count(f"skipped.{e}")
            return None
        except ValueError as e:
            svl, insl, nbl = [[] for _ in range(N)], [0] * N, [[] for _ in range(N)]
            ref = ref_entropy(X, k)
            chk.count("grid.spy_unusable")
        fail = None
        if not math.isfinite(h) or abs(h - ref) > TOL:
            fail = (f"geometric_knn_entropy (N={N}, d={d}, k={k}, {tag}) returned {h}; the published formula evaluated independently "
                    f"gives {ref}")
        elif law_ref is not None and abs(h - law_ref[0] - law_ref[1]) > TOL:
            fail = (f"{law_ref[2]}: H(transformed) - H(sample) = {h - law_ref[0]}, the law requires {law_ref[1]} (N={N}, d={d}, k={k})")
        desc = {"what": "entropy", "variant": tag, "k": k, "N": N, "d": d, "scale": S_, "points_int": P.tolist(), "returned": h,
                "formula": ref, "inside_counts": insl}
        ec.append(f"({entropy_case_body(P, S_, k, svl, insl)}, {val_q(h)}, {TOLQ})")
        ep.append(fail)
        ed.append(desc)
        sc.append(f"({k}%nat, {pts_term(P)}, {coq_list([pts_term(nb) for nb in nbl])}, {zlist(insl)})")
        sp_.append(None)
        sd.append(desc)
        if tag == "base" or not quick:          # the transformed copies have the same counts; they are re-checked in the thorough tier
            xc.append(f"({d}%nat, {k}%nat, {pts_term(P)}, {zlist(insl)})")
            xd.append(desc)
        # rank tie (Model/GeoRank.v): read from the RAW spy record, so it does not depend on the recorded input being centred
        prs = rank_pairs(spy.rec, N, k, d)
        rc_.append(f"({d}%nat, {k}%nat, {pts_term(P)}, {coq_list([f'({qlit(a)}, {qlit(b)})' for a, b in prs])})")
        rp_.append(fail)
        if k < d and not rank_ctl:
            rank_ctl.append(f"({d}%nat, {k}%nat, {pts_term(P)}, {coq_list([f'({qlit(a)}, {qlit(a)})' for a, _ in prs])})")
        rd_.append({**desc, "leading_and_last_squared_singular_values": [[str(a), str(b)] for a, b in prs[:3]]})
        for a, b in prs:
            if a > 0:
                ratio = math.sqrt(float(b / a))
                if k < d:
                    rank_stat["k<d.worst_trailing_over_leading"] = max(rank_stat["k<d.worst_trailing_over_leading"], ratio)
                else:
                    rank_stat["k>=d.smallest_last_over_leading"] = min(rank_stat["k>=d.smallest_last_over_leading"], ratio)
        chk.count("rank.neighbourhoods.k<d" if k < d else "rank.neighbourhoods.k>=d", N)
        if d == 2:
            tc.append(f"({S_}, {k}%nat, {pts_term(P)}, {val_q(h)}, {TOLQ})")
            tp.append(fail)
            td_.append(desc)
        if d == 1:
            oc.append(f"({S_}, {k}%nat, {pts_term(P)}, {val_q(h)}, {TOLQ})")
            op_.append(fail)
            od.append(desc)
        chk.case(key=("grid", P.tobytes(), S_, k), nontrivial=True, sample=desc if N <= 6 and len(chk.samples) < 2 else None)
        chk.count(f"grid.d={d}")
        chk.count(f"grid.variant.{tag}")
        chk.count("grid.k<d" if k < d else "grid.k>=d")
        return h, svl, insl

    n_base = 5 if quick else 120
    t = 0
    while t < n_base:
        d = 1 + t % 5 if t < 5 else int(rng.integers(1, 6))
        k = int(rng.integers(1, 9))
        if t == 4:
            k = 1 + (k - 1) % 4             # the d = 5 base sample always has k < d (rank-deficient neighbourhoods: finding F6, rank tie)
        N = int(rng.integers(k + 2, (13 if t % 2 else 21) if quick else 41))
        kind = "integer" if rng.random() < 0.3 else "dyadic"
        P, S_ = grid_points(rng, N, d, kind)
        base = add_entropy_case(P, S_, k, "base")
        if base is None:
            continue
        t += 1
        h0 = base[0]
        # exact transformations that stay on a grid
        tvec = rng.integers(-50 * S_, 50 * S_ + 1, d)
        add_entropy_case(P + tvec, S_, k, "shift", (h0, 0.0, "translation invariance"))
        perm_c = rng.permutation(d)
        signs = rng.choice([-1, 1], d)
        add_entropy_case(P[:, perm_c] * signs, S_, k, "signed-permutation", (h0, 0.0, "rotation/reflection invariance"))
        c, e = int(rng.choice([1, 3, 5, 7])), int(rng.choice([1, 2, 4, 8]))
        if c == e:
            c = 3
        if not 0.1 <= c / e <= 10:
            e = 1
        add_entropy_case(P * c, S_ * e, k, "scale", (h0, d * math.log(c / e), f"scale law a={c}/{e}"))
        add_entropy_case(P[rng.permutation(N)], S_, k, "row-permutation", (h0, 0.0, "sample-order invariance"))

    CT = "Z * nat * nat * list point * list (list Q) * list Z * Z * Z * Z * Z"
    lib.correspond(chk, "entropy_in_verified_enclosure_of_model_on_recorded_svd", IMPORTS, CT, "check_geo_case", ec, ep,
                   lambda i: ed[i], shard=3 if quick else 8, jobs=6, timeout=1500)
    def control():
        # negative control: the enclosure check must reject a value that is off by 1e-6
        if ec:
            body = ec[0].rsplit(", ", 4)[0][1:]
            v_bad = ed[0]["returned"] + 1e-6
            vals = lib.run_cases(chk.pid, "negative_control", IMPORTS, "", [f"check_geo_case ({body}, {val_q(v_bad)}, {TOLQ})"])
            chk.oblige("control", "enclosure check rejects a value off by 1e-6", vals[0] == "false", f"got {vals[0]}")
        if rank_ctl:
            vals = lib.run_cases(chk.pid, "negative_control_rank", IMPORTS, "", [f"check_rank_case {rank_ctl[0]}"])
            chk.oblige("control", "rank check rejects a k < d neighbourhood whose trailing singular value equals the leading one",
                       vals[0] == "false", f"got {vals[0]}")

    # the small correspondences: in the quick tier they run side by side (1+2+1+1+2+1 = 8 coqc processes), otherwise one after another
    side = [
        lambda j: lib.correspond(chk, "neighbour_sets_radii_and_d1_inside_counts_exact", IMPORTS, "nat * list point * list (list point) * list Z",
                                 "check_skel_case", sc, sp_, lambda i: sd[i], shard=40 if quick else 100, jobs=j or 6),
        lambda j: lib.correspond(chk, "inside_counts_equal_exact_rational_ellipsoid_test", IMPORTS, "nat * nat * list point * list Z",
                                 "check_ins_case", xc, [None] * len(xc), lambda i: xd[i], shard=1 if quick else 6, jobs=2 * j or 6),
        lambda j: lib.correspond(chk, "d1_entropy_in_enclosure_without_oracle", IMPORTS, "Z * nat * list point * Z * Z * Z * Z",
                                 "check_geo1_case", oc, op_, lambda i: od[i], shard=10, jobs=j or 6),
        lambda j: lib.correspond(chk, "d2_entropy_in_enclosure_without_oracle", IMPORTS, "Z * nat * list point * Z * Z * Z * Z",
                                 "check_geo2_case", tc, tp, lambda i: td_[i], shard=6, jobs=j or 6),
        lambda j: lib.correspond(chk, "centred_neighbourhood_rank_exact_determinants_vs_recorded_singular_values", IMPORTS,
                                 "nat * nat * list point * list (Q * Q)", "check_rank_case", rc_, rp_, lambda i: rd_[i],
                                 shard=13 if quick else 60, jobs=2 * j or 6),
        lambda j: control()]
    if quick:
        from concurrent.futures import ThreadPoolExecutor
        with ThreadPoolExecutor(max_workers=len(side)) as ex:
            for fut in [ex.submit(f, 1) for f in side]:
                fut.result()
    else:
        for f in side:
            f(0)

    chk.extra["rank_measured"] = {k_: (v if math.isfinite(v) else None) for k_, v in rank_stat.items()}

    # ------------------------------------------------------------------ B. signed sums (MI floored, CMI) on grid samples, in Coq
    mc, mp, md = [], [], []
    n_mi = 3 if quick else 40
    t = 0
    while t < n_mi:
        cond = t % 3 != 0
        dx, dy = int(rng.integers(1, 3)), int(rng.integers(1, 3))
        dz = int(rng.integers(1, 6 - dx - dy)) if cond else 0
        k = int(rng.integers(1, 5))
        N = int(rng.integers(k + 2, 11 if quick else 25))
        W, S_ = grid_points(rng, N, dx + dy + dz, "dyadic")
        if rng.random() < 0.6:
            W[:, dx:dx + dy] = W[:, dx:dx + dy] // 4 + W[:, :1] // 2          # dependence: MI not floored to 0 all the time
        Px, Py, Pz = W[:, :dx], W[:, dx:dx + dy], W[:, dx + dy:]
        blocks = ([("+", np.hstack((Px, Pz))), ("+", np.hstack((Py, Pz))), ("-", W), ("-", Pz)] if cond
                  else [("+", Px), ("+", Py), ("-", np.hstack((Px, Py)))])
        if not all(tie_free(B) for _, B in blocks):
            continue
        via = str(rng.choice(["direct", "dispatcher"]))
        with SvdSpy() as spy:
            if cond:
                v = (geometric_knn_conditional_mutual_information(Px / S_, Py / S_, Pz / S_, k=k) if via == "direct" else
                     conditional_mutual_information(Px / S_, Py / S_, Pz / S_, method="geometric_knn", k=k))
                order = [3, 0, 1, 2]           # the code evaluates H(Z), H(XZ), H(YZ), H(XYZ)
            else:
                v = (geometric_knn_mutual_information(Px / S_, Py / S_, k=k) if via == "direct" else
                     conditional_mutual_information(Px / S_, Py / S_, None, method="geometric_knn", k=1))
                order = [0, 1, 2]
        v = float(v)
        keff = k if (cond or via == "direct") else 1      # Z=None through the dispatcher: default k (known finding K1 of C09)
        if not N > keff + 1:
            continue
        try:
            refs = [ref_entropy(B / S_, keff) for _, B in blocks]
            terms = []
            for pos, bi in enumerate(order):
                sgn, B = blocks[bi]
                svl, insl, _ = oracle_from_spy(B, S_, keff, spy.rec[pos * N:(pos + 1) * N])
                terms.append((bi, f"({coq_bool(sgn == '+')}, {entropy_case_body(B, S_, keff, svl, insl)})"))
        except Degenerate:
            chk.count("sum.skipped_nongeneric")
            continue
        except ValueError:
            terms = []
            chk.count("sum.spy_unusable")
        t += 1
        raw = sum(r if s == "+" else -r for (s, _), r in zip(blocks, refs))
        floor = (not cond) or via == "dispatcher"
        expect = max(0.0, raw) if floor else raw
        fail = None
        if not math.isfinite(v) or abs(v - expect) > TOL:
            fail = (f"geometric {'conditional ' if cond else ''}mutual information (via {via}, k={keff}, N={N}) returned {v}; the documented "
                    f"signed sum of independently evaluated entropies is {raw}" + (" (floored at 0)" if floor else ""))
        mc.append(f"({coq_bool(floor)}, {coq_list([x for _, x in sorted(terms)])}, {val_q(v)}, {TOLQ})")
        mp.append(fail)
        md.append({"what": "cmi" if cond else "mi", "via": via, "k": keff, "N": N, "scale": S_, "X_int": Px.tolist(), "Y_int": Py.tolist(),
                   "Z_int": Pz.tolist() if cond else None, "returned": v, "signed_sum": raw, "floored": floor})
        chk.case(key=("sum", W.tobytes(), S_, k, cond, via), nontrivial=raw > 0 or not floor)
        chk.count("sum.cmi" if cond else "sum.mi")
        chk.count(f"sum.via.{via}")
        chk.count("sum.floored_to_0" if floor and raw <= 0 else "sum.not_floored")
    lib.correspond(chk, "signed_entropy_sums_in_verified_enclosure", IMPORTS, "bool * list term_case * Z * Z * Z * Z", "check_geo_combo_case",
                   mc, mp, lambda i: md[i], shard=1, jobs=6, timeout=1500)

    # ------------------------------------------------------------------ C. property predicate on arbitrary tie-free float samples
    def float_sample(N, d):
        M = rng.normal(size=(d, d)) * 10.0 ** rng.uniform(-1, 1)
        return rng.normal(size=(N, d)) @ M + rng.normal(size=(1, d)) * 10.0 ** rng.uniform(-1, 1)

    def report(what, replay):
        chk.violation("counterexample", what, replay)

    float_rank = {"worst": 0.0, "n": 0}       # measured only: trailing / leading singular value of shifted float neighbourhoods with k < d
    n_formula = 25 if quick else 600
    n_laws = 60 if quick else 2000
    t = 0
    while t < max(n_formula, n_laws):
        d = int(rng.integers(1, 6))
        k = int(rng.integers(1, 9))
        N = int(rng.integers(k + 2, 41))
        X = float_sample(N, d)
        try:
            ref = ref_entropy(X, k)
        except Degenerate as e:
            chk.count("float.skipped_nongeneric")
            chk.count(f"skipped.{e}")
            continue
        t += 1
        h = H(X, k)
        chk.case(key=("float", X.tobytes(), k), nontrivial=True)
        chk.count(f"float.d={d}")
        chk.count("float.k<d" if k < d else "float.k>=d")
        base = {"k": k, "N": N, "d": d, "X": X.tolist(), "returned": h}
        if t <= n_formula:
            chk.count("float.formula_cases")
            if not math.isfinite(h) or abs(h - ref) > TOL:
                report(f"geometric_knn_entropy (N={N}, d={d}, k={k}) returned {h}; the published formula evaluated independently gives {ref}",
                       {**base, "formula": ref})
                continue
        if t > n_laws:
            continue
        scale_x = float(np.abs(X - X.mean(axis=0)).max())
        a = float(math.exp(rng.uniform(math.log(0.1), math.log(10.0))))
        # shifts up to 1e4 x the data scale (finding F6: before repair 2752a61 a neighbourhood with k < d let rounding noise of
        # its exactly-zero singular values pass the absolute guard once the sample was shifted by >= 1e4 x its scale)
        tvec = rng.normal(size=(1, d)) * scale_x * 10.0 ** rng.uniform(-1, 4)
        Q = haar(rng, d)
        perm = rng.permutation(N)
        laws = [("translation invariance H(X + t) = H(X)", X + tvec, 0.0, {"shift": tvec.tolist()}),
                ("rotation invariance H(X Q) = H(X)", X @ Q, 0.0, {"Q": Q.tolist()}),
                (f"scale law H(a X) = H(X) + d ln a, a={a}", a * X, d * math.log(a), {"a": a}),
                ("sample-order invariance H(X[perm]) = H(X)", X[perm], 0.0, {"perm": perm.tolist()})]
        for what, Xt, delta, extra in laws:
            try:
                ref_entropy(Xt, k)             # genericity of the transformed sample (guards, ellipsoid boundary, near-ties)
            except Degenerate as e:
                chk.count("laws.skipped_nongeneric_image")
                chk.count(f"skipped.{e}")
                continue
            if k < d and what.startswith("translation"):
                with SvdSpy() as spy_t:
                    ht = H(Xt, k)
                for _, out_t in spy_t.rec:
                    if out_t is not None and len(out_t) == 3 and len(out_t[1]) == k + 1 and out_t[1][0] > 0:
                        float_rank["worst"] = max(float_rank["worst"], float(out_t[1][-1] / out_t[1][0]))
                        float_rank["n"] += 1
            else:
                ht = H(Xt, k)
            chk.count("laws.checked")
            chk.case(key=("law", what[:8], X.tobytes(), k), nontrivial=True)
            if not math.isfinite(ht) or abs(ht - h - delta) > TOL:
                report(f"{what} violated: H(transformed) - H(X) = {ht - h}, required {delta} (N={N}, d={d}, k={k})",
                       {**base, **extra, "transformed": Xt.tolist(), "returned_transformed": ht})
                break
        h_again = H(X, k)                       # the same arguments after other calls: the estimate has no memory
        if not abs(h_again - h) <= TOL:
            report(f"geometric_knn_entropy returned {h} and later {h_again} for the same arguments (N={N}, d={d}, k={k})", base)

    chk.extra["rank_measured"]["float.shifted.k<d.worst_trailing_over_leading"] = float_rank["worst"]
    chk.extra["rank_measured"]["float.shifted.k<d.neighbourhoods"] = float_rank["n"]

    # MI / CMI as signed sums on float samples, through the estimator functions and the dispatcher
    n_sum = 24 if quick else 500
    t = 0
    while t < n_sum:
        cond = rng.random() < 0.6
        dx, dy = int(rng.integers(1, 3)), int(rng.integers(1, 3))
        dz = int(rng.integers(1, 6 - dx - dy)) if cond else 0
        k = int(rng.integers(1, 9))
        N = int(rng.integers(k + 2, 41))
        W = float_sample(N, dx + dy + dz)
        if t % 3 == 1:
            # the sample sits far from the origin (offset 1e2 .. 1e4 x its spread): the signed sum is about neighbour DISTANCES,
            # which the coordinates' magnitude must not degrade (translation invariance of each entropy)
            W = W + rng.normal(size=(1, dx + dy + dz)) * float(np.abs(W - W.mean(axis=0)).max()) * 10.0 ** rng.uniform(2, 4)
            chk.count("float.sum.large_offset")
        Xf, Yf, Zf = W[:, :dx], W[:, dx:dx + dy], W[:, dx + dy:]
        via = str(rng.choice(["direct", "dispatcher", "default-k"]))

        def signed_sum(kk):
            if cond:
                return (ref_entropy(np.hstack((Xf, Zf)), kk) + ref_entropy(np.hstack((Yf, Zf)), kk) - ref_entropy(W, kk)
                        - ref_entropy(Zf, kk))
            return ref_entropy(Xf, kk) + ref_entropy(Yf, kk) - ref_entropy(W, kk)

        def call(kk):
            if cond:
                return float(geometric_knn_conditional_mutual_information(Xf, Yf, Zf, metric="euclidean", k=kk) if via != "dispatcher" else
                             conditional_mutual_information(Xf, Yf, Zf, method="geometric_knn", metric="euclidean", k=kk))
            return float(geometric_knn_mutual_information(Xf, Yf, metric="euclidean", k=kk) if via == "direct" else
                         conditional_mutual_information(Xf, Yf, None, method="geometric_knn", k=1) if via == "dispatcher" else
                         geometric_knn_conditional_mutual_information(Xf, Yf, None))
        k_honoured = cond or via == "direct"       # Z=None through the conditional function: default k (known finding K1 of C09)
        floor = (not cond) or via == "dispatcher"
        # the SAME sample is evaluated for k, then for another k2, then for k again (a scan over k, as when k is being chosen):
        # every call must return the signed sum for ITS k, whatever was evaluated before
        ks = [k if k_honoured else 1]
        if k_honoured:
            others = [q for q in range(1, 9) if q != k and N > q + 1]
            if others:
                ks += [int(rng.choice(others)), k]
        if not N > ks[0] + 1:
            continue
        try:
            raws = {kk: signed_sum(kk) for kk in set(ks)}
        except Degenerate:
            chk.count("float.skipped_nongeneric")
            continue
        t += 1
        chk.count("float.cmi" if cond else "float.mi")
        chk.count(f"float.sum.via.{via}")
        for step, kk in enumerate(ks):
            v = call(kk)
            raw = raws[kk]
            expect = max(0.0, raw) if floor else raw
            chk.case(key=("fsum", W.tobytes(), kk, step, cond, via), nontrivial=True)
            chk.count("float.sum.calls")
            chk.count("float.sum.floored_to_0" if floor and raw <= 0 else "float.sum.not_floored")
            if not math.isfinite(v) or abs(v - expect) > TOL:
                report(f"geometric {'conditional ' if cond else ''}mutual information (via {via}, k={kk}, N={N}, call {step + 1} of the k-scan "
                       f"{ks} on one sample) returned {v}; the documented signed sum of independently evaluated entropies is {raw}"
                       + (" (floored at 0)" if floor else ""),
                       {"k_sequence": ks, "failing_call": step, "via": via, "X": Xf.tolist(), "Y": Yf.tolist(),
                        "Z": Zf.tolist() if cond else None, "returned": v, "signed_sum": raw, "floored": floor})
                break

    # near-duplicate observations: k-th neighbour distances between 1e-10 and 1e-6 (ordinary tie-free samples, far above the
    # code's 1e-12 guard).  k = 1 (two-point neighbourhoods: a single singular value) or d = 1, so that no neighbourhood is
    # ill-conditioned.  Formula and the scale law with a power of two (exact in floats); shifts / rotations would perturb
    # distances of 1e-8 by rounding of the coordinates and are not checked here.
    t = 0
    while t < (12 if quick else 300):
        d = int(rng.integers(1, 6))
        k = 1 if d > 1 else int(rng.integers(1, 4))
        N = int(rng.integers(k + 4, 31))
        X = float_sample(N, d)
        m = int(rng.integers(1, 4))
        for j in range(m):                      # m clusters of k+1 points within 1e-10 .. 1e-6 of each other
            if j * (k + 1) >= N:
                break
            base_pt = X[j * (k + 1)]
            for q in range(1, k + 1):
                if j * (k + 1) + q < N:
                    X[j * (k + 1) + q] = base_pt + rng.normal(size=d) * 10.0 ** rng.uniform(-10, -6.5) * (q + rng.random())
        try:
            ref = ref_entropy(X, k)
        except Degenerate as e:
            chk.count(f"neardup.skipped.{e}")
            continue
        t += 1
        h = H(X, k)
        chk.case(key=("neardup", X.tobytes(), k), nontrivial=True)
        chk.count("neardup.cases")
        base = {"k": k, "N": N, "d": d, "X": X.tolist(), "returned": h, "formula": ref}
        if not math.isfinite(h) or abs(h - ref) > TOL:
            report(f"geometric_knn_entropy on a sample with near-duplicate observations (k-th neighbour distances down to 1e-10; N={N}, "
                   f"d={d}, k={k}) returned {h}; the published formula evaluated independently gives {ref}", base)
            continue
        a = 2.0 ** int(rng.integers(-3, 4))
        ha = H(a * X, k)
        if not math.isfinite(ha) or abs(ha - h - d * math.log(a)) > TOL:
            report(f"scale law H(a X) = H(X) + d ln a, a={a}, on a sample with near-duplicate observations: H(aX) - H(X) = {ha - h}, "
                   f"required {d * math.log(a)} (N={N}, d={d}, k={k})", {**base, "a": a, "returned_scaled": ha})

    # the signed sums for the other metrics the estimator functions accept: each entropy is the code's own
    # geometric_knn_entropy of the stacked sample with cdist in THAT metric (what "documented signed sum of such entropies" means
    # there; the entropy laws themselves are claimed for the Euclidean metric only)
    from scipy.spatial.distance import cdist as _cdist
    t = 0
    while t < (16 if quick else 300):
        metric = str(rng.choice(["cityblock", "chebyshev"]))
        cond = rng.random() < 0.7
        dx, dy = int(rng.integers(1, 3)), int(rng.integers(1, 3))
        dz = int(rng.integers(1, 6 - dx - dy)) if cond else 0
        k = int(rng.integers(1, 6))
        N = int(rng.integers(k + 3, 36))
        W = float_sample(N, dx + dy + dz)
        Xf, Yf, Zf = W[:, :dx].copy(), W[:, dx:dx + dy].copy(), W[:, dx + dy:].copy()
        via = str(rng.choice(["direct", "dispatcher"]))

        def Hm(S_):
            return float(ent_mod.geometric_knn_entropy(S_, _cdist(S_, S_, metric=metric), k))
        import warnings as _w
        with _w.catch_warnings():
            _w.simplefilter("ignore")
            if cond:
                raw = Hm(np.hstack((Xf, Zf))) + Hm(np.hstack((Yf, Zf))) - Hm(W) - Hm(Zf)
                v = float(geometric_knn_conditional_mutual_information(Xf, Yf, Zf, metric=metric, k=k) if via == "direct" else
                          conditional_mutual_information(Xf, Yf, Zf, method="geometric_knn", metric=metric, k=k))
                expect = max(0.0, raw) if via == "dispatcher" else raw
            else:
                raw = Hm(Xf) + Hm(Yf) - Hm(W)
                v = float(geometric_knn_mutual_information(Xf, Yf, metric=metric, k=k))
                expect = max(0.0, raw)
        if not math.isfinite(raw):
            chk.count("metric_sum.skipped_nonfinite")
            continue
        t += 1
        chk.case(key=("msum", W.tobytes(), metric, k, cond, via), nontrivial=True)
        chk.count(f"metric_sum.{metric}.{'cmi' if cond else 'mi'}")
        if not math.isfinite(v) or abs(v - expect) > TOL:
            report(f"geometric {'conditional ' if cond else ''}mutual information (metric={metric}, via {via}, k={k}, N={N}) returned {v}; the "
                   f"signed sum of geometric_knn_entropy of the stacked samples with {metric} distances is {raw}",
                   {"metric": metric, "via": via, "k": k, "X": Xf.tolist(), "Y": Yf.tolist(), "Z": Zf.tolist() if cond else None,
                    "returned": v, "signed_sum": raw})
        if not (np.array_equal(Xf, W[:, :dx]) and np.array_equal(Yf, W[:, dx:dx + dy]) and np.array_equal(Zf, W[:, dx + dy:])):
            report(f"geometric (conditional) mutual information (metric={metric}) modified its argument arrays", {"metric": metric, "k": k})

    chk.rule = ("Grid samples (integer range 120 and dyadic grids 2^-8..2^-18, isotropic and anisotropic, tie-free by exact test), N k+2..40, "
                "d 1..5, k 1..8: the implementation runs with a spy on numpy.linalg.svd; the recorded singular values (after a numeric check) "
                "and the inside-counts recomputed from the checked factors enter the Coq model as exact rationals, and the returned entropy "
                "must lie within 1e-8 of the verified interval enclosure of the model; each base sample is also translated by an integer "
                "vector, mapped by a signed coordinate permutation, scaled by c/e (c odd <= 7, e a power of two) and row-permuted, with the "
                "law checked on the implementation and the model re-evaluated; neighbour sets and radii recovered from the spy are compared "
                "exactly, the inside-counts against an exact rational ellipsoid test (proved specification); for every recorded neighbourhood the exact integer "
                "Gram determinants (0 when k < d, non-zero when k >= d) are computed in Coq and, when k < d, the recorded trailing singular value must be "
                "<= 1e-6 x the leading one (rank <= k, the reason only k singular values are read); d = 1 and d = 2 cases are additionally evaluated with NO SVD data. MI (floored) / CMI signed sums likewise on grids, via the "
                "estimator functions and the dispatcher. Arbitrary affine-mixed Gaussian floats (scales 0.1..10): the entropy against the "
                "explicit-loop evaluation of the published formula, the four laws with Haar orthogonal maps, shifts up to 1e4 x the data "
                "scale, a in [0.1, 10], and the MI/CMI signed sums incl. the Z=None default-k path, each sample evaluated for k, another k, and k "
                "again in sequence (every call must return the signed sum for its own k); samples with near-duplicate observations (k-th neighbour distances 1e-10..1e-6, k = 1 or d = 1): formula and power-of-two scale law; cityblock / chebyshev metrics: MI / CMI = signed sum of the code's own entropies of the stacked samples with distances in that metric; all at 1e-8. Non-generic samples "
                "(guards / ellipsoid boundary / near-ties within rounding) are regenerated and counted.")
