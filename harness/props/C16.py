"""C16 -- lag subnetworks partition the edges; companion matrix has VAR block form."""
import itertools

import networkx as nx
import numpy as np

import lib
from lib import qlit, coq_list, zmat

IMPORTS = ("From Coq Require Import List ZArith QArith.\nImport ListNotations.\n"
           "From CE Require Import Model.Harness Model.LagNet.\n")
EDGE_T = "nat * nat * nat * Q * Q"


def coq_edges(es):
    return coq_list([f"({s}%nat, {d}%nat, {l}%nat, {qlit(c)}, {qlit(p)})" for s, d, l, c, p in es])


def gen_graph(rng, exhaustive=None):
    if exhaustive is not None:
        n, triples = 2, exhaustive
        labels = ["a", "b"]
    else:
        n = int(rng.integers(1, 7))
        pool = [0, 1, 2, "x", "y", "node 7", (1, 2), ("u", 0), 3.5, "Z"]
        labels = [pool[i] for i in rng.permutation(len(pool))[:n]]
        lags = sorted(set(int(v) for v in rng.choice([0, 1, 2, 3, 5], int(rng.integers(1, 4)))))
        cand = [(u, v, l) for u in range(n) for v in range(n) for l in lags]
        k = int(rng.integers(0, min(len(cand), 12) + 1))
        triples = [cand[i] for i in rng.permutation(len(cand))[:k]]
    G = nx.MultiDiGraph()
    order = list(range(n))
    if rng is not None:
        order = [int(i) for i in rng.permutation(n)]
    for i in order:
        G.add_node(labels[i], color=f"c{i}")
    es = []
    for (u, v, l) in triples:
        if rng is not None:
            c = float(rng.choice([0.0, 0.25, 1.5, float(rng.random())]))
            p = float(rng.choice([0.0, 1.0, 0.05, float(rng.integers(0, 21)) / 20]))
        else:
            c, p = 0.5 + u + 2 * v + 4 * l, 0.0
        G.add_edge(labels[u], labels[v], lag=l, cmi=c, p_value=p)
        es.append((u, v, l, c, p))
    nodes = list(G.nodes())
    idx = {lab: i for i, lab in enumerate(nodes)}
    es = [(idx[labels[u]], idx[labels[v]], l, c, p) for (u, v, l, c, p) in es]
    return G, nodes, es


def judge(G, nodes, es, cases_s, pf_s, desc_s, cases_c, pf_c, desc_c, chk, stream):
    from causationentropy.core.linalg import companion_matrix, subnetwork
    n = len(nodes)
    idx = {lab: i for i, lab in enumerate(nodes)}
    K = max([e[2] for e in es], default=0)
    snap = (list(G.nodes(data=True)), list(G.edges(keys=True, data=True)))
    seen = []
    for k in range(0, K + 2):
        H = subnetwork(G, k)
        out = [(idx[u], idx[v], k, float(d.get("cmi")), float(d.get("p_value"))) for u, v, d in H.edges(data=True)]
        exp = sorted(e for e in es if e[2] == k)
        fail = None
        if list(H.nodes(data=True)) != list(G.nodes(data=True)):
            fail = f"lag-{k} subnetwork does not contain all nodes (with their data, in order)"
        elif sorted(out) != exp:
            fail = f"lag-{k} subnetwork edges {sorted(out)} are not exactly the lag-{k} edges with their cmi and p-value {exp}"
        elif any(set(d.keys()) != {"cmi", "p_value"} for _, _, d in H.edges(data=True)):
            fail = "subnetwork edge attributes are not exactly cmi and p_value"
        seen += out
        pf_s.append(fail)
        cases_s.append(f"({coq_edges(es)}, {k}%nat, {coq_edges(out)})")
        desc_s.append({"function": "subnetwork", "stream": stream, "nodes": [repr(x) for x in nodes], "edges": es, "lag": k, "returned": out})
        chk.case(key=("s", tuple(es), k, n), nontrivial=len(exp) > 0)
    if sorted(seen) != sorted(es):
        pf_s[-1] = pf_s[-1] or "the subnetworks over all lags do not partition the edge set"
    C = companion_matrix(G)
    fail = None
    exp = np.zeros((n * K, n * K)) if K > 0 else np.zeros((0, 0))
    for (u, v, l, _, _) in es:
        if l >= 1:
            exp[u, (l - 1) * n + v] = 1
    for r in range(n, n * K):
        exp[r, r - n] = 1
    if not isinstance(C, np.ndarray) or C.shape != exp.shape:
        fail = f"companion matrix has shape {getattr(C, 'shape', None)}, expected {exp.shape}"
    elif not np.array_equal(C, exp):
        r, c = np.argwhere(C != exp)[0]
        fail = f"companion entry ({r},{c}) is {C[r, c]} but the VAR block form requires {exp[r, c]}"
    if (list(G.nodes(data=True)), list(G.edges(keys=True, data=True))) != snap:
        fail = fail or "the input graph was modified"
    pf_c.append(fail)
    try:
        M = [[int(x) for x in row] for row in np.asarray(C).tolist()] if np.asarray(C).size else []
        if any(float(a) != b for row, rowi in zip(np.asarray(C).tolist(), M) for a, b in zip(row, rowi)):
            raise ValueError
    except Exception:
        M = [[7]]
    cases_c.append(f"({n}%nat, {coq_edges(es)}, {zmat(M)}%Z)")
    desc_c.append({"function": "companion_matrix", "stream": stream, "nodes": [repr(x) for x in nodes], "edges": es,
                   "returned": np.asarray(C).tolist() if np.asarray(C).size <= 64 else "large"})
    chk.case(key=("c", tuple(es), n), nontrivial=K > 0, sample=desc_c[-1] if 0 < K and n * K <= 4 and len(chk.samples) < 4 else None)
    chk.count(f"{stream}.graphs")
    chk.count("lag0_and_positive" if any(e[2] == 0 for e in es) and K > 0 else "other_lag_mix")


def run(chk):
    rng = np.random.default_rng(chk.seed)
    chk.theorems()
    chk.trusted += ["Coq 8.16.1 kernel + vm_compute", "harness/props/C16.py: mapping of node labels to insertion indices, float->Q",
                    "networkx containers and adjacency_matrix are exercised, not modelled"]
    chk.assumptions += ["multigraphs with unique (source, target, lag) triples; every edge carries lag, cmi and p_value"]
    cs, ps, ds, cc, pc, dc = [], [], [], [], [], []
    # exhaustive: 2 nodes x lags <= 2: all 2^12 edge sets
    cand = [(u, v, l) for u in range(2) for v in range(2) for l in range(3)]
    masks = range(2 ** 12) if chk.tier == "thorough" else [int(m) for m in rng.choice(2 ** 12, 250, replace=False)]
    for m in masks:
        tr = [cand[i] for i in range(12) if m >> i & 1]
        G, nodes, es = gen_graph(None, exhaustive=tr)
        judge(G, nodes, es, cs, ps, ds, cc, pc, dc, chk, "two_nodes_lags_le_2")
    for t in range(500 if chk.tier == "quick" else 30000):
        G, nodes, es = gen_graph(rng)
        judge(G, nodes, es, cs, ps, ds, cc, pc, dc, chk, "sampled")
        if es and rng.random() < 0.3:
            # call HISTORY on one graph object: after the queries above, edit the graph in place without changing its node and
            # edge counts (re-lag one edge or overwrite its numbers) and query again: results must describe the CURRENT graph
            j = int(rng.integers(len(es)))
            u, v, l, c, p = es[j]
            key = [k for k, d in G[nodes[u]][nodes[v]].items() if d["lag"] == l][0]
            if rng.random() < 0.5:
                free = [x for x in range(0, 7) if all(not (e[0] == u and e[1] == v and e[2] == x) for e in es)]
                l2 = int(rng.choice(free))
                G.remove_edge(nodes[u], nodes[v], key)
                G.add_edge(nodes[u], nodes[v], lag=l2, cmi=c, p_value=p)
                es2 = es[:j] + es[j + 1:] + [(u, v, l2, c, p)]
            else:
                c2, p2 = c + 0.5, float(rng.choice([0.0, 0.5, 1.0]))
                G[nodes[u]][nodes[v]][key]["cmi"] = c2
                G[nodes[u]][nodes[v]][key]["p_value"] = p2
                es2 = es[:j] + [(u, v, l, c2, p2)] + es[j + 1:]
            judge(G, nodes, es2, cs, ps, ds, cc, pc, dc, chk, "edited_in_place_after_queries")
    lib.correspond(chk, "subnetwork_vs_model", IMPORTS, f"list ({EDGE_T}) * nat * list ({EDGE_T})", "check_subnet_case",
                   cs, ps, lambda i: ds[i], shard=600, jobs=12)
    lib.correspond(chk, "companion_vs_model", IMPORTS, f"nat * list ({EDGE_T}) * list (list Z)", "check_companion_case",
                   cc, pc, lambda i: dc[i], shard=300, jobs=12)
    chk.rule = ("Multigraphs with unique (source,target,lag) triples: 1..6 nodes inserted in shuffled order with mixed label types "
                "(int, str, tuple, float), lags from {0,1,2,3,5} with gaps, isolated nodes, self-loops, cmi/p-values including exact 0 and 1; "
                "plus all (thorough) / a seeded subset of (quick) the 2^12 edge sets over 2 nodes x lags 0..2. subnetwork(G,k) for every "
                "k in 0..K+1 and companion_matrix(G) -- also again after an in-place edit of the same graph object -- are compared with the Coq model in the kernel and with explicit definitions in Python.")
    chk.exhaustive = False
    if chk.tier == "thorough":
        chk.extra["exhaustive_part"] = "all 4096 edge sets over 2 nodes x lags {0,1,2}"
