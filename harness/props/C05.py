"""C05 -- a strong planted lagged dependence is recovered with its direction and lag."""
import io
import math
import multiprocessing as mp
import sys
import warnings

import numpy as np

import lib
import translate
from lib import coq_list, coq_bool, zlit

IMPORTS = ("From Coq Require Import List ZArith Bool.\nImport ListNotations.\n"
           "From CE Require Import Model.Harness Model.Selection Model.Recovery.\n")
CASE_T = ("bool * nat * nat * list nat * list (nat * list nat * Z) * list (nat * list nat * bool) * "
          "list (nat * list nat * bool) * list nat * (nat * nat) * list (nat * nat)")
METHODS = ["standard", "alternative", "information_lasso", "lasso"]
P0 = {"gaussian": 0.98, "knn": 0.98, "kde": 0.98, "poisson": 0.98, "geometric_knn": 0.75}
N_SHUFFLES = 50


def planted_system(rng, info, small=False, corner=False, shape=None):
    """the property's own recipe: v(t) = 0.95 u(t-tau) + 0.3 noise (counts: Poisson(0.5 + 2 u(t-tau))), everything else
    independent noise; random placement"""
    if info == "geometric_knn":
        n, T = 2, 100
    elif small:
        n, T = int(rng.integers(2, 4)), int(rng.integers(100, 131))
    else:
        n, T = int(rng.integers(2, 5)), int(rng.integers(100, 181))
    L = int(rng.integers(1, 3 if small else 4))
    if corner:                                # the corner of the placement domain with the fewest rows per lagged predictor
        n, T, L = 4, int(rng.integers(100, 106)), 3
    if shape is not None:
        n, T, L = shape
    u = int(rng.integers(0, n))
    v = int(rng.choice([i for i in range(n) if i != u]))
    tau = int(rng.integers(1, L + 1))
    if info == "poisson":
        X = rng.poisson(1.0, (T, n)).astype(float)
        for t in range(tau, T):
            X[t, v] = rng.poisson(0.5 + 2.0 * X[t - tau, u])
    else:
        X = rng.normal(size=(T, n))
        noise = rng.normal(size=T)
        for t in range(tau, T):
            X[t, v] = 0.95 * X[t - tau, u] + 0.3 * noise[t]
    return X, n, L, u, v, tau


def run_system(task):
    """one planted system through the real discover_network, with the landscape of the target's selection recorded"""
    info, method, seed, small = task[:4]
    stress = len(task) > 4 and task[4] is True
    corner = len(task) > 4 and task[4] == "corner"
    warnings.filterwarnings("ignore")
    import causationentropy.core.discovery as disc
    from discover_spy import Spy
    rng = np.random.default_rng(seed)
    history = len(task) > 4 and task[4] == "history"
    X, n, L, u, v, tau = planted_system(rng, info, small, corner)
    if history:
        # call history on ONE array object: system A is analysed, the same buffer is refilled in place with system B (same shape,
        # another placement) and analysed again with the same max_lag -- the second analysis is the one recorded and tallied
        old0 = sys.stdout
        sys.stdout = io.StringIO()
        try:
            disc.discover_network(X, method=method, information=info, max_lag=L, n_shuffles=N_SHUFFLES)
        finally:
            sys.stdout = old0
        XB, _, _, u, v, tau = planted_system(rng, info, small, corner, shape=(n, X.shape[0], L))
        X[:] = XB
    T = X.shape[0]
    phase = {"bwd": False}
    orig_bwd = disc.backward

    def bwd_wrap(*a, **kw):
        phase["bwd"] = True
        try:
            return orig_bwd(*a, **kw)
        finally:
            phase["bwd"] = False
    disc.backward = bwd_wrap
    old = sys.stdout
    sys.stdout = io.StringIO()
    try:
        with Spy(disc) as spy:
            # tag forward / backward on the records as they are made
            orig_cmi, orig_test = disc.conditional_mutual_information, disc.shuffle_test

            def cmi(*a, **kw):
                r = orig_cmi(*a, **kw)
                spy.cmi_calls[-1]["bwd"] = phase["bwd"]
                return r

            def test(*a, **kw):
                r = orig_test(*a, **kw)
                spy.test_calls[-1]["bwd"] = phase["bwd"]
                return r
            disc.conditional_mutual_information, disc.shuffle_test = cmi, test
            extra = {"alpha_forward": 0.4, "alpha_backward": 0.01} if stress else {}
            # the same numbers in the layouts users actually pass: C order, Fortran order, a transposed (n, T) array, a
            # column-sliced view, a DataFrame built from columns (whose .values is Fortran-ordered)
            pres = ["c", "c", "f", "transposed", "col_view", "frame_cols"][seed % 6] if not history else "c"
            if pres == "f":
                Xp = np.asfortranarray(X)
            elif pres == "transposed":
                Xp = np.ascontiguousarray(X.T).T
            elif pres == "col_view":
                big = np.zeros((X.shape[0], 2 * X.shape[1]))
                big[:, ::2] = X
                Xp = big[:, ::2]
            elif pres == "frame_cols":
                import pandas as pd
                Xp = pd.DataFrame({f"X{j}": X[:, j].copy() for j in range(X.shape[1])})
            else:
                Xp = X
            G = disc.discover_network(Xp, method=method, information=info, max_lag=L, n_shuffles=N_SHUFFLES, **extra)
    finally:
        sys.stdout = old
        disc.backward = orig_bwd
    names = list(G.nodes())
    edges_v = [(names.index(a), int(d["lag"]), float(d["cmi"])) for a, b, d in G.edges(data=True) if b == names[v]]
    planted = [e for e in edges_v if (e[0], e[1]) == (u, tau)]
    res = {"history": bool(history), "corner": bool(corner), "stress": bool(stress), "presentation": pres, "info": info, "method": method, "seed": seed, "n": n, "L": L, "T": T, "u": u, "v": v, "tau": tau,
           "edges_into_v": edges_v, "recovered": bool(planted),
           "top": bool(planted) and all(planted[0][2] >= e[2] for e in edges_v),
           "wrong_lag_or_direction": [e[:2] for e in edges_v if e[0] == u and e[1] != tau]}
    if method in ("standard", "alternative"):
        # column content -> candidate index of X_lagged (variable j, lag t -> j*L + t - 1)
        col = {}
        for j in range(n):
            for t in range(1, L + 1):
                col[X[L - t:T - t, j].tobytes()] = j * L + t - 1
        def idx(A):
            return None if A is None else [col.get(np.ascontiguousarray(A[:, k]).tobytes(), -1) for k in range(A.shape[1])]
        init = [v * L + t - 1 for t in range(1, L + 1)] if method == "standard" else []
        sel = [c for c in spy.cmi_calls if c["target"] == v and c["phase"] == "select"]
        tst = [c for c in spy.test_calls if c["target"] == v and c["phase"] == "select"]
        # NaN values (Gaussian estimator on an own-lag candidate that is already in the conditioning set) are what np.argmax
        # treats as maximal, first one winning: they get a common top rank, so the model's first-maximum rule picks the same one
        ok = True
        vals = sorted({float(c["value"]) for c in sel if not math.isnan(float(c["value"]))})
        rank = {x: i for i, x in enumerate(vals)}
        tf, tF, tB, order = [], [], [], []
        for c in sel:
            if c.get("bwd"):
                continue
            j, zs = idx(c["X"])[0], idx(c["Z"]) or []
            ok = ok and j >= 0 and all(z >= 0 for z in zs)
            tf.append((j, sorted(set(zs)), rank.get(float(c["value"]), len(vals))))
        for c in tst:
            j, zs = idx(c["X"])[0], idx(c["Z"]) or []
            ok = ok and j >= 0 and all(z >= 0 for z in zs)
            (tB if c.get("bwd") else tF).append((j, sorted(set(zs)), bool(c["result"]["Pass"])))
            if c.get("bwd"):
                order.append(j)
        c_idx = u * L + tau - 1
        first = [x for x in tf if x[1] == sorted(set(init))]          # information values at the first forward step
        fv = {x[0]: x[2] for x in first}
        dominant = c_idx in fv and all(fv[c_idx] > w for j_, w in fv.items() if j_ != c_idx)
        fwd_c = [x for x in tF if x[0] == c_idx]
        bwd_c = [x for x in tB if x[0] == c_idx]
        # edge attributes: the cmi on the edge (variable a, lag l) -> v must be the value the estimator returned, in the emission
        # phase of target v, for THAT predictor column (not the value of another selected predictor)
        emit = {}
        for c in spy.cmi_calls:
            if c["target"] == v and c["phase"] == "emit":
                j = idx(c["X"])[0]
                if j >= 0:
                    emit[j] = float(c["value"])
        wrong = [(a, l, cv, emit[a * L + l - 1]) for a, l, cv in edges_v
                 if a * L + l - 1 in emit and not (cv == emit[a * L + l - 1] or (math.isnan(cv) and math.isnan(emit[a * L + l - 1])))]
        res["edge_value_mismatch"] = wrong[:3]
        res.update({"landscape_ok": ok, "init": init, "tf": tf, "tF": tF, "tB": tB, "order": order,
                    "planted_fwd_pass": bool(fwd_c) and all(x[2] for x in fwd_c),
                    "planted_bwd_pass": bool(bwd_c) and all(x[2] for x in bwd_c),
                    "planted_tested_fwd": bool(fwd_c), "planted_dominant_first_step": bool(dominant)})
    return res


def binom_cdf(k, m, p):
    return sum(math.comb(m, i) * p ** i * (1 - p) ** (m - i) for i in range(0, k + 1))


def tbl(entries, val):
    return coq_list([f"({j}%nat, {coq_list([str(z) + '%nat' for z in zs])}, {val(x)})" for j, zs, x in entries])


def run(chk):
    chk.theorems()
    lib.translator_lemma(
        chk, "selection_facts", translate.selection_facts,
        lambda r: translate.coq_selection_facts(r) +
        "\nLemma src_selection_is_modelled : src_facts = modelled_facts.\nProof. reflexivity. Qed.\n",
        "From Coq Require Import String List.\nImport ListNotations.\nOpen Scope string_scope.\n")
    lib.translator_lemma(chk, "discover_facts", translate.discover_facts, translate.coq_discover_facts, "")
    chk.trusted += ["Coq 8.16.1 kernel + vm_compute",
                    "Model/Selection.v, Model/Lagged.v, Model/Recovery.v tied by the correspondences of C01/C02 and, here, by re-running "
                    "the selection model inside Coq on the landscape recorded from each real discover_network run",
                    "spies at the module seam (harness/discover_spy.py); columns identified by content",
                    "MEASURED, not proved: that the planted candidate dominates and passes the tests is a statement about estimators on "
                    "random data; recovery frequency is decided by a one-sided exact binomial test with false-alarm probability < 1e-9"]
    chk.assumptions += ["planted systems as in the property: coupling 0.95, noise 0.3 (counts: rate 0.5 + 2 u(t-tau)), n 2..4, max_lag 1..3, "
                        f"T 100..180 (geometric-kNN: n = 2, T = 100); n_shuffles = {N_SHUFFLES}, default alphas"]
    quick = chk.tier == "quick"
    per = {"gaussian": 12, "knn": 12, "kde": 3, "poisson": 2, "geometric_knn": 1} if quick else \
          {"gaussian": 150, "knn": 150, "kde": 60, "poisson": 40, "geometric_knn": 40}
    ss = np.random.SeedSequence(chk.seed)
    tasks = []
    for info, m in per.items():
        for method in METHODS:
            for s in ss.spawn(m):
                tasks.append((info, method, int(s.generate_state(1)[0]), quick and info in ('poisson', 'kde', 'geometric_knn')))
        ss = np.random.SeedSequence(int(ss.generate_state(1)[0]) + 1)
    # pruning-stress stream (deterministic consequences only, not part of the measured frequencies): a permissive forward level
    # and a strict backward level make the forward pass accept spurious predictors that the backward pass then prunes
    for method in ("standard", "alternative"):
        for info in ("gaussian", "knn"):
            for s in ss.spawn(8 if quick else 150):
                tasks.append((info, method, int(s.generate_state(1)[0]), False, True))
            ss = np.random.SeedSequence(int(ss.generate_state(1)[0]) + 7)
    # corner stream: n = 4, max_lag = 3, T 100..105 (12 lagged predictors, < 10 rows per predictor) for every method; measured on the
    # unchanged code: 480 of 480 recovered (gaussian, knn x four methods), so the 98% bound applies to this corner as well
    n_corner = 20 if quick else 150
    for info in ("gaussian",) if quick else ("gaussian", "knn"):
        for method in METHODS:
            for s in ss.spawn(n_corner):
                tasks.append((info, method, int(s.generate_state(1)[0]), False, "corner"))
            ss = np.random.SeedSequence(int(ss.generate_state(1)[0]) + 11)
    # history stream: second analysis of a buffer refilled in place (tallied separately, same 98% bound)
    for method in METHODS:
        for s in ss.spawn(20 if quick else 150):
            tasks.append(("gaussian", method, int(s.generate_state(1)[0]), False, "history"))
        ss = np.random.SeedSequence(int(ss.generate_state(1)[0]) + 13)
    tasks.sort(key=lambda t: {"poisson": 0, "geometric_knn": 1, "kde": 2}.get(t[0], 3))     # slow ones first
    with mp.get_context("fork").Pool(14) as pool:
        results = pool.map(run_system, tasks, chunksize=1)
    cases, pf, desc = [], [], []
    tally = {}
    for r in results:
        key = r["info"] if not r["corner"] else f"{r['info']}.corner(n=4,max_lag=3,T<=105).{r['method']}"
        if r["history"]:
            key = f"{r['info']}.second_analysis_of_a_buffer_refilled_in_place.{r['method']}"
        if r["stress"]:
            chk.count("pruning_stress.systems")
            chk.count("pruning_stress.pruned_predictors", sum(1 for x in r.get("tB", []) if not x[2]))
        else:
            t = tally.setdefault(key, {"m": 0, "rec": 0, "top": 0, "misses": []})
            t["m"] += 1
            t["rec"] += r["recovered"]
            t["top"] += r["top"]
            if not r["recovered"] and len(t["misses"]) < 5:
                t["misses"].append({k: r[k] for k in ("method", "seed", "n", "L", "T", "u", "v", "tau", "edges_into_v")})
        chk.case(key=(r["info"], r["method"], r["seed"], r["stress"], r["corner"], r["history"]), nontrivial=True,
                 sample={k: r[k] for k in ("info", "method", "n", "L", "T", "u", "v", "tau", "edges_into_v", "recovered")}
                 if len(chk.samples) < 4 else None)
        if not r["stress"]:
            chk.count(f"{key}.{r['method']}.systems")
            chk.count(f"{key}.recovered", int(r["recovered"]))
        chk.count(f"placement.n{r['n']}.L{r['L']}.tau{r['tau']}")
        chk.count(f"presentation.{r['presentation']}")
        d = {k: r[k] for k in ("info", "method", "seed", "stress", "n", "L", "T", "u", "v", "tau", "edges_into_v", "recovered")}
        d["how"] = "planted_system(np.random.default_rng(seed), info, small) in harness/props/C05.py (small = quick tier and slow estimator), then discover_network(..., n_shuffles=50; stress: alpha_forward=0.4, alpha_backward=0.01)"
        if r["method"] in ("standard", "alternative"):
            if not r["landscape_ok"]:
                chk.count(f"landscape_unreadable_or_nan.{r['info']}")
                continue
            fail = None
            if r["planted_fwd_pass"] and r["planted_bwd_pass"] and not r["recovered"]:
                fail = (f"planted predictor X{r['u']}(t-{r['tau']}) passed its forward and its backward test for target X{r['v']} "
                        f"but the edge X{r['u']}->X{r['v']} lag {r['tau']} is not in the network (edges into X{r['v']}: {r['edges_into_v']})")
            elif r["method"] == "standard" and not r["planted_tested_fwd"]:
                fail = (f"standard forward pass never tested the planted predictor X{r['u']}(t-{r['tau']}) for target X{r['v']} "
                        f"(every candidate must be decided once)")
            elif r["method"] == "alternative" and r["planted_dominant_first_step"] and not r["planted_tested_fwd"]:
                fail = (f"planted predictor X{r['u']}(t-{r['tau']}) had strictly the largest information at the first step of the "
                        f"alternative forward pass for target X{r['v']} but was never tested")
            elif r.get("edge_value_mismatch"):
                a_, l_, cv_, ev_ = r["edge_value_mismatch"][0]
                fail = (f"edge X{a_}->X{r['v']} lag {l_} carries cmi {cv_} but the estimator returned {ev_} for that predictor in the "
                        f"edge-emission phase of target X{r['v']} (the value belongs to another selected predictor)")
            elif r["recovered"] and not (r["planted_fwd_pass"] and r["planted_bwd_pass"]):
                fail = (f"edge X{r['u']}->X{r['v']} lag {r['tau']} reported although the planted predictor did not pass both tests")
            cases.append(f"({coq_bool(r['method'] == 'standard')}, {r['n'] * r['L']}%nat, {r['L']}%nat, "
                         f"{coq_list([str(i) + '%nat' for i in r['init']])}, {tbl(r['tf'], lambda x: zlit(x) + '%Z')}, "
                         f"{tbl(r['tF'], coq_bool)}, {tbl(r['tB'], coq_bool)}, {coq_list([str(i) + '%nat' for i in r['order']])}, "
                         f"({r['u']}%nat, {r['tau']}%nat), {coq_list([f'({a}%nat, {b}%nat)' for a, b, _ in r['edges_into_v']])})")
            pf.append(fail)
            desc.append(d)
            chk.count("hypotheses_hold" if r["planted_fwd_pass"] and r["planted_bwd_pass"] else "hypotheses_fail")
    lib.correspond(chk, "selection_model_on_recorded_landscape_contains_planted_edge_iff_impl", IMPORTS, CASE_T,
                   "check_recovery_case", cases, pf, lambda i: desc[i], shard=40, jobs=8)
    # ---- measured: recovery frequency and top-cmi, exact one-sided binomial test
    for info, t in tally.items():
        p0 = P0[info.split(".")[0]]
        pv = binom_cdf(t["rec"], t["m"], p0)
        chk.stats[f"{info}.recovery"] = f"{t['rec']}/{t['m']} (P[Bin(m,{p0}) <= k] = {pv:.3g})"
        chk.oblige("measured", f"recovery frequency of the planted edge, {info} >= {p0}", pv >= 1e-9,
                   f"{t['rec']}/{t['m']}; binomial tail {pv:.3g} (alarm below 1e-9)")
        if pv < 1e-9:
            chk.violation("counterexample", f"{info}: planted edge (exact direction and lag) recovered in only {t['rec']} of {t['m']} planted "
                          f"systems; P[Bin({t['m']},{p0}) <= {t['rec']}] = {pv:.3g} < 1e-9",
                          {"estimator": info, "recovered": t["rec"], "systems": t["m"], "first_misses": t["misses"],
                           "how": "planted_system(np.random.default_rng(seed), info) in harness/props/C05.py"})
        if info in ("gaussian", "knn", "kde") or ".corner" in info or ".second_analysis" in info:
            pt = binom_cdf(t["top"], t["m"], p0)
            chk.stats[f"{info}.planted_edge_has_largest_cmi"] = f"{t['top']}/{t['m']} (tail {pt:.3g})"
            chk.oblige("measured", f"planted edge carries the largest cmi into v, {info}", pt >= 1e-9, f"{t['top']}/{t['m']}; tail {pt:.3g}")
            if pt < 1e-9 and pv >= 1e-9:
                chk.violation("counterexample", f"{info}: the planted edge carries the largest cmi into its target in only {t['top']} of "
                              f"{t['m']} systems (tail {pt:.3g} < 1e-9)", {"estimator": info, "top": t["top"], "systems": t["m"]})
    chk.rule = ("Planted systems generated by the property's recipe with random placement (n 2..4, max_lag 1..3, u != v, tau <= max_lag, "
                "T 100..180; geometric-kNN n=2, T=100; plus a corner stream n=4, max_lag=3, T 100..105 and a call-history stream (a buffer analysed, refilled in place with another planted system and analysed again), both tallied per method), five estimators x four methods, run through the real discover_network with a spy "
                "recording the information landscape and the test verdicts of the target's selection. (a) deterministic consequence of the "
                "theorems: the edge u->v with lag exactly tau is present iff the planted predictor passed its forward and backward tests, "
                "and the Coq selection model re-run on the recorded landscape agrees; (b) measured: recovery frequency against 98% (75% "
                "geometric) and top-cmi frequency by an exact one-sided binomial test at 1e-9. Distinct = distinct (estimator, method, seed).")
