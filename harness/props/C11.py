"""C11 -- kNN and KDE estimators compute their documented formulas."""
import math
import os
import sys
from fractions import Fraction

import numpy as np

import lib
import translate_est
from lib import qlit, zlist, zlit, coq_list, coq_bool

IMPORTS = ("From Coq Require Import List ZArith QArith Bool.\nImport ListNotations.\n"
           "From CE Require Import Model.Harness Model.KnnCounts Model.Kde.\nOpen Scope Z_scope.\n")
TOL = 1e-9
EULER = 0.5772156649015329
METRICS = {"euclidean": "Euclid", "cityblock": "City", "chebyshev": "Cheb"}


# ------------------------------------------------------------------ brute-force references (search oracle)
def psi_int(n):
    """digamma at a positive integer: H_{n-1} - gamma"""
    return -EULER + sum(1.0 / t for t in range(1, n))


def dist_exact(metric, p, q):
    """monotone image of the distance, exact for Python ints / Fractions"""
    d = [abs(a - b) for a, b in zip(p, q)]
    if not d:
        return 0
    if metric == "euclidean":
        return sum(x * x for x in d)
    if metric == "cityblock":
        return sum(d)
    return max(d)


def knn_reference(blocks, metric, k, cond):
    """blocks: list of (x, y, z) tuples of exact numbers.  Returns (value or None, counts)."""
    N = len(blocks)
    joint = [tuple(x) + tuple(y) + tuple(z) for x, y, z in blocks]
    counts, terms = [], []
    ok = True
    for i in range(N):
        others = sorted(dist_exact(metric, joint[i], joint[j]) for j in range(N) if j != i)
        eps = others[k - 1]                      # distance to the k-th nearest OTHER sample
        if eps <= 0:
            ok = False

        def inside(proj):
            return sum(1 for j in range(N) if j != i and dist_exact(metric, proj(blocks[i]), proj(blocks[j])) < eps)
        if cond:
            c = [inside(lambda s: tuple(s[0]) + tuple(s[2])), inside(lambda s: tuple(s[1]) + tuple(s[2])), inside(lambda s: tuple(s[2]))]
        else:
            c = [inside(lambda s: tuple(s[0])), inside(lambda s: tuple(s[1]))]
        if eps <= 0:
            c = [-1] * len(c)                     # what `sum(D < 0) - 1` gives
        counts.append(c)
    if not ok:
        return None, counts
    if cond:
        val = psi_int(k) - sum(psi_int(c[0] + 1) + psi_int(c[1] + 1) - psi_int(c[2] + 1) for c in counts) / N
    else:
        val = psi_int(k) + psi_int(N) - sum(psi_int(c[0] + 1) + psi_int(c[1] + 1) for c in counts) / N
    return val, counts


def knn_reference_int(Xi, Yi, Zi, metric, k, cond):
    """the same formula for INTEGER-valued samples of any size, in exact int64 arithmetic (squared distances for the Euclidean
    metric: the order of non-negative numbers and of their squares agree); value through scipy's digamma.  None if some radius is 0."""
    from scipy.special import digamma

    def D(*blocks):
        A = np.concatenate([np.asarray(b, dtype=np.int64) for b in blocks], axis=1)
        diff = np.abs(A[:, None, :] - A[None, :, :])
        return (diff * diff).sum(axis=2) if metric == "euclidean" else diff.sum(axis=2) if metric == "cityblock" else diff.max(axis=2)
    N = len(Xi)
    J = D(Xi, Yi, Zi) if cond else D(Xi, Yi)
    off = ~np.eye(N, dtype=bool)
    eps = np.array([np.sort(J[i][off[i]])[k - 1] for i in range(N)])
    if (eps <= 0).any():
        return None

    def cnt(M):
        return ((M < eps[:, None]) & off).sum(axis=1)
    if cond:
        t = digamma(cnt(D(Xi, Zi)) + 1) + digamma(cnt(D(Yi, Zi)) + 1) - digamma(cnt(D(Zi)) + 1)
        return float(digamma(k) - math.fsum(t) / N)
    t = digamma(cnt(D(Xi)) + 1) + digamma(cnt(D(Yi)) + 1)
    return float(digamma(k) + digamma(N) - math.fsum(t) / N)


def bandwidth_value(bw, N, d):
    if bw == "silverman":
        return (N * (d + 2) / 4.0) ** (-1.0 / (d + 4))
    if bw == "scott":
        return N ** (-1.0 / (d + 4))
    return float(bw)


def kde_entropy_reference(P, bw):
    P = np.asarray(P, dtype=float)
    N, d = P.shape
    h = bandwidth_value(bw, N, d)
    lognorm = math.log(N) + 0.5 * d * math.log(2 * math.pi) + d * math.log(h)
    tot = 0.0
    for i in range(N):
        es = [-sum((P[i, c] - P[j, c]) ** 2 for c in range(d)) / (2 * h * h) for j in range(N)]
        mx = max(es)
        tot += mx + math.log(sum(math.exp(e - mx) for e in es)) - lognorm
    return -tot / N


def kde_entropy_reference_np(P, bw):
    """the same definition for samples of any size: exact pairwise coordinate differences, row-wise log-sum-exp"""
    P = np.asarray(P, dtype=float)
    N, d = P.shape
    h = bandwidth_value(bw, N, d)
    lognorm = math.log(N) + 0.5 * d * math.log(2 * math.pi) + d * math.log(h)
    E = -((P[:, None, :] - P[None, :, :]) ** 2).sum(axis=2) / (2 * h * h)
    mx = E.max(axis=1)
    return float(-(np.mean(mx + np.log(np.exp(E - mx[:, None]).sum(axis=1))) - lognorm))


def kde_reference(which, X, Y, Z, bw):
    H = kde_entropy_reference
    if which == "entropy":
        return H(X, bw)
    if which == "mi":
        return H(X, bw) + H(Y, bw) - H(np.hstack((X, Y)), bw)
    return H(np.hstack((X, Z)), bw) + H(np.hstack((Y, Z)), bw) - H(np.hstack((X, Y, Z)), bw) - H(Z, bw)


def rows_term(Xi, Yi, Zi):
    N = Xi.shape[0]
    return coq_list([f"({zlist(Xi[i])}, {zlist(Yi[i])}, {zlist(Zi[i]) if Zi is not None else '[]'})" for i in range(N)])


def grid_sample(rng, N, kx, ky, kz, kind):
    """integer points and the scale S: the real sample is points / S (S a power of two, so exact in floats)"""
    if kind == "coarse":
        S, lo, hi = 1, -2, 3
    elif kind == "medium":
        S, lo, hi = 1, -25, 26
    else:
        s = int(rng.integers(8, 21))
        S, lo, hi = 2 ** s, -4 * 2 ** s, 4 * 2 ** s
    X = rng.integers(lo, hi, (N, kx))
    Y = rng.integers(lo, hi, (N, ky))
    Z = rng.integers(lo, hi, (N, kz)) if kz else None
    if kind == "fine" and rng.random() < 0.7:      # make the blocks dependent so that estimates are not all near 0
        Y = Y // 4 + X[:, :1] * int(rng.integers(-2, 3)) // 2
        if Z is not None:
            Z = Z // 4 + Y[:, :1] // 2
    if kind == "fine" and rng.random() < 0.3:      # variables of very different scales (still tie-free): one block is tiny
        sh = int(rng.integers(max(1, s - 6), s))
        which = int(rng.integers(0, 3 if Z is not None else 2))
        if which == 0:
            X = X >> sh
        elif which == 1:
            Y = Y >> sh
        else:
            Z = Z >> sh
    return X, Y, Z, S


def run(chk):
    from causationentropy.core.information.mutual_information import knn_mutual_information, kde_mutual_information
    from causationentropy.core.information.conditional_mutual_information import (
        knn_conditional_mutual_information, kde_conditional_mutual_information, conditional_mutual_information)
    from causationentropy.core.information.entropy import kde_entropy
    rng = np.random.default_rng(chk.seed)
    chk.theorems()
    lib.translator_lemma(chk, "estimator_source", translate_est.estimator_facts, translate_est.coq_estimator_facts, "")
    chk.trusted += ["Coq 8.16.1 kernel + vm_compute; Coq-Interval (BigZ floats, 80 bits) for the KDE enclosures",
                    "Model/KnnCounts.v, Model/Kde.v tied by correspondence (no translator for these anchors)",
                    "scipy cdist/digamma and scikit-learn KernelDensity are compared, not modelled: kNN values must agree with the exact "
                    "rational of the model to 1e-9 on grid data (distance comparisons are exact there), KDE values must lie within 1e-9 "
                    "of the verified enclosure of the real-valued model",
                    "harness/props/C11.py: scaling of dyadic samples to integers, brute-force O(N^2) references used as the property predicate"]
    chk.assumptions += ["1 <= k <= min(10, N-1); metrics euclidean/cityblock/chebyshev; Gaussian kernel",
                        "samples with a zero k-th neighbour distance (duplicate joint points) make the estimate undefined; "
                        "model and implementation must then both be non-finite"]
    quick = chk.tier == "quick"
    # ------------------------------------------------------------------ kNN on grid data (exact in Coq)
    kc, kp, kd = [], [], []
    cc, cp, cd_ = [], [], []
    for t in range(260 if quick else 12000):
        small = rng.random() < 0.3
        N = int(rng.integers(4, 9)) if small else int(rng.integers(6, 41))
        kx, ky = int(rng.integers(1, 4)), int(rng.integers(1, 4))
        cond = rng.random() < 0.6
        kz = int(rng.integers(1, 4)) if cond else 0
        kmax = min(10, N - 1)
        k = kmax if rng.random() < 0.2 else int(rng.integers(1, kmax + 1))
        metric = str(rng.choice(list(METRICS)))
        kind = str(rng.choice(["coarse", "medium", "fine", "fine"]))
        X, Y, Z, S = grid_sample(rng, N, kx, ky, kz, kind)
        Xf, Yf, Zf = X / S, Y / S, (Z / S if Z is not None else None)
        via = str(rng.choice(["direct", "direct", "znone", "dispatcher"]))
        with np.errstate(all="ignore"):
            if cond:
                if via == "dispatcher":
                    raw = knn_conditional_mutual_information(Xf, Yf, Zf, metric=metric, k=k)
                    disp = conditional_mutual_information(Xf, Yf, Zf, method="knn", metric=metric, k=k)
                else:
                    raw = knn_conditional_mutual_information(Xf, Yf, Zf, metric=metric, k=k)
                    disp = None
            else:
                if via == "znone":
                    raw = knn_conditional_mutual_information(Xf, Yf, None, metric=metric, k=k)
                else:
                    raw = knn_mutual_information(Xf, Yf, metric=metric, k=k)
                disp = conditional_mutual_information(Xf, Yf, None, method="knn", metric=metric, k=k) if via == "dispatcher" else None
        raw = float(raw)
        blocks = [(tuple(int(v) for v in X[i]), tuple(int(v) for v in Y[i]), tuple(int(v) for v in Z[i]) if Z is not None else ())
                  for i in range(N)]
        ref, counts = knn_reference(blocks, metric, k, cond)
        fail = None
        if ref is None:
            if math.isfinite(raw):
                chk.count("knn.undefined_but_finite")   # duplicates among the k nearest: outside the property, only compared with the model
        elif not math.isfinite(raw) or abs(raw - ref) > TOL:
            fail = (f"kNN {'conditional ' if cond else ''}information ({metric}, k={k}, N={N}, via {via}) returned {raw}; the documented "
                    f"formula (k-th nearest other sample, strict counts, digamma) gives {ref}")
        elif disp is not None and ref is not None and abs(float(disp) - max(0.0, ref)) > TOL:
            fail = f"dispatcher(method='knn') returned {float(disp)}; max(0, formula) = {max(0.0, ref)}"
        out = f"Some {qlit(raw)}" if math.isfinite(raw) else "None"
        rt = rows_term(X, Y, Z)
        kc.append(f"({METRICS[metric]}, {k}%nat, {coq_bool(cond)}, {rt}, {out}, {qlit(TOL)})")
        kp.append(fail)
        desc = {"estimator": "knn", "conditional": cond, "via": via, "metric": metric, "k": k, "N": N, "scale": S,
                "X_int": X.tolist(), "Y_int": Y.tolist(), "Z_int": Z.tolist() if Z is not None else None,
                "returned": raw, "formula": ref}
        kd.append(desc)
        cc.append(f"({METRICS[metric]}, {k}%nat, {coq_bool(cond)}, {rt}, {coq_list([zlist(c) for c in counts])})")
        cp.append(None)
        cd_.append(desc)
        chk.case(key=("knn", X.tobytes(), Y.tobytes(), None if Z is None else Z.tobytes(), metric, k),
                 nontrivial=ref is not None, sample=desc if N <= 5 and len(chk.samples) < 2 else None)
        chk.count(f"knn.{kind}")
        chk.count("knn.cond" if cond else "knn.uncond")
        chk.count(f"knn.{metric}")
        chk.count("knn.k_is_N-1" if k == N - 1 else "knn.k_lt_N-1")
        chk.count("knn.undefined(eps=0)" if ref is None else "knn.defined")
    lib.correspond(chk, "knn_value_vs_model", IMPORTS, "metric * nat * bool * list (list Z * list Z * list Z) * option Q * Q",
                   "check_knn_case", kc, kp, lambda i: kd[i], shard=40, jobs=12)
    lib.correspond(chk, "knn_counts_reference_vs_model", IMPORTS, "metric * nat * bool * list (list Z * list Z * list Z) * list (list Z)",
                   "check_counts_case", cc, cp, lambda i: cd_[i], shard=40, jobs=12)
    # ------------------------------------------------------------------ kNN on arbitrary tie-free floats (reference only)
    for t in range(120 if quick else 5000):
        N = int(rng.integers(5, 41))
        kx, ky = int(rng.integers(1, 4)), int(rng.integers(1, 4))
        cond = rng.random() < 0.6
        kz = int(rng.integers(1, 4)) if cond else 0
        k = int(rng.integers(1, min(10, N - 1) + 1))
        metric = str(rng.choice(list(METRICS)))
        M = rng.normal(size=(kx + ky + kz, kx + ky + kz)) * 10.0 ** rng.uniform(-2, 2)
        W = rng.normal(size=(N, kx + ky + kz)) @ M + rng.normal(size=(1, kx + ky + kz)) * 5
        if t % 7 == 3:                    # the sample sits far from the origin: offsets 1e4 .. 1e7 x its spread (distances are about differences)
            W = W + np.sign(rng.normal(size=(1, kx + ky + kz))) * np.abs(W).max() * 10.0 ** rng.uniform(4, 7, (1, kx + ky + kz))
            chk.count("knn_float.far_from_origin")
        if rng.random() < 0.4:            # columns of very different magnitude (1e-7 .. 1e3)
            W = rng.normal(size=(N, kx + ky + kz)) * 10.0 ** rng.uniform(-7, 3, (1, kx + ky + kz))
            chk.count("knn_float.mixed_scales")
        Xf, Yf, Zf = W[:, :kx], W[:, kx:kx + ky], (W[:, kx + ky:] if cond else None)
        if t % 5 == 0:
            # one block stored as int64 whole numbers (or float32), the others float64: the same points, other element types
            blk = int(rng.integers(0, 3 if cond else 2))
            cols = [kx, ky, kz][blk]
            if rng.random() < 0.7:
                stored = (rng.permutation(6 * N)[:N * cols].reshape(N, cols) - 3 * N).astype(np.int64)
            else:
                stored = [Xf, Yf, Zf][blk].astype(np.float32)
            Xf, Yf, Zf = [stored if j == blk else a for j, a in enumerate((Xf, Yf, Zf))]
            chk.count(f"knn_float.mixed_dtypes.block{blk}.{stored.dtype}")
        blocks = [(tuple(Fraction(float(v)) for v in Xf[i]), tuple(Fraction(float(v)) for v in Yf[i]),
                   tuple(Fraction(float(v)) for v in Zf[i]) if cond else ()) for i in range(N)]
        # undecided when two exact joint or marginal distances are closer than a few ulp: float comparison may differ
        ref, counts = knn_reference(blocks, metric, k, cond)
        raw = float(knn_conditional_mutual_information(Xf, Yf, Zf, metric=metric, k=k) if cond
                    else knn_mutual_information(Xf, Yf, metric=metric, k=k))
        chk.case(key=("knnf", W.tobytes(), metric, k), nontrivial=True)
        chk.count("knn_float.calls")
        if ref is None:
            continue
        if not math.isfinite(raw) or abs(raw - ref) > TOL:
            if near_tie(blocks, metric):
                chk.count("knn_float.undecided_near_tie")
                continue
            chk.violation("counterexample", f"kNN {'conditional ' if cond else ''}information ({metric}, k={k}, N={N}) returned {raw}; "
                          f"the documented formula evaluated exactly gives {ref}",
                          {"estimator": "knn", "conditional": cond, "metric": metric, "k": k, "X": Xf.tolist(), "Y": Yf.tolist(),
                           "Z": Zf.tolist() if cond else None, "returned": raw, "formula": ref})
    # ------------------------------------------------------------------ call histories on the SAME array objects, other dtypes, N > 1024
    for t in range(24 if quick else 800):
        N = int(rng.integers(8, 41)) if t % 6 else int(rng.choice([1025, 1500, 2049]))
        kx, ky, kz = int(rng.integers(1, 3)), int(rng.integers(1, 3)), int(rng.integers(1, 3))
        cond = bool(t % 2)
        est = "knn" if t % 3 else "kde"
        if N > 1024:
            est = "knn"
            cond = bool((t // 6) % 2)
        mk_ = lambda: (rng.integers(-2000, 2000, (N, kx + ky + kz)) / 64.0)
        W1, W2 = mk_(), mk_()
        X, Y, Z = W1[:, :kx].copy(), W1[:, kx:kx + ky].copy(), W1[:, kx + ky:].copy()
        k = int(rng.integers(1, 6))
        metric = str(rng.choice(list(METRICS)))
        bwv = float(rng.choice([0.5, 1.0, 2.0]))

        def call(Xa, Ya, Za):
            if est == "knn":
                return float(knn_conditional_mutual_information(Xa, Ya, Za, metric=metric, k=k) if cond
                             else knn_mutual_information(Xa, Ya, metric=metric, k=k))
            return float(kde_conditional_mutual_information(Xa, Ya, Za, bandwidth=bwv) if cond
                         else kde_mutual_information(Xa, Ya, bandwidth=bwv))

        def reference(Xa, Ya, Za):
            if est == "knn":
                blocks = [(tuple(Fraction(v) for v in Xa[i]), tuple(Fraction(v) for v in Ya[i]),
                           tuple(Fraction(v) for v in Za[i]) if cond else ()) for i in range(N)]
                return knn_reference(blocks, metric, k, cond)[0]
            return kde_reference("cmi" if cond else "mi", Xa, Ya, Za, bwv)
        v1 = call(X, Y, Z)
        which = str(rng.choice(["Y", "Z", "X", "YZ"]))
        if "Y" in which:
            Y[:] = W2[:, kx:kx + ky]
        if "Z" in which:
            Z[:] = W2[:, kx + ky:]
        if which == "X":
            X[:] = W2[:, :kx]
        v2 = call(X, Y, Z)
        # N > 1024 (block-wise implementations): the samples are integers / 64, so the formula is evaluated in exact integer arithmetic
        ref2 = reference(X, Y, Z) if N <= 40 else knn_reference_int(np.rint(X * 64), np.rint(Y * 64), np.rint(Z * 64), metric, k, cond)
        chk.case(key=("hist", est, W1.tobytes(), W2.tobytes(), which, cond), nontrivial=True)
        chk.count("history.calls")
        chk.count("history.N_gt_1024" if N > 1024 else "history.small_N")
        if ref2 is not None and math.isfinite(v2) and abs(v2 - ref2) > TOL * max(1.0, abs(ref2)):
            chk.violation("counterexample", f"{est} {'conditional ' if cond else ''}estimate after overwriting {which} in place (same array "
                          f"objects) is {v2}; the formula on the arrays' current contents gives {ref2} (first call returned {v1})",
                          {"estimator": est, "conditional": cond, "overwritten": which, "metric": metric, "k": k, "bandwidth": bwv,
                           "X": X.tolist(), "Y": Y.tolist(), "Z": Z.tolist(), "returned": v2, "formula": ref2})
        # the same numbers as float32 / integer-typed arrays / Fortran order / fresh copies must give the same estimate
        Xi, Yi, Zi = np.rint(X * 64), np.rint(Y * 64), np.rint(Z * 64)
        vf = call(Xi, Yi, Zi)
        for nm, conv in (("int64", lambda a: a.astype(np.int64)), ("fortran", np.asfortranarray), ("copy", np.array)):
            vv = call(conv(Xi), conv(Yi), conv(Zi))
            if not ((math.isnan(vf) and math.isnan(vv)) or vf == vv or abs(vf - vv) <= TOL * max(1.0, abs(vf))):
                chk.violation("counterexample", f"{est} estimate on integer-valued data is {vf} for float64 arrays but {vv} for the same "
                              f"numbers presented as {nm}", {"estimator": est, "conditional": cond, "presentation": nm, "metric": metric,
                                                             "k": k, "X": Xi.tolist(), "Y": Yi.tolist(), "Z": Zi.tolist()})
    # ------------------------------------------------------------------ KDE (verified enclosure in Coq)
    dc, dp, dd = [], [], []
    n_kde = 20 if quick else 400
    for t in range(n_kde):
        N = int(rng.integers(4, 15 if quick else 26))
        which = str(rng.choice(["entropy", "mi", "cmi", "cmi"]))
        kx, ky, kz = int(rng.integers(1, 3)), int(rng.integers(1, 3)), int(rng.integers(1, 4))
        s = int(rng.integers(6, 16))
        S = 2 ** s
        X = rng.integers(-3 * S, 3 * S, (N, kx))
        Y = rng.integers(-S, S, (N, ky)) + X[:, :1] * int(rng.integers(0, 2))
        Z = rng.integers(-2 * S, 2 * S, (N, kz))
        bw = [("silverman", "Silverman"), ("scott", "Scott")][int(rng.integers(0, 2))] if rng.random() < 0.55 else None
        if bw is None:
            num = int(rng.integers(2, 40))
            bw = (num / 16.0, f"(Num {num} 16)")
        Xf, Yf, Zf = X / S, Y / S, Z / S
        via = "direct"
        if which == "entropy":
            v = kde_entropy(Xf, bandwidth=bw[0])
            Zc = None
            Yc = np.zeros((N, 0), dtype=int)
        elif which == "mi":
            via = str(rng.choice(["direct", "znone"]))
            v = (kde_mutual_information(Xf, Yf, bandwidth=bw[0]) if via == "direct"
                 else kde_conditional_mutual_information(Xf, Yf, None, bandwidth=bw[0]))
            Zc, Yc = None, Y
        else:
            v = kde_conditional_mutual_information(Xf, Yf, Zf, bandwidth=bw[0])
            Zc, Yc = Z, Y
        v = float(v)
        ref = kde_reference(which, Xf, Yf, Zf, bw[0])
        fail = None
        if not math.isfinite(v) or abs(v - ref) > TOL * max(1.0, abs(ref)):
            fail = (f"KDE {which} (bandwidth={bw[0]}, N={N}) returned {v}; minus the mean log Gaussian-kernel density at the samples "
                    f"(signed sum for MI/CMI) is {ref}")
        fv = Fraction(v) if math.isfinite(v) else Fraction(10 ** 6)
        W = {"entropy": "WEntropy", "mi": "WMi", "cmi": "WCmi"}[which]
        dc.append(f"({W}, {bw[1]}, {S}, {rows_term(X, Yc, Zc)}, {zlit(fv.numerator)}, {zlit(fv.denominator)}, 1, 1000000000)")
        dp.append(fail)
        dd.append({"estimator": "kde", "which": which, "via": via, "bandwidth": bw[0], "N": N, "scale": S, "X_int": X.tolist(),
                   "Y_int": Yc.tolist(), "Z_int": Zc.tolist() if Zc is not None else None, "returned": v, "formula": ref})
        chk.case(key=("kde", which, X.tobytes(), Y.tobytes(), Z.tobytes(), bw[0]), nontrivial=True,
                 sample=dd[-1] if N <= 5 and len(chk.samples) < 4 else None)
        chk.count(f"kde.{which}")
        chk.count(f"kde.bw.{bw[0] if isinstance(bw[0], str) else 'number'}")
    lib.correspond(chk, "kde_value_in_verified_enclosure", IMPORTS, "which * bw * Z * list (list Z * list Z * list Z) * Z * Z * Z * Z",
                   "check_kde_case", dc, dp, lambda i: dd[i], shard=1, jobs=15, timeout=1500)
    # KDE on arbitrary floats, larger N (reference only)
    for t in range(40 if quick else 1500):
        N = int(rng.integers(5, 41))
        kx, ky, kz = int(rng.integers(1, 4)), int(rng.integers(1, 4)), int(rng.integers(1, 4))
        W_ = rng.normal(size=(N, kx + ky + kz)) @ rng.normal(size=(kx + ky + kz, kx + ky + kz)) + rng.normal(size=(1, kx + ky + kz))
        Xf, Yf, Zf = W_[:, :kx], W_[:, kx:kx + ky], W_[:, kx + ky:]
        Xa, Ya, Za = Xf, Yf, Zf
        if t % 4 == 0:
            # blocks stored with different element types: one block holds distinct whole numbers in an integer dtype (or
            # float32-representable numbers in float32), the others are float64 -- the sample is the same set of points
            blk = (t // 4) % 3
            cols = [kx, ky, kz][blk]
            if (t // 4) % 2 == 0:
                # small whole numbers (repeats are fine for a kernel estimate): neighbouring points lie within a bandwidth of each
                # other, so that every coordinate of the joint sample matters for the density
                vals = rng.integers(-4, 5, (N, cols)).astype(np.int64)
                stored = vals
            else:
                stored = [Xf, Yf, Zf][blk].astype(np.float32)
                vals = stored
            Xa, Ya, Za = [stored if j == blk else a for j, a in enumerate((Xf, Yf, Zf))]
            Xf, Yf, Zf = [vals.astype(np.float64) if j == blk else a for j, a in enumerate((Xf, Yf, Zf))]
            chk.count(f"kde_float.mixed_dtypes.block{blk}.{stored.dtype}")
        which = str(rng.choice(["entropy", "mi", "cmi", "cmi"]))
        if t % 4 == 0:
            which = ["mi", "cmi"][(t // 4) % 2] if blk != 2 else "cmi"
        # a short call history on the SAME data: every call must still be the formula for ITS bandwidth
        bws = [str(rng.choice(["silverman", "scott"])) if rng.random() < 0.5 else float(rng.uniform(0.1, 3.0))
               for _ in range(int(rng.integers(1, 4)))]
        hist = []
        for bw in bws:
            v = float(kde_entropy(Xa, bandwidth=bw) if which == "entropy" else
                      kde_mutual_information(Xa, Ya, bandwidth=bw) if which == "mi" else
                      kde_conditional_mutual_information(Xa, Ya, Za, bandwidth=bw))
            ref = kde_reference(which, Xf, Yf, Zf, bw)
            hist.append((bw, v))
            chk.case(key=("kdef", W_.tobytes(), str(bw), which, len(hist)), nontrivial=True)
            chk.count("kde_float.calls")
            if not math.isfinite(v) or abs(v - ref) > TOL * max(1.0, abs(ref)):
                chk.violation("counterexample", f"KDE {which} (bandwidth={bw}, N={N}) returned {v} as call {len(hist)} of the history "
                              f"{[b for b, _ in hist]} on the same data; the definition gives {ref}",
                              {"estimator": "kde", "which": which, "bandwidth_history": [b for b, _ in hist], "X": Xf.tolist(),
                               "Y": Yf.tolist(), "Z": Zf.tolist(), "returned": v, "formula": ref})
    # KDE on samples beyond any internal size threshold (tree approximations, blocks): every kernel must still be summed
    for t in range(2 if quick else 12):
        N = int(rng.choice([2001, 2048, 2500])) if t else 2001
        kx, ky = int(rng.integers(1, 3)), int(rng.integers(1, 3))
        W_ = rng.normal(size=(N, kx + ky)) @ rng.normal(size=(kx + ky, kx + ky))
        Xf, Yf = W_[:, :kx], W_[:, kx:]
        bw = [str(rng.choice(["silverman", "scott"])), float(rng.uniform(0.2, 1.0))][t % 2]
        which = ["entropy", "mi"][t % 2]
        v = float(kde_entropy(Xf, bandwidth=bw) if which == "entropy" else kde_mutual_information(Xf, Yf, bandwidth=bw))
        H = kde_entropy_reference_np
        ref = H(Xf, bw) if which == "entropy" else H(Xf, bw) + H(Yf, bw) - H(W_, bw)
        chk.case(key=("kde_large", W_.tobytes(), str(bw), which), nontrivial=True)
        chk.count("kde_float.N_gt_2000")
        if not math.isfinite(v) or abs(v - ref) > TOL * max(1.0, abs(ref)):
            chk.violation("counterexample", f"KDE {which} (bandwidth={bw}, N={N}) returned {v!r}; minus the mean log of the Gaussian-kernel density "
                          f"at the samples, every kernel summed, is {ref!r}",
                          {"estimator": "kde", "which": which, "bandwidth": bw, "N": N, "seed_note": "sample regenerated from the check's seed",
                           "returned": v, "formula": ref})
    chk.rule = ("kNN: N 4..40, block dimensions 1..3, Z present/absent, k in 1..min(10,N-1) with k = N-1 forced in a fifth of the cases, "
                "metrics euclidean/cityblock/chebyshev, integer grids of range 5 (tie-heavy, often undefined), 50, and dyadic grids 2^-8..2^-20 "
                "(tie-free in practice), through the two estimator functions, the Z=None path and the dispatcher; the implementation's value "
                "is compared inside Coq with the exact rational of the model (1e-9) and the model's counts with an explicit-loop reference; "
                "plus arbitrary affine-mixed Gaussian floats against the exact-arithmetic reference. KDE: N 4..14 (quick) / 25 (thorough), "
                "bandwidth silverman/scott/number, entropy / MI / CMI incl. the Z=None path: the returned value must lie within 1e-9 of the "
                "verified interval enclosure of the real-valued model inside Coq; plus arbitrary floats up to N=40 against a log-sum-exp "
                "double loop. Distinct = distinct data and settings; non-trivial = estimate defined.")


def near_tie(blocks, metric):
    """True when two exact distances from the same sample (in any projection) are within 1e-12 relative: float
    comparisons of such a pair may legitimately differ from exact arithmetic"""
    N = len(blocks)
    projs = [lambda s: s[0] + s[1] + s[2], lambda s: s[0] + s[2], lambda s: s[1] + s[2], lambda s: s[2], lambda s: s[0], lambda s: s[1]]
    for i in range(N):
        ds = []
        for pr in projs:
            ds += [float(dist_exact(metric, pr(blocks[i]), pr(blocks[j]))) for j in range(N) if j != i and pr(blocks[i])]
        ds.sort()
        for a, b in zip(ds, ds[1:]):
            if b - a <= 1e-12 * max(abs(b), 1e-300):
                return True
    return False
