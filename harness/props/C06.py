"""C06 -- discovered graph is well-formed; bad requests are rejected; input untouched."""
import contextlib
import math
from fractions import Fraction

import networkx as nx
import numpy as np
import pandas as pd

import lib
import translate
from discover_spy import Spy
from lib import qlit, coq_list, coq_str

IMPORTS = ("From Coq Require Import List ZArith QArith String Bool.\nImport ListNotations.\n"
           "From CE Require Import Model.Harness Model.Dispatch Model.Discover.\nOpen Scope string_scope.\n")
METHODS = ["standard", "alternative", "information_lasso", "lasso"]
INFOS = ["gaussian", "knn", "kde", "geometric_knn", "poisson"]


def coq_val(v):
    v = float(v)
    if math.isnan(v):
        return "NaN"
    if math.isinf(v):
        return "PInf" if v > 0 else "NInf"
    return f"(Fin {qlit(v)})"


def snapshot(data):
    if isinstance(data, pd.DataFrame):
        return ("df", data.copy(deep=True), list(data.columns), data.values.tobytes(), str(data.values.dtype), list(data.index))
    return ("nd", data.tobytes(), str(data.dtype), data.shape, data.strides, data.flags["C_CONTIGUOUS"], data.flags["WRITEABLE"])


def untouched(data, snap):
    if snap[0] == "df":
        return (data.equals(snap[1]) and list(data.columns) == snap[2] and data.values.tobytes() == snap[3]
                and str(data.values.dtype) == snap[4] and list(data.index) == snap[5])
    return (data.tobytes(), str(data.dtype), data.shape, data.strides, data.flags["C_CONTIGUOUS"], data.flags["WRITEABLE"]) == snap[1:]


def gen_data(rng, T, n, kind):
    if kind == "counts":
        X = rng.poisson(2.5, (T, n))
        for t in range(1, T):
            X[t, -1] = rng.poisson(0.5 + X[t - 1, 0])
        return X.astype(float if rng.random() < 0.5 else np.int64)
    if kind == "quantised":           # coarsely quantised measurements: some surrogates have coincident points
        X = rng.standard_normal((T, n)) * 2
        for t in range(1, T):
            X[t, -1] += 0.5 * X[t - 1, 0]
        return np.round(X, 0)
    if kind == "small_int":           # integer-valued, heavy ties
        return rng.integers(0, 4, (T, n)).astype(float if rng.random() < 0.5 else np.int64)
    X = rng.standard_normal((T, n))
    for t in range(1, T):
        X[t, -1] = 0.9 * X[t - 1, 0] + 0.3 * X[t, -1]
    if kind == "constant_col" and n >= 2:
        X[:, 0] = 1.5
    if kind == "dup_col" and n >= 2:
        X[:, 1] = X[:, 0]
    return X


def wf_fail(G, names, L, nsh):
    """the C06 statement on a returned graph -> (None or what failed, canonical (src, dst, lag, cmi, count) records)"""
    f2 = None
    recs = []
    if not isinstance(G, nx.MultiDiGraph):
        f2 = f"returned {type(G).__name__}, not a multi-edge directed graph"
    elif list(G.nodes()) != list(names):
        f2 = f"nodes {list(G.nodes())} are not the input variables in input order {names}"
    else:
        for u, v, d in G.edges(data=True):
            lag, cmi, p = d.get("lag"), d.get("cmi"), d.get("p_value")
            if u not in names or v not in names:
                f2 = f"edge endpoint {(u, v)} is not an input variable"
            elif isinstance(lag, (bool, np.bool_)) or not isinstance(lag, (int, np.integer)):
                f2 = f"lag {lag!r} of type {type(lag).__name__} is not an integer"
            elif not (1 <= lag <= L):
                f2 = f"lag {lag} outside 1..{L}"
            elif not isinstance(cmi, (float, int, np.floating, np.integer)) or (np.isfinite(cmi) and cmi < 0):
                f2 = f"cmi {cmi!r} is not a real number that is never finite negative"
            elif p is None or not (0 <= p <= 1) or abs(p * nsh - round(p * nsh)) > 1e-9:
                f2 = f"p_value {p!r} is not a multiple of 1/{nsh} in [0,1]"
            if f2:
                break
            recs.append((names.index(u), names.index(v), int(lag), float(cmi), int(round(p * nsh))))
        if f2 is None and len({r[:3] for r in recs}) != len(recs):
            f2 = "a (source, target, lag) triple occurs twice"
    return f2, recs


# ----------------------------------------------------------------------------- whole-graph correspondence
PIPE_IMPORTS = ("From Coq Require Import List ZArith QArith Bool.\nImport ListNotations.\n"
                "From CE Require Import Model.Harness Model.Dispatch Model.Discover Model.Pipeline.\nOpen Scope nat_scope.\n")
DYADIC = [0.5, 0.25, 0.125, 0.375, 0.0625, 0.1875]
OTHER = [0.05, 0.1, 0.2, 0.3]


def edges_lit(recs):
    return coq_list([f"({a}, {b}, {l}, {coq_val(c)}, ({k2})%Z)" for a, b, l, c, k2 in recs])


def pipeline_stream(chk, disc):
    """The REAL discover_network against the end-to-end Coq model (Model/Pipeline.v): same scripted oracle on both
    sides, whole edge list with attributes compared inside the kernel."""
    import pipe_seam as ps
    import importlib
    cmi_mod = importlib.import_module("causationentropy.core.information.conditional_mutual_information")
    rng = np.random.default_rng([chk.seed, 606])
    import time
    t_start = time.time()
    cases, pf, desc = [], [], []
    lcases, lpf, ldesc = [], [], []
    n_runs = 96 if chk.tier == "quick" else 2400
    t = 0
    while t < n_runs:
        kind = ["graded", "graded", "ties", "graded", "lasso", "graded", "ties", "graded"][t % 8]
        method = ["standard", "alternative"][(t // 8 + t) % 2] if kind != "lasso" else ["lasso", "information_lasso"][(t // 8) % 2]
        n, L = int(rng.integers(2, 5)), int(rng.integers(1, 4))
        T = int(rng.integers(30, 61))
        nsh = int(rng.integers(20, 61)) if rng.random() < 0.85 else int(rng.integers(2, 12))
        if t % 16 == 5:                     # beyond any internal batch size / early-stopping floor; kept small otherwise
            nsh, n, L = int(rng.choice([101, 120, 150])), min(n, 3), min(L, 2)
        pool = DYADIC if rng.random() < 0.7 else OTHER
        a_f, a_b = float(rng.choice(pool)), float(rng.choice(pool))
        if rng.random() < 0.15:
            a_f = a_b = 0.05 if pool is OTHER else 0.25
        salt = int(rng.integers(2**31))
        series = rng.standard_normal((T, n))
        if kind == "lasso":                 # planted couplings so that the solver's support is not empty
            for tt in range(L, T):
                series[tt, n - 1] += 0.9 * series[tt - 1, 0] + (0.6 * series[tt - L, 1] if n > 2 else 0.0)
        use_df = rng.random() < 0.3
        names = [f"s{3 * j + 1}" for j in range(n)] if use_df else [f"X{j}" for j in range(n)]
        data = pd.DataFrame(series, columns=names) if use_df else series
        mode = "ties" if kind == "ties" else "graded"
        floor_seam = kind == "ties" or rng.random() < 0.25
        try:
            with lib.quiet():
                G, scr, orders, supports = ps.run_real(disc, cmi_mod, data, series, method, L, nsh, a_f, a_b, salt, mode, floor_seam)
        except Exception as e:              # the real function raised under the scripted estimator: a correspondence failure, not a crash
            t += 1
            cases.append("{| pc_std := true; pc_ordered := true; pc_seam_ok := false; pc_n := 0; pc_L := 1; pc_scale := 1%positive; pc_aF := 1%Z; "
                         "pc_bF := 2%Z; pc_aB := 1%Z; pc_bB := 2%Z; pc_nsh := 0%Z; pc_cmi := []; pc_sur := []; pc_orders := []; pc_edges := [] |}")
            pf.append(None)
            desc.append({"stream": "pipeline", "kind": kind, "method": method, "n": n, "max_lag": L, "T": T, "n_shuffles": nsh, "salt": salt,
                         "raised": f"{type(e).__name__}: {e}"[:300], "data_seed_note": f"seed={chk.seed} pipeline run={t - 1}"})
            chk.count("pipeline.raised")
            chk.case(key=("pipe-raised", t), nontrivial=False)
            continue
        if not scr.ok:                      # two lagged columns with equal content: regenerate (never seen for continuous data)
            chk.count("pipeline.regenerated_ambiguous_columns")
            continue
        if ps.float_boundary(scr, [a_f, a_b] if kind != "lasso" else []):
            chk.count("pipeline.rerun_float_boundary_at_non_dyadic_level")     # see pipe_seam.float_boundary; fresh draws, so this ends
            continue
        t += 1
        f2, recs_sorted = wf_fail(G, names, L, nsh)
        ins = getattr(G, "_ins", [])
        ordered = f2 is None and len(ins) == G.number_of_edges() and all(
            "lag" in d and "cmi" in d and "p_value" in d and u in names and v in names for u, v, d in ins)
        if ordered:
            recs = [(names.index(u), names.index(v), int(d["lag"]), float(d["cmi"]), int(round(d["p_value"] * nsh))) for u, v, d in ins]
        else:
            recs = recs_sorted
        fa, fb = ps.frac(a_f), ps.frac(a_b)
        chk.count("pipeline.insertion_order_observed" if ordered else "pipeline.insertion_order_not_observed")
        tc, ts = ps.tables(scr)
        seam_ok = not scr.bad and f2 is None and all(np.isfinite(r[3]) for r in recs)
        meta = {"stream": "pipeline", "kind": kind, "method": method, "n": n, "max_lag": L, "T": T, "n_shuffles": nsh,
                "alpha_forward": a_f, "alpha_backward": a_b, "salt": salt, "mode": mode, "seam": "below_dispatcher" if floor_seam else "discovery",
                "dataframe": use_df, "edges_in_insertion_order": ordered, "edges": [list(r) for r in recs],
                "backward_orders": orders, "unrecognised_calls": scr.bad[:3], "data_seed_note": f"seed={chk.seed} pipeline run={t - 1}"}
        if not np.all(np.isfinite([r[3] for r in recs])):
            recs = [(a, b, l, 0.0, k) for a, b, l, c, k in recs]
        if kind == "lasso":
            sup = supports if len(supports) == n else [[] for _ in range(n)]
            meta["support"] = supports
            lcases.append("{| lc_ordered := %s; lc_seam_ok := %s; lc_n := %d; lc_L := %d; lc_scale := %d%%positive; lc_aB := %d%%Z; "
                          "lc_bB := %d%%Z; lc_nsh := %d%%Z; lc_cmi := %s; lc_sur := %s; lc_support := %s; lc_edges := %s |}" % (
                              lib.coq_bool(ordered), lib.coq_bool(seam_ok and len(supports) == n), n, L, ps.SCALE, fb.numerator, fb.denominator, nsh,
                              tc, ts, coq_list([coq_list([str(x) for x in S]) for S in sup]), edges_lit(recs)))
            lpf.append(f2)
            ldesc.append(meta)
            chk.count("pipeline.lasso.runs")
            chk.count("pipeline.lasso.edges", len(recs))
            chk.case(key=("pipe-lasso", lcases[-1]), nontrivial=len(recs) > 0)
            continue
        per_t = {}
        for tg, o in orders:
            per_t.setdefault(tg, []).append(o)
        ords = [per_t.get(i, [[]])[0] for i in range(n)]
        if any(len(v) != 1 for v in per_t.values()) or len(per_t) != n:
            seam_ok = False                 # backward()'s visiting order was not observed exactly once per target
            meta["orders_note"] = "visiting order not observed exactly once per target"
        cases.append("{| pc_std := %s; pc_ordered := %s; pc_seam_ok := %s; pc_n := %d; pc_L := %d; pc_scale := %d%%positive; "
                     "pc_aF := %d%%Z; pc_bF := %d%%Z; pc_aB := %d%%Z; pc_bB := %d%%Z; pc_nsh := %d%%Z; pc_cmi := %s; pc_sur := %s; "
                     "pc_orders := %s; pc_edges := %s |}" % (
                         lib.coq_bool(method == "standard"), lib.coq_bool(ordered), lib.coq_bool(seam_ok), n, L, ps.SCALE,
                         fa.numerator, fa.denominator, fb.numerator, fb.denominator, nsh, tc, ts,
                         coq_list([coq_list([str(x) for x in o]) for o in ords]), edges_lit(recs)))
        pf.append(f2)
        desc.append(meta)
        # ---- what happened inside (distribution of the scripted landscape)
        pre = f"pipeline.{kind}."
        chk.count(pre + "runs")
        chk.count(f"pipeline.method.{method}")
        chk.count("pipeline.level." + ("dyadic" if pool is DYADIC else "non_dyadic"))
        chk.count("pipeline.seam." + ("below_dispatcher" if floor_seam else "discovery"))
        acc = sum(len(o) for o in ords)
        chk.count(pre + "forward_accepted", acc)
        chk.count(pre + "pruned_in_backward", acc - len(recs))
        chk.count(pre + "edges", len(recs))
        chk.count(pre + "edges_with_cmi_0", sum(1 for r in recs if r[3] == 0))
        chk.count(pre + "edges_with_p_1", sum(1 for r in recs if r[4] == nsh))
        chk.count(pre + "edges_with_p_0", sum(1 for r in recs if r[4] == 0))
        chk.count(pre + "graphs_empty" if not recs else pre + "graphs_with_edges")
        chk.count(pre + "graphs_with_a_pruned_candidate", int(acc > len(recs)))
        ps.stats_of(scr, chk, pre)
        ntests = sum(1 for k_, _, _ in scr.log if k_ == "sur") // max(1, nsh)
        chk.count(pre + "forward_rejected", ntests - 2 * acc - len(recs))
        chk.case(key=("pipe", cases[-1]), nontrivial=len(recs) > 0 or acc > 0,
                 sample=meta if len(recs) in (1, 2) and acc > len(recs) and n * L <= 4 else None)
    chk.stats["pipeline.python_wall_s"] = round(time.time() - t_start, 1)
    lib.correspond(chk, "whole_graph_vs_pipeline_model", PIPE_IMPORTS, "pcase", "check_pipeline_case", cases, pf,
                   lambda i: desc[i], shard=10 if chk.tier == "quick" else 60, jobs=12)
    lib.correspond(chk, "whole_graph_vs_pipeline_model_lasso", PIPE_IMPORTS, "lcase", "check_lasso_case", lcases, lpf,
                   lambda i: ldesc[i], shard=8 if chk.tier == "quick" else 60, jobs=4)


def run(chk):
    import causationentropy.core.discovery as disc
    rng = np.random.default_rng(chk.seed)
    chk.theorems()
    lib.translator_lemma(chk, "guard_facts", translate.guard_facts, translate.coq_guard_facts, "")
    chk.trusted += ["Coq 8.16.1 kernel + vm_compute", "harness/translate.py (validation guards, fail-closed)",
                    "harness/props/C06.py: canonicalisation of the returned networkx graph into (src, dst, lag, cmi, count) records",
                    "real estimators and scikit-learn LASSO selectors are exercised, not modelled (oracles in the theorem)"]
    chk.assumptions += ["2-D numeric input; for neighbour-based estimators T - max_lag >= k + 2"]
    wf_cases, wf_pf, wf_desc = [], [], []
    va_cases, va_pf, va_desc = [], [], []
    n_calls = 150 if chk.tier == "quick" else 3500
    for t in range(n_calls):
        method, info = METHODS[t % 4], INFOS[(t // 4) % 5]
        L = int(rng.integers(1, 4))
        n = int(rng.integers(1, 5))
        k = int(rng.integers(1, 5))
        slow = info in ("kde", "geometric_knn")
        r = rng.random()
        if r < 0.12:
            T = int(rng.integers(max(1, L), L + 3))                     # error side: T <= L + 2
        else:
            T = int(rng.integers(L + k + 3, (22 if slow else 45)))
        kind = str(rng.choice(["counts", "small_int", "continuous", "constant_col", "dup_col", "quantised"],
                              p=[0.2, 0.1, 0.35, 0.1, 0.1, 0.15]))
        scripted = t % 3 == 2            # estimator replaced by an oracle that also returns non-finite values
        if info == "poisson" and kind == "continuous":
            kind = "counts"
        if slow:
            n = min(n, 2)
        bad = rng.random()
        m_req, i_req = method, info
        if bad < 0.06:
            m_req = str(rng.choice(["Standard", "ocse", "", "lasso ", "pcmci"]))
        elif bad < 0.12:
            i_req = str(rng.choice(["Gaussian", "kernel_density", "mutual", "", "geometric"]))
        X = gen_data(rng, T, n, kind)
        order = "C"
        if rng.random() < 0.15:
            X = np.asfortranarray(X)
            order = "F"
        use_df = rng.random() < 0.35
        names = [f"s{3 * j + 1}" for j in range(n)] if use_df and rng.random() < 0.7 else (list(range(10, 10 + n)) if use_df else [f"X{j}" for j in range(n)])
        data = pd.DataFrame(X, columns=names) if use_df else X
        nsh = int(rng.integers(2, 41)) if not slow else int(rng.integers(2, 7))
        if not slow and info == "gaussian" and rng.random() < 0.35:
            nsh = int(rng.choice([101, 120, 150, 199]))          # beyond any internal batch size / early-stopping floor
        snap = snapshot(data)
        outcome, G, err = "Ok", None, None
        oracle = np.random.default_rng(int(rng.integers(2**31)))

        def est(kc, rec, oracle=oracle):
            r = oracle.random()
            return float("inf") if r < 0.12 else float("nan") if r < 0.2 else -float("inf") if r < 0.23 else \
                0.0 if r < 0.4 else float(oracle.integers(0, 6)) / 4
        try:
            with lib.quiet(), (Spy(disc, estimator=est) if scripted else contextlib.nullcontext()):
                G = disc.discover_network(data, method=m_req, information=i_req, max_lag=L, n_shuffles=nsh, k_means=k,
                                          alpha_forward=float(rng.choice([0.05, 0.2, 0.5])), alpha_backward=float(rng.choice([0.05, 0.2, 0.5])))
        except NotImplementedError:
            outcome = "NotImplemented"
        except ValueError as e:
            outcome, err = "ValueErr", str(e)
        except Exception as e:          # any other exception class
            outcome, err = "Other:" + type(e).__name__, str(e)
        meta = {"method": m_req, "information": i_req, "T": T, "n": n, "max_lag": L, "k_means": k, "n_shuffles": nsh,
                "data_kind": kind, "scripted_estimator_with_nonfinite_values": scripted, "dtype": str(X.dtype), "order": order, "dataframe": use_df, "names": [str(x) for x in names],
                "data": X.tolist() if T * n <= 60 else None, "data_seed_note": f"seed={chk.seed} call={t}"}
        exp = "NotImplemented" if m_req not in METHODS or i_req not in INFOS else ("ValueErr" if T <= L + 2 else "Ok")
        fail = None
        if not untouched(data, snap):
            fail = "the caller's data object was modified"
        elif outcome != exp and not (exp == "Ok" and outcome == "ValueErr" and kind in ("constant_col", "dup_col", "small_int")
                                     and "max_lag" not in (err or "")):
            # degenerate data may legitimately make scikit-learn / the estimator raise; the length guard message is excluded
            fail = f"request outcome {outcome} ({err}) but the property requires {exp}"
        va_pf.append(fail)
        va_cases.append(f"({coq_str(m_req)}, {coq_str(i_req)}, {T}%nat, {L}%nat, "
                        f"{outcome if outcome in ('Ok', 'NotImplemented', 'ValueErr') and not (outcome == 'ValueErr' and exp == 'Ok') else exp})")
        va_desc.append(meta)
        chk.count("outcome." + outcome.split(":")[0])
        chk.count("estimator.scripted_nonfinite" if scripted else "estimator.real")
        chk.count(f"pair.{method}.{info}")
        if G is None:
            chk.case(key=("err", m_req, i_req, T, L), nontrivial=True)
            continue
        # ---- well-formedness of the returned graph
        f2, recs = wf_fail(G, names, L, nsh)
        wf_pf.append(f2)
        wf_cases.append(f"({n}%nat, {L}%nat, {nsh}%Z, " + coq_list(
            [f"({a}%nat, {b}%nat, {l}%nat, {coq_val(c)}, {k2}%Z)" for a, b, l, c, k2 in recs]) + ")" if f2 is None else
            f"({n}%nat, {L}%nat, {nsh}%Z, [(0%nat, 0%nat, 0%nat, NaN, 0%Z)])")
        wf_desc.append(dict(meta, edges=[[str(u), str(v), {k3: (float(x) if isinstance(x, (float, np.floating)) else int(x)) for k3, x in d.items()}]
                                         for u, v, d in G.edges(data=True)]))
        chk.case(key=(t, m_req, i_req, T, n, L, tuple(recs)), nontrivial=G.number_of_edges() > 0,
                 sample=wf_desc[-1] if T * n <= 40 and G.number_of_edges() > 0 else None)
        chk.count("edges", G.number_of_edges())
        chk.count("graphs_with_edges" if G.number_of_edges() else "graphs_empty")
    lib.correspond(chk, "validation_vs_model", IMPORTS, "string * string * nat * nat * outcome", "check_validate_case",
                   va_cases, va_pf, lambda i: va_desc[i], shard=600, jobs=4)
    lib.correspond(chk, "returned_graph_wf_in_kernel", IMPORTS, "nat * nat * Z * list (nat * nat * nat * val * Z)", "check_wf_case",
                   wf_cases, wf_pf, lambda i: wf_desc[i], shard=600, jobs=4)
    pipeline_stream(chk, disc)
    chk.trusted += ["harness/pipe_seam.py: scripted estimator keyed by the abstract (variable, lag) identity of the columns it is handed "
                    "(content matching against explicitly rebuilt lagged columns; surrogates by sorted content), recording numpy "
                    "Generator / MultiDiGraph subclasses for backward()'s visiting order and the edge insertion order"]
    chk.assumptions += ["pipeline stream: estimator values finite, on the 1/16 grid; the scripted estimator is a function of the "
                        "conditioning SET; runs at a non-dyadic level in which an observed value equals the exact interpolated "
                        "threshold between distinct order statistics are re-drawn (float rounding of 100*(1-alpha) decides there)"]
    chk.rule = ("discover_network called with real estimators over all 4x5 method/estimator pairs, ndarray / DataFrame (string and int "
                "labels), C and Fortran order, float and int dtype, counts / tie-heavy small integers / continuous / constant column / "
                "duplicated column, n 1..4, max_lag 1..3, T on both sides of max_lag+2, n_shuffles 2..40 and 101..199, malformed method/estimator "
                "names. The returned graph is canonicalised to records and checked by the Coq wf_graph inside the kernel and by the "
                "Python predicate; the outcome enum is compared with the Coq validate; the input object is compared bit-for-bit. "
                "Non-trivial = graph has at least one edge (or an error outcome). "
                "Pipeline stream: the real discover_network (standard / alternative / lasso / information_lasso, n 2..4, max_lag 1..3, "
                "T 30..60, n_shuffles 2..60, dyadic and non-dyadic alpha_forward / alpha_backward, ndarray / DataFrame) with the "
                "estimator replaced (at the discovery seam or below the real dispatcher) by a scripted function of the abstract "
                "(target, X label, Z label set, surrogate index); graded landscapes and tie/floor landscapes (raw values -2..2). The same "
                "oracle is handed to Coq as finite tables; discover_model is evaluated by vm_compute, must read only recorded entries, "
                "and must return the implementation's edge list with cmi and p-value numerators in insertion order.")
