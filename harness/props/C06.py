"""C06 -- discovered graph is well-formed; bad requests are rejected; input untouched."""
import contextlib
import math
from fractions import Fraction

import networkx as nx
import numpy as np
import pandas as pd

import lib
import translate
from discover_spy import Spy
from lib import qlit, coq_list, coq_str

IMPORTS = ("From Coq Require Import List ZArith QArith String Bool.\nImport ListNotations.\n"
           "From CE Require Import Model.Harness Model.Dispatch Model.Discover.\nOpen Scope string_scope.\n")
METHODS = ["standard", "alternative", "information_lasso", "lasso"]
INFOS = ["gaussian", "knn", "kde", "geometric_knn", "poisson"]


def coq_val(v):
    v = float(v)
    if math.isnan(v):
        return "NaN"
    if math.isinf(v):
        return "PInf" if v > 0 else "NInf"
    return f"(Fin {qlit(v)})"


def snapshot(data):
    if isinstance(data, pd.DataFrame):
        return ("df", data.copy(deep=True), list(data.columns), data.values.tobytes(), str(data.values.dtype), list(data.index))
    return ("nd", data.tobytes(), str(data.dtype), data.shape, data.strides, data.flags["C_CONTIGUOUS"], data.flags["WRITEABLE"])


def untouched(data, snap):
    if snap[0] == "df":
        return (data.equals(snap[1]) and list(data.columns) == snap[2] and data.values.tobytes() == snap[3]
                and str(data.values.dtype) == snap[4] and list(data.index) == snap[5])
    return (data.tobytes(), str(data.dtype), data.shape, data.strides, data.flags["C_CONTIGUOUS"], data.flags["WRITEABLE"]) == snap[1:]


def gen_data(rng, T, n, kind):
    if kind == "counts":
        X = rng.poisson(2.5, (T, n))
        for t in range(1, T):
            X[t, -1] = rng.poisson(0.5 + X[t - 1, 0])
        return X.astype(float if rng.random() < 0.5 else np.int64)
    if kind == "quantised":           # coarsely quantised measurements: some surrogates have coincident points
        X = rng.standard_normal((T, n)) * 2
        for t in range(1, T):
            X[t, -1] += 0.5 * X[t - 1, 0]
        return np.round(X, 0)
    if kind == "small_int":           # integer-valued, heavy ties
        return rng.integers(0, 4, (T, n)).astype(float if rng.random() < 0.5 else np.int64)
    X = rng.standard_normal((T, n))
    for t in range(1, T):
        X[t, -1] = 0.9 * X[t - 1, 0] + 0.3 * X[t, -1]
    if kind == "constant_col" and n >= 2:
        X[:, 0] = 1.5
    if kind == "dup_col" and n >= 2:
        X[:, 1] = X[:, 0]
    return X


def run(chk):
    import causationentropy.core.discovery as disc
    rng = np.random.default_rng(chk.seed)
    chk.theorems()
    lib.translator_lemma(chk, "guard_facts", translate.guard_facts, translate.coq_guard_facts, "")
    chk.trusted += ["Coq 8.16.1 kernel + vm_compute", "harness/translate.py (validation guards, fail-closed)",
                    "harness/props/C06.py: canonicalisation of the returned networkx graph into (src, dst, lag, cmi, count) records",
                    "real estimators and scikit-learn LASSO selectors are exercised, not modelled (oracles in the theorem)"]
    chk.assumptions += ["2-D numeric input; for neighbour-based estimators T - max_lag >= k + 2"]
    wf_cases, wf_pf, wf_desc = [], [], []
    va_cases, va_pf, va_desc = [], [], []
    n_calls = 150 if chk.tier == "quick" else 3500
    for t in range(n_calls):
        method, info = METHODS[t % 4], INFOS[(t // 4) % 5]
        L = int(rng.integers(1, 4))
        n = int(rng.integers(1, 5))
        k = int(rng.integers(1, 5))
        slow = info in ("kde", "geometric_knn")
        r = rng.random()
        if r < 0.12:
            T = int(rng.integers(max(1, L), L + 3))                     # error side: T <= L + 2
        else:
            T = int(rng.integers(L + k + 3, (22 if slow else 45)))
        kind = str(rng.choice(["counts", "small_int", "continuous", "constant_col", "dup_col", "quantised"],
                              p=[0.2, 0.1, 0.35, 0.1, 0.1, 0.15]))
        scripted = t % 3 == 2            # estimator replaced by an oracle that also returns non-finite values
        if info == "poisson" and kind == "continuous":
            kind = "counts"
        if slow:
            n = min(n, 2)
        bad = rng.random()
        m_req, i_req = method, info
        if bad < 0.06:
            m_req = str(rng.choice(["Standard", "ocse", "", "lasso ", "pcmci"]))
        elif bad < 0.12:
            i_req = str(rng.choice(["Gaussian", "kernel_density", "mutual", "", "geometric"]))
        X = gen_data(rng, T, n, kind)
        order = "C"
        if rng.random() < 0.15:
            X = np.asfortranarray(X)
            order = "F"
        use_df = rng.random() < 0.35
        names = [f"s{3 * j + 1}" for j in range(n)] if use_df and rng.random() < 0.7 else (list(range(10, 10 + n)) if use_df else [f"X{j}" for j in range(n)])
        data = pd.DataFrame(X, columns=names) if use_df else X
        nsh = int(rng.integers(2, 41)) if not slow else int(rng.integers(2, 7))
        if not slow and info == "gaussian" and rng.random() < 0.35:
            nsh = int(rng.choice([101, 120, 150, 199]))          # beyond any internal batch size / early-stopping floor
        snap = snapshot(data)
        outcome, G, err = "Ok", None, None
        oracle = np.random.default_rng(int(rng.integers(2**31)))

        def est(kc, rec, oracle=oracle):
            r = oracle.random()
            return float("inf") if r < 0.12 else float("nan") if r < 0.2 else -float("inf") if r < 0.23 else \
                0.0 if r < 0.4 else float(oracle.integers(0, 6)) / 4
        try:
            with lib.quiet(), (Spy(disc, estimator=est) if scripted else contextlib.nullcontext()):
                G = disc.discover_network(data, method=m_req, information=i_req, max_lag=L, n_shuffles=nsh, k_means=k,
                                          alpha_forward=float(rng.choice([0.05, 0.2, 0.5])), alpha_backward=float(rng.choice([0.05, 0.2, 0.5])))
        except NotImplementedError:
            outcome = "NotImplemented"
        except ValueError as e:
            outcome, err = "ValueErr", str(e)
        except Exception as e:          # any other exception class
            outcome, err = "Other:" + type(e).__name__, str(e)
        meta = {"method": m_req, "information": i_req, "T": T, "n": n, "max_lag": L, "k_means": k, "n_shuffles": nsh,
                "data_kind": kind, "scripted_estimator_with_nonfinite_values": scripted, "dtype": str(X.dtype), "order": order, "dataframe": use_df, "names": [str(x) for x in names],
                "data": X.tolist() if T * n <= 60 else None, "data_seed_note": f"seed={chk.seed} call={t}"}
        exp = "NotImplemented" if m_req not in METHODS or i_req not in INFOS else ("ValueErr" if T <= L + 2 else "Ok")
        fail = None
        if not untouched(data, snap):
            fail = "the caller's data object was modified"
        elif outcome != exp and not (exp == "Ok" and outcome == "ValueErr" and kind in ("constant_col", "dup_col", "small_int")
                                     and "max_lag" not in (err or "")):
            # degenerate data may legitimately make scikit-learn / the estimator raise; the length guard message is excluded
            fail = f"request outcome {outcome} ({err}) but the property requires {exp}"
        va_pf.append(fail)
        va_cases.append(f"({coq_str(m_req)}, {coq_str(i_req)}, {T}%nat, {L}%nat, "
                        f"{outcome if outcome in ('Ok', 'NotImplemented', 'ValueErr') and not (outcome == 'ValueErr' and exp == 'Ok') else exp})")
        va_desc.append(meta)
        chk.count("outcome." + outcome.split(":")[0])
        chk.count("estimator.scripted_nonfinite" if scripted else "estimator.real")
        chk.count(f"pair.{method}.{info}")
        if G is None:
            chk.case(key=("err", m_req, i_req, T, L), nontrivial=True)
            continue
        # ---- well-formedness of the returned graph
        f2 = None
        recs = []
        if not isinstance(G, nx.MultiDiGraph):
            f2 = f"returned {type(G).__name__}, not a multi-edge directed graph"
        elif list(G.nodes()) != list(names):
            f2 = f"nodes {list(G.nodes())} are not the input variables in input order {names}"
        else:
            for u, v, d in G.edges(data=True):
                lag, cmi, p = d.get("lag"), d.get("cmi"), d.get("p_value")
                if u not in names or v not in names:
                    f2 = f"edge endpoint {(u, v)} is not an input variable"
                elif isinstance(lag, (bool, np.bool_)) or not isinstance(lag, (int, np.integer)):
                    f2 = f"lag {lag!r} of type {type(lag).__name__} is not an integer"
                elif not (1 <= lag <= L):
                    f2 = f"lag {lag} outside 1..{L}"
                elif not isinstance(cmi, (float, int, np.floating, np.integer)) or (np.isfinite(cmi) and cmi < 0):
                    f2 = f"cmi {cmi!r} is not a real number that is never finite negative"
                elif p is None or not (0 <= p <= 1) or abs(p * nsh - round(p * nsh)) > 1e-9:
                    f2 = f"p_value {p!r} is not a multiple of 1/{nsh} in [0,1]"
                if f2:
                    break
                recs.append((names.index(u), names.index(v), int(lag), float(cmi), int(round(p * nsh))))
            if f2 is None and len({r[:3] for r in recs}) != len(recs):
                f2 = "a (source, target, lag) triple occurs twice"
        wf_pf.append(f2)
        wf_cases.append(f"({n}%nat, {L}%nat, {nsh}%Z, " + coq_list(
            [f"({a}%nat, {b}%nat, {l}%nat, {coq_val(c)}, {k2}%Z)" for a, b, l, c, k2 in recs]) + ")" if f2 is None else
            f"({n}%nat, {L}%nat, {nsh}%Z, [(0%nat, 0%nat, 0%nat, NaN, 0%Z)])")
        wf_desc.append(dict(meta, edges=[[str(u), str(v), {k3: (float(x) if isinstance(x, (float, np.floating)) else int(x)) for k3, x in d.items()}]
                                         for u, v, d in G.edges(data=True)]))
        chk.case(key=(t, m_req, i_req, T, n, L, tuple(recs)), nontrivial=G.number_of_edges() > 0,
                 sample=wf_desc[-1] if T * n <= 40 and G.number_of_edges() > 0 else None)
        chk.count("edges", G.number_of_edges())
        chk.count("graphs_with_edges" if G.number_of_edges() else "graphs_empty")
    lib.correspond(chk, "validation_vs_model", IMPORTS, "string * string * nat * nat * outcome", "check_validate_case",
                   va_cases, va_pf, lambda i: va_desc[i], shard=600, jobs=4)
    lib.correspond(chk, "returned_graph_wf_in_kernel", IMPORTS, "nat * nat * Z * list (nat * nat * nat * val * Z)", "check_wf_case",
                   wf_cases, wf_pf, lambda i: wf_desc[i], shard=600, jobs=4)
    chk.rule = ("discover_network called with real estimators over all 4x5 method/estimator pairs, ndarray / DataFrame (string and int "
                "labels), C and Fortran order, float and int dtype, counts / tie-heavy small integers / continuous / constant column / "
                "duplicated column, n 1..4, max_lag 1..3, T on both sides of max_lag+2, n_shuffles 2..40 and 101..199, malformed method/estimator "
                "names. The returned graph is canonicalised to records and checked by the Coq wf_graph inside the kernel and by the "
                "Python predicate; the outcome enum is compared with the Coq validate; the input object is compared bit-for-bit. "
                "Non-trivial = graph has at least one edge (or an error outcome).")
