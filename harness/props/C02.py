"""C02 -- edge selection follows the oCSE forward/backward rule on every landscape."""
import itertools

import numpy as np

import lib
import translate
from lib import zlit, coq_list, coq_bool

IMPORTS = ("From Coq Require Import List ZArith Bool.\nImport ListNotations.\n"
           "From CE Require Import Model.Harness Model.Selection Model.Lagged.\n")
CASE_T = ("bool * nat * list nat * list (nat * list nat * Z) * list (nat * list nat * bool) "
          "* list (nat * list nat * bool) * list nat * list nat")
A1, A2 = 0.01, 0.02     # distinguishable forward / backward levels


# ----------------------------------------------------------------------------- scripts (choice-sequence DFS)
class Script:
    def __init__(self, prefix=(), rng=None):
        self.prefix, self.pos, self.trace, self.rng = list(prefix), 0, [], rng

    def choose(self, nopts):
        if self.rng is not None:
            c = int(self.rng.integers(nopts))
        else:
            c = self.prefix[self.pos] if self.pos < len(self.prefix) else 0
        self.trace.append((c, nopts))
        self.pos += 1
        return c


def next_prefix(trace):
    t = list(trace)
    while t and t[-1][0] + 1 >= t[-1][1]:
        t.pop()
    if not t:
        return None
    return [c for c, _ in t[:-1]] + [t[-1][0] + 1]


def weak_orders(m):
    """all weak orders of m items as rank tuples (rank 0 = smallest)"""
    out = set()
    for ranks in itertools.product(range(m), repeat=m):
        used = sorted(set(ranks))
        if used == list(range(len(used))):
            out.add(ranks)
    return sorted(out)


WO = {m: weak_orders(m) for m in range(1, 5)}


class Landscape:
    """Total oracle: tables + defaults (f = 0, verdict = False); fresh queries are decided by the script."""

    def __init__(self, ncand, script, branch_f=True, vals=None):
        self.n, self.script, self.branch_f, self.vals = ncand, script, branch_f, vals
        self.f, self.g = {}, {}
        self.in_backward = False

    def fval(self, j, zs):
        key = (j, zs)
        if key not in self.f:
            if self.vals is not None:            # sampled: independent small-range value (ties frequent)
                self.f[key] = int(self.script.rng.integers(self.vals))
            elif self.in_backward:               # value irrelevant to selection: no branching
                self.f[key] = 0
            else:                                # exhaustive: choose a weak order of all undecided candidates outside zs at once
                rest = [c for c in range(self.n) if (c not in zs or c == j) and (c, zs) not in self.f]
                m = len(rest)
                ranks = WO[m][self.script.choose(len(WO[m]))] if m <= 4 else [0] * m
                for c, r in zip(rest, ranks):
                    self.f[(c, zs)] = r
        return self.f[key]

    def gval(self, j, zs, alpha):
        key = (j, zs, alpha)
        if key not in self.g:
            self.g[key] = bool(self.script.choose(2))
        return self.g[key]

    # lazy functions used by the reference and the enumerator: a fresh entry is decided by the script
    # (exhaustive: every option is explored; sampled: drawn from the PRNG) and recorded in the tables
    def F(self, j, zs):
        return self.fval(j, frozenset(zs))

    def G(self, j, zs, alpha):
        return self.gval(j, frozenset(zs), alpha)

    def clone(self, script):
        c = Landscape(self.n, script, vals=self.vals)
        c.f, c.g = dict(self.f), dict(self.g)
        return c

    def tables(self):
        tf = [f"({j}, {coq_list([str(z) for z in sorted(zs)])}, ({v})%Z)" for (j, zs), v in self.f.items()]
        tF = [f"({j}, {coq_list([str(z) for z in sorted(zs)])}, {coq_bool(v)})" for (j, zs, a), v in self.g.items() if a == A1]
        tB = [f"({j}, {coq_list([str(z) for z in sorted(zs)])}, {coq_bool(v)})" for (j, zs, a), v in self.g.items() if a == A2]
        return coq_list(tf), coq_list(tF), coq_list(tB)


class StubRng:
    """Forces / records the visiting order of backward()."""

    def __init__(self, script, real=None, forced=None):
        self.script, self.real, self.orders, self.forced = script, real, [], forced

    def permutation(self, x):
        xs = list(x) if not isinstance(x, (int, np.integer)) else list(range(int(x)))
        if self.forced is not None and sorted(self.forced) == sorted(xs):
            o = list(self.forced)
        elif self.real is not None:
            o = [int(v) for v in self.real.permutation(x)]
        else:
            perms = list(itertools.permutations(xs))
            o = [int(v) for v in perms[self.script.choose(len(perms))]] if len(perms) > 1 else xs
        self.orders.append(o)
        return np.array(o, dtype=int)

    # other ways of drawing a visiting order from a generator: the same forced / scripted order, delivered in that API's form
    def shuffle(self, x, axis=0):
        o = self.permutation(list(x))
        for i, v in enumerate(o):
            x[i] = type(x[i])(v) if not isinstance(x, np.ndarray) else v

    def permuted(self, x, axis=None, out=None):
        return self.permutation(list(np.asarray(x).ravel()))

    def __getattr__(self, name):            # anything else: a real generator (its draws cannot be forced, only used)
        if name.startswith("__"):
            raise AttributeError(name)
        if self.real is None:
            self.real = np.random.default_rng(0)
        return getattr(self.real, name)


# ----------------------------------------------------------------------------- reference: everything the rule allows
def allowed_results(ls, std, ncand, init):
    fw = set()

    def fwd(cands, S):
        if not cands:
            fw.add(S)
            return
        zs = tuple(init) + S
        vals = {j: ls.F(j, zs) for j in cands}
        mx = max(vals.values())
        for j in [c for c in cands if vals[c] == mx]:
            rest = tuple(c for c in cands if c != j)
            if ls.G(j, zs, A1):
                fwd(rest, S + (j,))
            elif std:
                fwd(rest, S)
            else:
                fw.add(S)
    fwd(tuple(range(ncand)), ())
    res = set()
    for F in fw:
        seen = set()

        def bw(todo, S):
            if (todo, S) in seen:
                return
            seen.add((todo, S))
            if not todo:
                res.add(S)
                return
            for j in todo:
                Zc = tuple(k for k in S if k != j)
                bw(todo - {j}, S if ls.G(j, Zc, A2) else Zc)
        bw(frozenset(F), F)
    return res


def reference(ls, std, ncand, init, order):
    """Mirror of the Coq model (first maximum, given visiting order); fresh entries extend the script."""
    cands, S = list(range(ncand)), []
    while cands:
        zs = tuple(init) + tuple(S)
        vals = [ls.F(j, zs) for j in cands]
        j = cands[vals.index(max(vals))]
        if ls.G(j, zs, A1):
            S.append(j)
        elif not std:
            break
        cands.remove(j)
    for j in order:
        Zc = [k for k in S if k != j]
        if not ls.G(j, Zc, A2):
            S = Zc
    return S


def violating_completion(ls, std, ncand, init, R, budget=1500, samples=40):
    """impl result R differs from the deterministic reference: search the completions of the entries
    the implementation never queried for one on which R is NOT a result the rule allows."""
    as_set = lambda a: tuple(sorted(a))
    if ls.vals is not None:
        for t in range(samples):
            c = ls.clone(ls.script)
            if as_set(R) not in {as_set(a) for a in allowed_results(c, std, ncand, init)}:
                return c
        return None
    prefix, n = [], 0
    while prefix is not None and n < budget:
        sc = Script(prefix)
        c = ls.clone(sc)
        if as_set(R) not in {as_set(a) for a in allowed_results(c, std, ncand, init)}:
            return c
        prefix = next_prefix(sc.trace)
        n += 1
    return None


def judge(ls, std, ncand, init, order, R, st):
    """-> (failure text or None, landscape to report)"""
    if getattr(ls, "bad", None):
        return ls.bad, ls
    ref = reference(ls, std, ncand, init, order)
    if sorted(ref) == sorted(R) and len(set(R)) == len(R):
        return None, ls
    st["mismatch"] = st.get("mismatch", 0) + 1
    if st["mismatch"] > 60:
        return None, ls
    c = violating_completion(ls, std, ncand, init, R)
    if c is None:
        return None, ls
    return (f"reported parents {R} are not among the results the oCSE rule allows "
            f"{sorted(set(tuple(sorted(a)) for a in allowed_results(c, std, ncand, init)))} on this landscape"), c


# ----------------------------------------------------------------------------- running the implementation
def run_driver(disc, std, ncand, ninit, script, vals=None, T=4, preset=None, forced=None):
    ls = Landscape(ncand, script, vals=vals)
    if preset is not None:
        ls.f, ls.g = dict(preset[0]), dict(preset[1])
    X = np.tile(np.arange(ncand, dtype=float), (T, 1))
    Y = np.full((T, 1), 999.0)
    Zi = np.tile(np.arange(ncand, ncand + ninit, dtype=float), (T, 1)) if std else None
    init = list(range(ncand, ncand + ninit)) if std else []
    stub = StubRng(script, forced=forced)

    def cmi(Xj, Yv, Z=None, **kw):
        assert Yv[0, 0] == 999.0
        return float(ls.fval(int(Xj[0, 0]), frozenset(int(v) for v in Z[0, :]) if Z is not None else frozenset()))

    def test(Xj, Yv, Z, obs, alpha=0.05, **kw):
        zs = frozenset(int(v) for v in Z[0, :]) if Z is not None else frozenset()
        j = int(Xj[0, 0])
        if float(obs) != float(ls.fval(j, zs)):
            ls.bad = f"the test for candidate {j} received {obs}, which is not the estimator's value {ls.fval(j, zs)}"
        return {"Threshold": 0.0, "Value": obs, "Pass": ls.gval(j, zs, alpha), "P_value": 0.0}
    orig_b = disc.backward

    def bwrap(*a, **k):
        ls.in_backward = True
        try:
            return orig_b(*a, **k)
        finally:
            ls.in_backward = False
    saved = (disc.conditional_mutual_information, disc.shuffle_test, disc.backward)
    disc.conditional_mutual_information, disc.shuffle_test, disc.backward = cmi, test, bwrap
    try:
        if std:
            R = disc.standard_optimal_causation_entropy(X, Y, Zi, stub, A1, A2, 7, "gaussian", "euclidean", 3, "silverman")
        else:
            R = disc.alternative_optimal_causation_entropy(X, Y, stub, A1, A2, 7, "gaussian", "euclidean", 3, "silverman")
    finally:
        disc.conditional_mutual_information, disc.shuffle_test, disc.backward = saved
    order = stub.orders[0] if stub.orders else []
    return ls, init, order, [int(r) for r in R]


def run_discover(disc, std, n, L, script, vals):
    """Through discover_network: columns are recognised from unique cell values series[t,j] = t*n+j."""
    T = L + 4
    series = np.arange(T * n, dtype=float).reshape(T, n)
    out = []
    lss = {}

    def dec(col):          # first element of series[L-tau:, j] is (L-tau)*n + j
        v = int(col)
        t0, j = divmod(v, n)
        return j * L + (L - t0) - 1

    cur = {"i": None}

    def target_of(Yv):
        return int(Yv[0, 0]) - L * n

    def get_ls(i):
        if i not in lss:
            lss[i] = Landscape(n * L, script, vals=vals)
        return lss[i]

    def cmi(Xj, Yv, Z=None, **kw):
        ls = get_ls(target_of(Yv))
        return float(ls.fval(dec(Xj[0, 0]), frozenset(dec(v) for v in Z[0, :]) if Z is not None else frozenset()))

    def test(Xj, Yv, Z, obs, alpha=0.05, **kw):
        ls = get_ls(target_of(Yv))
        zs = frozenset(dec(v) for v in Z[0, :]) if Z is not None else frozenset()
        return {"Threshold": 0.0, "Value": obs, "Pass": ls.gval(dec(Xj[0, 0]), zs, alpha), "P_value": 0.5}
    orders = {}
    orig_b = disc.backward

    def bwrap(Xf, Yv, S_init, rng, *a, **k):
        i = target_of(Yv)
        ls = get_ls(i)
        stub = StubRng(script, real=rng)
        ls.in_backward = True
        try:
            r = orig_b(Xf, Yv, S_init, stub, *a, **k)
        finally:
            ls.in_backward = False
        orders[i] = stub.orders[0] if stub.orders else []
        return r
    saved = (disc.conditional_mutual_information, disc.shuffle_test, disc.backward)
    disc.conditional_mutual_information, disc.shuffle_test, disc.backward = cmi, test, bwrap
    try:
        with lib.quiet():
            G = disc.discover_network(series, method="standard" if std else "alternative", information="gaussian",
                                      max_lag=L, alpha_forward=A1, alpha_backward=A2, n_shuffles=5)
    finally:
        disc.conditional_mutual_information, disc.shuffle_test, disc.backward = saved
    for i in range(n):
        ls = get_ls(i)
        # G.edges iterates by source node, not in emission order: compare as a sorted multiset
        edges = sorted((int(u[1:]), int(d["lag"])) for u, v, d in G.edges(data=True) if v == f"X{i}")
        init = [i * L + t for t in range(L)] if std else []
        out.append((ls, init, orders.get(i, []), edges))
    return out


def coq_case(std, ncand, init, ls, order, R):
    tf, tF, tB = ls.tables()
    return (f"({coq_bool(std)}, {ncand}, {coq_list([str(x) for x in init])}, {tf}, {tF}, {tB}, "
            f"{coq_list([str(x) for x in order])}, {coq_list([str(x) for x in R])})")


def describe(std, ncand, init, ls, order, R):
    return {"variant": "standard" if std else "alternative", "candidates": ncand, "init": init,
            "f": [[j, sorted(zs), v] for (j, zs), v in ls.f.items()],
            "g": [[j, sorted(zs), a, v] for (j, zs, a), v in ls.g.items()],
            "alpha_forward": A1, "alpha_backward": A2, "backward_order": order, "impl_result": R}


def run(chk):
    import causationentropy.core.discovery as disc
    rng = np.random.default_rng(chk.seed)
    chk.theorems()
    lib.translator_lemma(
        chk, "selection_facts", translate.selection_facts,
        lambda r: translate.coq_selection_facts(r) +
        "\nLemma src_selection_is_modelled : src_facts = modelled_facts.\nProof. reflexivity. Qed.\n",
        "From Coq Require Import String List.\nImport ListNotations.\nOpen Scope string_scope.\n")
    chk.trusted += ["Coq 8.16.1 kernel + vm_compute", "harness/props/C02.py: scripted oracles at the module seam, "
                    "column recognition by constant/unique cell codes, stub generator forcing the backward order",
                    "harness/translate.py (selection anchors, fail-closed)"]
    chk.assumptions += ["information values are finite and totally ordered (NaN landscapes are outside the property)",
                        "landscapes are functions of (candidate, conditioning SET); unqueried entries default to 0 / fail"]
    cases, pf, desc, st = [], [], [], {}
    # ---- exhaustive decision trees, <= 3 candidates, both variants, every backward order
    n_exh = 0
    for std in (True, False):
        for ncand in (1, 2, 3):
            prefix = []
            while prefix is not None:
                sc = Script(prefix)
                ls, init, order, R = run_driver(disc, std, ncand, 1, sc)
                fail, lsr = judge(ls, std, ncand, init, order, R, st)
                pf.append(fail)
                cases.append(coq_case(std, ncand, init, ls, order, R))
                desc.append(describe(std, ncand, init, lsr, order, R))
                chk.case(key=cases[-1], nontrivial=len(ls.g) > 0, sample=desc[-1] if n_exh % 4001 == 7 else None)
                chk.count(f"exhaustive.{'std' if std else 'alt'}.{ncand}")
                chk.count(f"result_size.{len(R)}")
                n_exh += 1
                prefix = next_prefix(sc.trace)
    chk.extra["exhaustive_decision_tree_executions"] = n_exh
    # ---- sampled landscapes with 4..8 candidates (tie-rich value ranges), drivers
    n_s = 400 if chk.tier == "quick" else 40000
    for t in range(n_s):
        std = bool(t % 2)
        ncand = int(rng.integers(4, 9))
        sc = Script(rng=rng)
        ls, init, order, R = run_driver(disc, std, ncand, int(rng.integers(1, 3)), sc, vals=int(rng.choice([2, 3, 6, 50])))
        fail, lsr = judge(ls, std, ncand, init, order, R, st) if ncand <= 6 else (None, ls)
        pf.append(fail)
        cases.append(coq_case(std, ncand, init, ls, order, R))
        desc.append(describe(std, ncand, init, lsr, order, R))
        chk.case(key=cases[-1], nontrivial=len(ls.g) > 0)
        chk.count("sampled.driver")
        chk.count(f"result_size.{len(R)}")
    lib.correspond(chk, "ocse_model_vs_impl", IMPORTS, CASE_T, "check_case", cases, pf, lambda i: desc[i],
                   shard=700, jobs=14)
    # ---- through discover_network: one edge per survivor, labelled (variable, lag)
    dcases, dpf, ddesc = [], [], []
    n_d = 60 if chk.tier == "quick" else 3000
    for t in range(n_d):
        std = bool(t % 2)
        n, L = int(rng.integers(1, 4)), int(rng.integers(1, 3))
        sc = Script(rng=rng)
        for i, (ls, init, order, edges) in enumerate(run_discover(disc, std, n, L, sc, int(rng.choice([2, 4, 30])))):
            idx = [j * L + tau - 1 for j, tau in edges]
            fail, lsr = judge(ls, std, n * L, init, order, idx, st)
            if len(set(edges)) != len(edges):
                fail = f"an edge label occurs twice among the parents of X{i}: {edges}"
            elif any(not (0 <= j < n and 1 <= tau <= L) for j, tau in edges):
                fail = f"edge label out of range: {edges}"
            dpf.append(fail)
            tf, tF, tB = ls.tables()
            dcases.append(f"({coq_bool(std)}, {n * L}, {L}, {coq_list([str(x) for x in init])}, {tf}, {tF}, {tB}, "
                          f"{coq_list([str(x) for x in order])}, {coq_list([f'({j}, {tau})' for j, tau in edges])})")
            d = describe(std, n * L, init, lsr, order, idx)
            d.update({"through": "discover_network", "n": n, "max_lag": L, "target": i, "edges": edges})
            ddesc.append(d)
            chk.case(key=dcases[-1], nontrivial=len(ls.g) > 0, sample=d if t < 2 and i == 0 else None)
            chk.count("sampled.discover_network")
    lib.correspond(chk, "discover_edges_vs_model", IMPORTS,
                   "bool * nat * nat * list nat * list (nat * list nat * Z) * list (nat * list nat * bool) "
                   "* list (nat * list nat * bool) * list nat * list (nat * nat)",
                   "check_discover_case", dcases, dpf, lambda i: ddesc[i], shard=400, jobs=8)
    chk.rule = ("Exhaustive: for 1..3 candidates, both variants, the scripted oracle answers every fresh query with every possible "
                "answer (every weak order of the remaining candidates at a new conditioning set, both verdicts, every backward "
                "visiting order) depth-first through the real *_optimal_causation_entropy drivers. Sampled: 4..8 candidates with "
                "tie-rich value ranges; and through discover_network (n<=3, max_lag<=2, both variants) with columns recognised from "
                "unique cell values. Distinct = distinct (landscape tables, order, result); non-trivial = at least one test verdict queried.")
    chk.exhaustive = False
    chk.extra["exhaustive_part"] = "all decision trees for <= 3 candidates per target (both variants, all backward orders)"


def replay(chk, rep):
    """Re-runs the real driver on the recorded landscape (entries it does not contain default to 0 / fail)
    with the recorded visiting order and judges the result against everything the rule allows."""
    import causationentropy.core.discovery as disc
    r = rep["replay"].get("first_disagreeing_case", rep["replay"])
    std, ncand = r["variant"] == "standard", r["candidates"]
    f = {(j, frozenset(zs)): v for j, zs, v in r["f"]}
    g = {(j, frozenset(zs), a): v for j, zs, a, v in r["g"]}
    init = r["init"]
    if r.get("through") == "discover_network" or any(i < ncand for i in init):
        print("replay: landscape recorded through discover_network; re-judging the recorded result")
        R = r["impl_result"]
        ls = Landscape(ncand, Script())
        ls.f, ls.g = f, g
    else:
        ls, init, order, R = run_driver(disc, std, ncand, len(init), Script(), preset=(f, g), forced=r["backward_order"])
    allowed = {tuple(sorted(a)) for a in allowed_results(ls, std, ncand, init)}
    print("replay: allowed by the rule:", sorted(allowed), " implementation reports:", R)
    if tuple(sorted(R)) not in allowed:
        chk.violation("counterexample", f"parents {R} not allowed by the oCSE rule", r)
    chk.case(key="replay", sample=r)
    chk.case(key="replay2")
