"""C14 -- PCMCI <-> graph conversion preserves every link, its direction and its numbers."""
import itertools

import networkx as nx
import numpy as np

import lib
from lib import qlit, coq_list, coq_bool

IMPORTS = ("From Coq Require Import List ZArith QArith Bool.\nImport ListNotations.\n"
           "From CE Require Import Model.Harness Model.GraphConv.\n")
MARKS = {"": "Empty", "-->": "Fwd", "<--": "Bwd", "o-o": "OO", "x-x": "XX", "-?>": "Poss"}
KIND = {"directed": "Directed", "undirected": "Undirected", "conflicting": "Conflicting", "possible_directed": "PossibleDirected"}
LAG0_OK = {("", ""), ("-->", "<--"), ("<--", "-->"), ("-->", ""), ("", "-->"), ("<--", ""), ("", "<--"), ("-->", "-->"),
           ("o-o", "o-o"), ("x-x", "x-x"), ("-?>", ""), ("", "-?>"), ("-?>", "-?>"), ("-?>", "-->"), ("-->", "-?>")}
TG_T = "nat * nat * list (nat * nat * nat * mark * Q * Q) * bool * Q * option (list (nat * nat * nat * Q * Q * kind * option bool))"
TP_T = "nat * list (nat * nat * nat * Q * Q * kind * option bool) * list (nat * nat * nat * mark * Q * Q) * nat"


def consistent_pattern(rng, N, T1):
    g = np.full((N, N, T1), "", dtype="<U3")
    for l in range(T1):
        for i in range(N):
            for j in range(i, N):
                if l == 0:
                    if i == j:
                        continue
                    a, b = sorted(LAG0_OK)[int(rng.integers(len(LAG0_OK)))] if rng.random() < 0.75 else ("", "")
                    g[i, j, 0], g[j, i, 0] = a, b
                else:
                    r = rng.random()
                    if i != j and r < 0.15:
                        g[i, j, l] = g[j, i, l] = str(rng.choice(["o-o", "x-x"]))
                    else:
                        if rng.random() < 0.4:
                            g[i, j, l] = str(rng.choice(["-->", "-?>"]))
                        if i != j and rng.random() < 0.4:
                            g[j, i, l] = str(rng.choice(["-->", "-?>"]))
    return g


def is_consistent(g):
    N, _, T1 = g.shape
    for i in range(N):
        for j in range(N):
            for l in range(T1):
                m = g[i, j, l]
                if m not in MARKS:
                    return False
                if l == 0:
                    if i == j and m != "":
                        return False
                    if i != j and (m, g[j, i, 0]) not in LAG0_OK:
                        return False
                elif m == "<--":
                    return False
                if m in ("o-o", "x-x") and (i == j or g[j, i, l] != m):
                    return False
    return True


def numbers(rng, g, symmetric_equal=True):
    N, _, T1 = g.shape
    val = (rng.integers(-64, 65, g.shape) / 64.0)
    p = (rng.integers(0, 65, g.shape) / 64.0)
    if symmetric_equal:
        for i in range(N):
            for j in range(i + 1, N):
                for l in range(T1):
                    if (g[i, j, l] in ("o-o", "x-x") and g[j, i, l] == g[i, j, l]) or \
                            (l == 0 and {g[i, j, l], g[j, i, l]} == {"-->", "<--"}):      # one link stored in two cells
                        val[j, i, l], p[j, i, l] = val[i, j, l], p[i, j, l]
    return val, p


def coq_tab(g, val, p):
    N, _, T1 = g.shape
    return coq_list([f"({i}%nat, {j}%nat, {l}%nat, {MARKS.get(str(g[i, j, l]), 'Unknown')}, {qlit(val[i, j, l])}, {qlit(p[i, j, l])})"
                     for i in range(N) for j in range(N) for l in range(T1) if g[i, j, l] != ""])


def edge_tuple(u, v, d):
    return (int(u), int(v), int(d["lag"]), float(d["val"]), float(d["p_value"]), d["link_type"], d.get("significant"))


def coq_edges(es):
    return coq_list([f"({u}%nat, {v}%nat, {l}%nat, {qlit(va)}, {qlit(p)}, {KIND[k]}, {'None' if s is None else '(Some ' + coq_bool(bool(s)) + ')'})"
                     for (u, v, l, va, p, k, s) in es])


def expected_graph(g, val, p, binarize, level):
    """The property's direction table, as a multiset of records."""
    N, _, T1 = g.shape
    out = []
    for i in range(N):
        for j in range(N):
            for l in range(T1):
                m = g[i, j, l]
                sg = bool(p[i, j, l] < level) if binarize else None
                rec = lambda a, b, k: (a, b, l, float(val[i, j, l]), float(p[i, j, l]), k, sg)
                if m == "-->":
                    out.append(rec(i, j, "directed"))
                elif m == "<--" and g[j, i, l] != "-->":          # mirrored pair = one link, represented once
                    out.append(rec(j, i, "directed"))
                elif m in ("o-o", "x-x") and i < j and g[j, i, l] == m:
                    k = "undirected" if m == "o-o" else "conflicting"
                    out += [rec(i, j, k), rec(j, i, k)]
                elif m == "-?>":
                    out.append(rec(i, j, "possible_directed"))
    return out


def run(chk):
    from causationentropy.graph.utils import networkx_to_pcmci, pcmci_to_networkx
    rng = np.random.default_rng(chk.seed)
    chk.theorems()
    chk.trusted += ["Coq 8.16.1 kernel + vm_compute", "harness/props/C14.py: arrays <-> finite maps, labels -> insertion indices, float->Q",
                    "networkx MultiDiGraph iteration order is modelled by nx_order and checked by the ordered comparison; the container is not modelled"]
    chk.assumptions += ["consistent mark patterns as defined in DESIGN.md section 3 (C14)",
                        "symmetric links of a graph join two distinct nodes and are stored in both directions with equal numbers"]
    tg_c, tg_p, tg_d = [], [], []
    tp_c, tp_p, tp_d = [], [], []
    # ------------------------------------------------------------------ PCMCI -> graph (-> PCMCI)
    pats = []
    # 2 nodes x lags {0,1}: consistent patterns (all in thorough, seeded subset in quick)
    cells2 = [(i, j, l) for i in range(2) for j in range(2) for l in range(2)]
    allc = []
    free = [c for c in cells2 if not (c[0] == c[1] and c[2] == 0)]     # lag-0 diagonal cells must be empty
    for combo in itertools.product(["", "-->", "<--", "o-o", "x-x", "-?>"], repeat=len(free)):
        g = np.full((2, 2, 2), "", dtype="<U3")
        for c, m in zip(free, combo):
            g[c] = m
        if is_consistent(g):
            allc.append(g)
    chk.extra["consistent_patterns_2x2x2"] = len(allc)
    sel = allc if chk.tier == "thorough" else [allc[int(i)] for i in rng.choice(len(allc), 700, replace=False)]
    pats += [(g, "consistent_2x2x2") for g in sel]
    for t in range(500 if chk.tier == "quick" else 20000):
        N, T1 = int(rng.integers(1, 6)), int(rng.integers(1, 5))
        kindp = rng.random()
        if kindp < 0.6:
            pats.append((consistent_pattern(rng, N, T1), "consistent_sampled"))
        elif kindp < 0.9:
            g = rng.choice(["", "", "-->", "<--", "o-o", "x-x", "-?>"], (N, N, T1)).astype("<U3")
            pats.append((g, "arbitrary"))
        else:
            g = consistent_pattern(rng, N, T1)
            i, j, l = int(rng.integers(N)), int(rng.integers(N)), int(rng.integers(T1))
            g[i, j, l] = str(rng.choice(["<->", "->", "oo", "+", "-->"]))
            pats.append((g, "malformed_mark"))
    for g, stream in pats:
        N, _, T1 = g.shape
        val, p = numbers(rng, g)
        binarize = bool(rng.random() < 0.5)
        level = float(rng.choice([0.05, 0.5, 1.0]))
        res = {"graph": g, "val_matrix": val, "p_matrix": p}
        two_d = T1 == 1 and rng.random() < 0.5
        if two_d:
            res = {"graph": g[:, :, 0], "val_matrix": val[:, :, 0], "p_matrix": p[:, :, 0]}
        has_bad = any(str(m) not in MARKS for m in g.flat)
        fail, out, G = None, None, None
        try:
            G = pcmci_to_networkx(res, binarize=binarize, p_value=level)
            out = [edge_tuple(u, v, d) for u, v, d in G.edges(data=True)]
        except ValueError:
            out = None
        cons = is_consistent(g)
        if has_bad:
            if out is not None:
                fail = "an unknown mark did not raise ValueError"
        elif out is None:
            fail = "ValueError on a pattern without unknown marks"
        else:
            exp = expected_graph(g, val, p, binarize, level)
            if list(G.nodes()) != list(range(N)):
                fail = f"nodes {list(G.nodes())}"
            elif len({e[:3] + (e[5],) for e in out}) != len(out):
                fail = "a link is represented more than once (duplicate (source, target, lag, link type))"
            elif cons and sorted(out, key=repr) != sorted(exp, key=repr):
                fail = f"edges {sorted(out, key=repr)} differ from the direction table {sorted(exp, key=repr)}"
            elif cons:
                back = networkx_to_pcmci(G)
                bg, bv, bp = back["graph"], back["val_matrix"], back["p_matrix"]
                for i in range(N):
                    for j in range(N):
                        for l in range(T1):
                            if g[i, j, l] != "" and (l >= bg.shape[2] or bg[i, j, l] != g[i, j, l] or bv[i, j, l] != val[i, j, l]
                                                     or bp[i, j, l] != p[i, j, l]):
                                fail = (f"PCMCI -> graph -> PCMCI does not reproduce entry [{i},{j},{l}] = "
                                        f"({g[i, j, l]!r}, {val[i, j, l]}, {p[i, j, l]})")
        tg_p.append(fail)
        tg_c.append(f"({N}%nat, {T1}%nat, {coq_tab(g, val, p)}, {coq_bool(binarize)}, {qlit(level)}, "
                    f"{'None' if out is None else '(Some ' + coq_edges(out) + ')'})")
        tg_d.append({"function": "pcmci_to_networkx", "stream": stream, "graph": g.tolist(), "val_matrix": val.tolist(),
                     "p_matrix": p.tolist(), "binarize": binarize, "level": level, "two_d_input": two_d,
                     "edges": None if out is None else [list(map(str, e)) for e in out]})
        chk.case(key=tg_c[-1], nontrivial=bool((g != "").any()), sample=tg_d[-1] if N <= 2 and T1 == 1 and len(chk.samples) < 2 and (g != "").any() else None)
        if out is not None and cons and fail is None and rng.random() < 0.15:
            # call history: the same result dict / arrays, numbers changed IN PLACE, converted again
            val += 0.5
            p *= 0.5
            G3 = pcmci_to_networkx(res, binarize=binarize, p_value=level)
            out3 = [edge_tuple(u, v, d) for u, v, d in G3.edges(data=True)]
            exp3 = expected_graph(g, val, p, binarize, level)
            chk.count("pcmci.reconverted_after_in_place_edit")
            if sorted(out3, key=repr) != sorted(exp3, key=repr):
                chk.violation("counterexample", "pcmci_to_networkx on the same arrays after an in-place change of val_matrix / p_matrix does "
                              f"not carry the current numbers: {sorted(out3, key=repr)} vs {sorted(exp3, key=repr)}",
                              {"function": "pcmci_to_networkx", "history": "convert, val_matrix += 0.5 and p_matrix *= 0.5 in place, convert again",
                               "graph": g.tolist(), "val_matrix_now": val.tolist(), "p_matrix_now": p.tolist(), "binarize": binarize, "level": level})
        chk.count("pcmci." + stream)
        chk.count("pcmci.consistent" if cons else "pcmci.inconsistent_or_malformed")
    lib.correspond(chk, "pcmci_to_networkx_vs_model", IMPORTS, TG_T, "check_to_graph_case", tg_c, tg_p, lambda i: tg_d[i], shard=400, jobs=12)
    # shape errors
    n_err = 0
    for bad in ({"graph": np.full((2, 2, 2), ""), "val_matrix": np.zeros((2, 2, 3)), "p_matrix": np.ones((2, 2, 2))},
                {"graph": np.full((2, 2, 2), ""), "val_matrix": np.zeros((2, 2, 2)), "p_matrix": np.ones((2, 3, 2))},
                {"graph": np.full((2,), ""), "val_matrix": np.zeros((2,)), "p_matrix": np.ones((2,))},
                {"graph": np.full((2, 2, 1, 1), ""), "val_matrix": np.zeros((2, 2, 1, 1)), "p_matrix": np.ones((2, 2, 1, 1))},
                {"graph": np.full((2, 2), ""), "val_matrix": np.zeros((2, 2, 2)), "p_matrix": np.ones((2, 2))},
                # the same NUMBER of entries in another shape (a reshape would accept these and read values at wrong positions)
                {"graph": np.full((2, 2, 4), "-->"), "val_matrix": np.arange(16.0).reshape(4, 2, 2), "p_matrix": np.ones((2, 2, 4))},
                {"graph": np.full((2, 2, 4), "-->"), "val_matrix": np.arange(16.0).reshape(2, 2, 4), "p_matrix": np.ones((2, 4, 2))},
                {"graph": np.full((4, 4), "o-o"), "val_matrix": np.arange(16.0).reshape(2, 2, 4), "p_matrix": np.ones((4, 4))},
                {"graph": np.full((2, 2, 2), "-->"), "val_matrix": np.zeros((2, 2, 2)), "p_matrix": np.ones((2, 4))},
                {"graph": np.full((2, 2, 2), "-->"), "val_matrix": np.zeros((4, 2)), "p_matrix": np.ones((2, 2, 2))}):
        try:
            pcmci_to_networkx(bad)
            chk.violation("counterexample", "mismatched / malformed array shapes did not raise ValueError",
                          {"function": "pcmci_to_networkx", "shapes": {k: list(v.shape) for k, v in bad.items()}})
        except ValueError:
            n_err += 1
    chk.count("shape_errors_raised", n_err)
    # ------------------------------------------------------------------ graph -> PCMCI (-> graph)
    POOL = ["a", "b", 3, (1, 2), "node x", 7]
    for t in range(700 if chk.tier == "quick" else 25000):
        n = int(rng.integers(1, 6))
        labels = [POOL[i] for i in rng.permutation(len(POOL))[:n]]
        G = nx.MultiDiGraph()
        G.add_nodes_from(labels)
        lags = [0, 1, 2, 3][: int(rng.integers(1, 5))]
        used = set()
        want = []
        for _ in range(int(rng.integers(0, 10))):
            u, v, l = int(rng.integers(n)), int(rng.integers(n)), int(rng.choice(lags))
            k = str(rng.choice(["directed", "directed", "possible_directed", "undirected", "conflicting"]))
            va, pv = float(rng.integers(-64, 65)) / 64, float(rng.integers(0, 65)) / 64
            if k in ("undirected", "conflicting"):
                if u == v or (u, v, l) in used or (v, u, l) in used:
                    continue
                used |= {(u, v, l), (v, u, l)}
                want += [(u, v, l, va, pv, k), (v, u, l, va, pv, k)]
            else:
                if (u, v, l) in used:
                    continue
                used.add((u, v, l))
                want.append((u, v, l, va, pv, k))
        order = [int(i) for i in rng.permutation(len(want))]
        attr_style = rng.random()
        for i in order:
            u, v, l, va, pv, k = want[i]
            d = {"lag": l, "p_value": pv, "link_type": k}
            if k == "directed" and attr_style < 0.3:
                d.pop("link_type")                      # default link type
            d["cmi" if attr_style > 0.7 else "val"] = va
            G.add_edge(labels[u], labels[v], **d)
        nodes = list(G.nodes())
        idx = {repr(x): i for i, x in enumerate(nodes)}
        edges = [(idx[repr(u)], idx[repr(v)], d["lag"], d.get("val", d.get("cmi")), d["p_value"], d.get("link_type", "directed"), None)
                 for u, v, d in G.edges(data=True)]
        fail = None
        try:
            res = networkx_to_pcmci(G)
            g, val, p = res["graph"], res["val_matrix"], res["p_matrix"]
            G2 = pcmci_to_networkx(res)
            back = sorted((u, v, d["lag"], d["val"], d["p_value"], d["link_type"]) for u, v, d in G2.edges(data=True))
            if back != sorted(e[:6] for e in edges):
                fail = (f"graph -> PCMCI -> graph returns {back} instead of the original links {sorted(e[:6] for e in edges)}")
            if fail is None and G.number_of_edges() and rng.random() < 0.15:
                # call history: edit one edge's numbers in place on the same graph object, convert again
                uu, vv, kk, dd = list(G.edges(keys=True, data=True))[int(rng.integers(G.number_of_edges()))]
                fld = "val" if "val" in dd else "cmi"
                if dd.get("link_type", "directed") in ("directed", "possible_directed"):
                    dd[fld] = dd[fld] + 0.25
                    dd["p_value"] = dd["p_value"] * 0.5
                    res4 = networkx_to_pcmci(G)
                    i4, j4, l4 = idx[repr(uu)], idx[repr(vv)], dd["lag"]
                    chk.count("graph.reconverted_after_in_place_edit")
                    if res4["val_matrix"][i4, j4, l4] != dd[fld] or res4["p_matrix"][i4, j4, l4] != dd["p_value"]:
                        chk.violation("counterexample", f"networkx_to_pcmci on the same graph object after an in-place change of one edge's numbers "
                                      f"writes {res4['val_matrix'][i4, j4, l4]}, {res4['p_matrix'][i4, j4, l4]} at [{i4},{j4},{l4}] instead of "
                                      f"{dd[fld]}, {dd['p_value']}", {"function": "networkx_to_pcmci", "history": "convert, edit one edge in place, convert again",
                                                                     "edge": [i4, j4, l4], "nodes": [repr(x) for x in nodes]})
                    dd[fld] = dd[fld] - 0.25
                    dd["p_value"] = dd["p_value"] * 2
        except ValueError as e:
            fail = f"ValueError on a well-formed graph: {e}"
            g, val, p = np.full((n, n, 1), "??"), np.zeros((n, n, 1)), np.ones((n, n, 1))
        tp_p.append(fail)
        tp_c.append(f"({n}%nat, {coq_edges(edges)}, {coq_tab(g, val, p)}, {g.shape[2]}%nat)")
        tp_d.append({"function": "networkx_to_pcmci", "nodes": [repr(x) for x in nodes], "edges_in_iteration_order": [list(map(str, e)) for e in edges],
                     "graph": g.tolist()})
        chk.case(key=tp_c[-1], nontrivial=len(edges) > 0, sample=tp_d[-1] if 0 < len(edges) < 3 and len(chk.samples) < 4 else None)
        chk.count("graph.sampled")
        chk.count("graph.lag0_opposite_pairs" if any((v, u, 0) in used and u != v for (u, v, l) in used if l == 0) else "graph.other")
    # unknown semantic link type
    Gb = nx.MultiDiGraph()
    Gb.add_edge(0, 1, lag=1, link_type="bidirected")
    try:
        networkx_to_pcmci(Gb)
        chk.violation("counterexample", "unknown link type did not raise ValueError", {"function": "networkx_to_pcmci", "link_type": "bidirected"})
    except ValueError:
        chk.count("unknown_link_type_raised")
    lib.correspond(chk, "networkx_to_pcmci_vs_model", IMPORTS, TP_T, "check_to_pcmci_case", tp_c, tp_p, lambda i: tp_d[i], shard=400, jobs=12)
    chk.rule = ("PCMCI results: every consistent mark pattern over 2 nodes x lags {0,1} (thorough; seeded subset of 700 in quick) + sampled "
                "consistent patterns (N 1..5, 1..4 lags, 2-D inputs), arbitrary patterns and malformed marks, distinct dyadic values/p-values, "
                "binarize on/off; graphs: sampled multigraphs with unique (source,target,lag) triples, mixed labels, symmetric links stored in "
                "both directions, val or cmi attribute, default link type, shuffled insertion order. Both converters and both compositions are "
                "compared with the Coq model in the kernel (edge lists in networkx iteration order, arrays entry by entry).")
    chk.exhaustive = False
    if chk.tier == "thorough":
        chk.extra["exhaustive_part"] = "all consistent mark patterns for 2 nodes x lags {0,1}"
