"""C18 -- synthetic generators emit data that their returned ground truth explains."""
import math
import random
from fractions import Fraction

import networkx as nx
import numpy as np

import lib
from lib import qlit, qmat, zmat, coq_list

IMPORTS = ("From Coq Require Import List QArith ZArith.\nImport ListNotations.\n"
           "From CE Require Import Model.Harness Model.Generators.\nOpen Scope Q_scope.\n")
TOL = 1e-9                       # the property's tolerance for algebraic relations evaluated in floats
TOLQ = "(1 # 1000000000)"
Z_REG = 8.0                      # regression check: |A_hat - A| <= Z_REG standard errors (see RULE)


# ----------------------------------------------------------------------------------------------
# graphs
# ----------------------------------------------------------------------------------------------
def make_graph(rng, n, kind):
    """user-supplied graphs with node labels 0..n-1; in half of them the nodes are INSERTED in a random order, so that
    matrix index k (networkx convention: k-th node of G.nodes()) differs from the label"""
    nodes = [int(x) for x in rng.permutation(n)] if rng.random() < 0.5 else list(range(n))
    if kind == "undirected":
        G = nx.Graph()
        G.add_nodes_from(nodes)
        for u in range(n):
            for v in range(u + 1, n):
                if rng.random() < 0.4:
                    G.add_edge(u, v)
        return G
    G = nx.DiGraph()
    G.add_nodes_from(nodes)
    if kind == "empty":
        pass
    elif kind == "dag":
        order = [int(x) for x in rng.permutation(n)]
        q = float(rng.choice([0.3, 0.6, 1.0]))
        for a in range(n):
            for b in range(a + 1, n):
                if rng.random() < q:
                    G.add_edge(order[a], order[b])
    elif kind == "sparse_directed":          # ~3 random out-edges per node (density about 3/n), plus a hub with many in-edges
        for u in range(n):
            for v in rng.choice(n, size=min(3, n), replace=False):
                if int(v) != u:
                    G.add_edge(u, int(v))
        hub = int(rng.integers(0, n))
        for u in rng.choice(n, size=min(n, 12), replace=False):
            if int(u) != hub:
                G.add_edge(int(u), hub)
    elif kind == "chain":
        order = [int(x) for x in rng.permutation(n)]
        for a in range(n - 1):
            G.add_edge(order[a], order[a + 1])
    elif kind == "cycle":
        order = [int(x) for x in rng.permutation(n)]
        for a in range(n):
            if n > 1 or True:
                G.add_edge(order[a], order[(a + 1) % n])      # n = 1: a self-loop
        for _ in range(int(rng.integers(0, n + 1))):
            u, v = int(rng.integers(0, n)), int(rng.integers(0, n))
            if u != v:
                G.add_edge(u, v)
    elif kind == "selfloops":
        for u in range(n):
            for v in range(n):
                if rng.random() < (0.5 if u == v else 0.25):
                    G.add_edge(u, v)
    elif kind == "complete":
        for u in range(n):
            for v in range(n):
                if u != v:
                    G.add_edge(u, v)
    elif kind == "multi_scc":
        # two or three disjoint directed cycles of random lengths (length 1 = a self-loop), optionally joined by edges that
        # go from an earlier cycle to a later one (so the strongly connected components stay the cycles)
        order = [int(x) for x in rng.permutation(n)]
        k = int(rng.integers(2, 4))
        cuts = sorted(int(x) for x in rng.choice(np.arange(1, n), size=min(k - 1, n - 1), replace=False)) if n >= 2 else []
        blocks = [order[a:b] for a, b in zip([0] + cuts, cuts + [n])]
        for blk in blocks:
            for a in range(len(blk)):
                G.add_edge(blk[a], blk[(a + 1) % len(blk)])
        for bi in range(len(blocks)):
            for bj in range(bi + 1, len(blocks)):
                if rng.random() < 0.4:
                    G.add_edge(int(rng.choice(blocks[bi])), int(rng.choice(blocks[bj])))
    elif kind == "pure_cycle":
        for a in range(n):
            G.add_edge(a, (a + 1) % n)
    elif kind == "one_edge":
        if n >= 2:
            u, v = [int(x) for x in rng.choice(n, 2, replace=False)]
            G.add_edge(u, v)
    else:
        raise ValueError(kind)
    return G


def graph_used(n, p, seed, G):
    """the graph the generator is documented to use: the supplied one, else the seeded Erdos-Renyi digraph"""
    return G if G is not None else nx.erdos_renyi_graph(n, p, seed=seed, directed=True)


def adjacency_of(G, n):
    """adj[k, l] = 1 iff (k-th node of G.nodes()) -> (l-th node), from the edge list (not through networkx's matrix
    export); rows/columns of the returned matrices and columns of the series are indexed the same way"""
    pos = {u: k for k, u in enumerate(G.nodes())}
    adj = np.zeros((n, n))
    for u, v in G.edges():
        adj[pos[u], pos[v]] = 1.0
        if not G.is_directed():
            adj[pos[v], pos[u]] = 1.0
    return adj


def is_acyclic(adj):
    """no directed cycle (self-loops are cycles): boolean powers of the pattern vanish"""
    n = adj.shape[0]
    P = (adj != 0).astype(np.int64)
    Q = np.eye(n, dtype=np.int64)
    for _ in range(n):
        Q = ((Q @ P) > 0).astype(np.int64)
    return not Q.any()


def topo_order(adj):
    """(acyclic?, topological order of the node INDICES, sources first) of the graph used, by networkx"""
    n = adj.shape[0]
    H = nx.DiGraph()
    H.add_nodes_from(range(n))
    H.add_edges_from((int(u), int(v)) for u, v in np.argwhere(adj != 0))
    if not nx.is_directed_acyclic_graph(H):
        return False, []
    return True, [int(u) for u in nx.lexicographical_topological_sort(H)]


def exact_power_vanishes(A):
    """A^n == 0 in exact rational arithmetic (every float is a rational); sparse rows of Fractions"""
    n = A.shape[0]
    rows = [{j: Fraction(float(A[i, j])) for j in range(n) if A[i, j] != 0} for i in range(n)]
    P = [dict(r) for r in rows]                      # A^1
    for _ in range(n - 1):
        if not any(P):
            return True
        Q = []
        for i in range(n):
            acc = {}
            for k, a in P[i].items():
                for j, b in rows[k].items():
                    acc[j] = acc.get(j, 0) + a * b
            Q.append({j: v for j, v in acc.items() if v != 0})
        P = Q
    return not any(P)


def coqchk_extra(chk, pid):
    """thorough tier: the independent checker on a second properties file (lib's Check.coqchk is tied to chk.pid)"""
    import re
    rc, out = lib.sh(["timeout", str(lib.COQCHK_TIMEOUT), "coqchk", "-silent", "-o", "-Q", lib.COQ, "CE", f"CE.Properties.{pid}"], timeout=lib.COQCHK_TIMEOUT + 100)
    axioms, sect, flags = [], None, {}
    for line in out.splitlines():
        m = re.match(r"^\* (.*?):\s*(.*)$", line.strip())
        if m:
            sect = m.group(1)
            if m.group(2):
                flags[sect] = m.group(2)
            continue
        if sect == "Axioms" and line.strip():
            axioms.append(line.strip())
    short = [a.replace("Coq.Logic.", "").replace("Coq.Reals.", "").replace("Coq.Numbers.Cyclic.Int63.", "").replace("Coq.Floats.", "")
             for a in axioms]
    bad = [a for a in short if a not in lib.ALLOWED_AXIOMS and not a.startswith(lib.ALLOWED_AXIOM_PREFIXES)]
    unsafe = [k for k, v in flags.items() if ("type-in-type" in k or "unsafe" in k or "positivity" in k) and v != "<none>"]
    ok = rc == 0 and not bad and not unsafe
    chk.oblige("coqchk", f"coqchk -o CE.Properties.{pid}", ok,
               (f"axioms of all loaded libraries: {', '.join(short) or 'none'}" if ok else
                f"rc={rc} bad axioms={bad} unsafe={unsafe} tail={out[-400:]}"))
    chk.extra[f"coqchk_axioms_{pid}"] = short


class Raised:
    """an exception raised by the implementation on an in-scope call is a property failure, not a machinery failure"""
    def __init__(self, e):
        self.what = f"{type(e).__name__}: {e}"


def call(f, *a, **kw):
    try:
        return f(*a, **kw)
    except Exception as e:
        return Raised(e)


def head(X, k):
    return X[:k].tolist() if isinstance(X, np.ndarray) and X.ndim == 2 else repr(X)


def logistic_first(n, p, seed):
    """history: the module's third public generator is called first with the same (n, p, seed); its own behaviour is C19's
    business, so whatever it does (or raises) is ignored here"""
    from causationentropy.datasets.synthetic import logisic_dynamics
    try:
        logisic_dynamics(n=n, p=p, t=2, seed=seed)
    except Exception:
        pass


def perturb_globals(rng):
    """C07-style history: disturb every piece of global RNG state between two calls"""
    np.random.seed(int(rng.integers(0, 2 ** 31)))
    np.random.random(int(rng.integers(1, 50)))
    random.seed(int(rng.integers(0, 2 ** 31)))
    random.random()


# ----------------------------------------------------------------------------------------------
# linear Gaussian process
# ----------------------------------------------------------------------------------------------
def replay_linear(seed, n, T):
    rng = np.random.default_rng(seed)
    R = 2 * (rng.random((n, n)) - 0.5)
    W = np.array([rng.standard_normal(n) for _ in range(T)]).reshape(T, n)
    return R, W


def radius_info(A):
    """(max |eigenvalue|, is the estimate trustworthy to 1e-10 relative?) using eigenvalue condition numbers"""
    import scipy.linalg
    if not np.any(A):
        return 0.0, True
    w, vl, vr = scipy.linalg.eig(A, left=True, right=True)
    k = int(np.argmax(np.abs(w)))
    r = float(abs(w[k]))
    if r == 0.0:
        return 0.0, True
    ok = True
    nrm = np.linalg.norm(A, 2)
    for j in range(len(w)):
        if abs(w[j]) >= r * (1 - 1e-6):
            d = abs(np.vdot(vl[:, j], vr[:, j]))
            kappa = np.inf if d == 0 else np.linalg.norm(vl[:, j]) * np.linalg.norm(vr[:, j]) / d
            if not (kappa * nrm * 2.3e-16 * 50 <= 1e-10 * r):
                ok = False
    return r, ok


def lin_pred(c, out, out2, out_eps2, R, W, adj):
    """the property on the implementation's behaviour; independent of the Coq model"""
    n, T, rho, eps, eps2 = c["n"], c["T"], c["rho"], c["epsilon"], c["eps2"]
    for o in (out, out2, out_eps2):
        if isinstance(o, Raised):
            return f"the call raised {o.what}"
    XY, A = out
    if not (isinstance(XY, np.ndarray) and XY.shape == (T, n)):
        return f"series shape {getattr(XY, 'shape', None)}, expected {(T, n)}"
    if not (isinstance(A, np.ndarray) and A.shape == (n, n)):
        return f"matrix shape {getattr(A, 'shape', None)}, expected {(n, n)}"
    if not (np.all(np.isfinite(XY)) and np.all(np.isfinite(A))):
        return "non-finite values returned"
    if not (np.array_equal(XY, out2[0]) and np.array_equal(A, out2[1])):
        return "two calls with the same seed (global RNG state perturbed in between) return different results"
    bad = np.argwhere((A != 0) & (adj.T == 0))
    if len(bad):
        i, j = [int(x) for x in bad[0]]
        return f"A[{i},{j}] = {float(A[i, j])!r} is non-zero but the graph has no edge {j} -> {i}: A is not supported on the transposed graph"
    r, trustworthy = radius_info(A)
    if is_acyclic(adj):
        # exact: a matrix whose non-zero pattern has no directed cycle is nilpotent, i.e. has spectral radius 0
        if not is_acyclic((A != 0).astype(float)):
            return "acyclic graph but the returned A is not nilpotent (spectral radius 0 expected)"
        if not exact_power_vanishes(A):
            return f"acyclic graph but A^{n} != 0 in exact rational arithmetic: the returned A is not nilpotent (spectral radius 0 expected)"
        c["_radius"] = "acyclic:0"
        c["_acyclic_measured_radius"] = r            # eigvals measurement, recorded (a nilpotent matrix is ill-conditioned: not a test)
    elif trustworthy:
        if abs(r - rho) > TOL * rho:
            return f"spectral radius of the returned A is {r!r}, expected rho = {rho!r}"
        c["_radius"] = "cyclic:rho"
    else:
        c["_radius"] = "cyclic:ill-conditioned-skipped"
    pred = np.vstack([np.zeros((1, n)), XY[:-1] @ A.T]) if T > 0 else np.zeros((0, n))
    E = XY - pred
    err = np.abs(E - eps * W)
    lim = TOL * (eps + np.abs(XY) + np.abs(pred))
    if np.any(err > lim):
        t, i = [int(x) for x in np.argwhere(err > lim)[0]]
        return (f"X[{t},{i}] - (A X[{t - 1}])[{i}] = {float(E[t, i])!r} but epsilon * (seed's standard normal) = {float(eps * W[t, i])!r}"
                if t > 0 else f"X[0,{i}] = {float(XY[0, i])!r} but epsilon * (seed's standard normal) = {float(eps * W[0, i])!r}")
    X2, A2 = out_eps2
    if not np.array_equal(A2, A):
        return "the returned matrix depends on epsilon"
    if X2.shape != XY.shape or np.any(np.abs(X2 / eps2 - XY / eps) > TOL * (1 + np.abs(XY / eps))):
        return f"series is not linear in epsilon: X(eps={eps2!r})/eps differs from X(eps={eps!r})/eps"
    if c.get("regress"):
        X0, X1 = XY[:-1], XY[1:]
        G = X0.T @ X0
        Ginv = np.linalg.inv(G)
        Ahat = (Ginv @ X0.T @ X1).T
        se = eps * np.sqrt(np.diag(Ginv))[None, :] * np.ones((n, 1))
        z = np.abs(Ahat - A) / se
        c["_zmax"] = float(z.max())
        if z.max() > Z_REG:
            i, j = [int(x) for x in np.unravel_index(int(np.argmax(z)), z.shape)]
            return (f"regressing X_t on X_(t-1) (T={T}) gives A_hat[{i},{j}] = {float(Ahat[i, j])!r}, returned A[{i},{j}] = {float(A[i, j])!r}: "
                    f"{z.max():.1f} standard errors apart (budget {Z_REG})")
    return None


def lin_case_term(c, adj, R, m, W, A, XY, rows, K, acyclic, order):
    n = c["n"]
    return ("(Build_lin_case {n} {T} {adj} {R} {rho} {m} {eps} {W} {A} {X} {K} {ac} {order})".format(
        n=n, T=rows, adj=qmat(adj.tolist()), R=qmat(R.tolist()), rho=qlit(c["rho"]), m=qlit(m), eps=qlit(c["epsilon"]),
        W=qmat(W[:rows].tolist()), A=qmat(A.tolist()), X=qmat(XY[:rows].tolist()), K=K,
        ac="true" if acyclic else "false", order=coq_list([f"{k}%nat" for k in order])))


# ----------------------------------------------------------------------------------------------
# Poisson network
# ----------------------------------------------------------------------------------------------
def replay_poisson(seed, base, n, X, lam_rows):
    """Re-create default_rng(seed) and draw in the documented order: row 0 = poisson(base, n), then one draw per
    (t, i) with mean lam_rows[t-1][i].  A rate that differs from the one used by an ulp or two (float rounding
    of the same real number) is retried from the saved generator state.  Returns (counts, rates used, retries)."""
    T = X.shape[0]
    rng = np.random.default_rng(seed)
    out = np.zeros((T, n))
    used = [[0.0] * n for _ in range(max(0, T - 1))]
    retries = 0
    if T == 0:
        return out, used, retries
    out[0] = rng.poisson(base, n)
    for t in range(1, T):
        for i in range(n):
            lam = float(lam_rows[t - 1][i])
            st = rng.bit_generator.state
            v = rng.poisson(lam)
            if v != X[t, i]:
                cands, lo, hi = [], lam, lam
                for _ in range(2):
                    lo, hi = math.nextafter(lo, -math.inf), math.nextafter(hi, math.inf)
                    cands += [lo, hi]
                for cnd in cands:
                    if cnd <= 0:
                        continue
                    rng.bit_generator.state = st
                    v2 = rng.poisson(cnd)
                    if v2 == X[t, i]:
                        v, lam, retries = v2, cnd, retries + 1
                        break
                else:
                    rng.bit_generator.state = st
                    v = rng.poisson(lam)
            out[t, i] = v
            used[t - 1][i] = lam
    return out, used, retries


def pois_pred(c, out, out2, adj):
    n, T, base, cpl, seed = c["n"], c["T"], c["lambda_base"], c["coupling_strength"], c["seed"]
    for o in (out, out2):
        if isinstance(o, Raised):
            return f"the call raised {o.what}"
    X, A = out
    if not (isinstance(X, np.ndarray) and X.shape == (T, n)):
        return f"series shape {getattr(X, 'shape', None)}, expected {(T, n)}"
    if not (isinstance(A, np.ndarray) and A.shape == (n, n)):
        return f"matrix shape {getattr(A, 'shape', None)}, expected {(n, n)}"
    if not np.all(np.isfinite(X)) or np.any(X < 0) or np.any(X != np.floor(X)):
        return "counts are not all non-negative integers"
    if not (np.array_equal(X, out2[0]) and np.array_equal(A, out2[1])):
        return "two calls with the same seed (global RNG state perturbed in between) return different results"
    if np.any((A != 0) & (A != 1)):
        return "returned matrix is not 0/1"
    if not np.array_equal(A, adj):
        i, j = [int(x) for x in np.argwhere(A != adj)[0]]
        return f"returned A[{i},{j}] = {float(A[i, j])!r} but the graph used has adjacency {float(adj[i, j])!r} there"
    # conditional mean as the property states it, from the emitted counts and the returned matrix
    lam = [[max(0.1, base + cpl * float(sum(A[j, i] * X[t - 1, j] for j in range(n)))) for i in range(n)] for t in range(1, T)]
    regen, used, retries = replay_poisson(seed, base, n, X, lam)
    c["_pred_retries"], c["_lam"], c["_regen"] = retries, used, regen
    if not np.array_equal(regen, X):
        t, i = [int(x) for x in np.argwhere(regen != X)[0]]
        if t == 0:
            return f"X[0,{i}] = {float(X[0, i])!r} but the seed's Poisson(lambda_base) draw is {float(regen[0, i])!r}"
        return (f"X[{t},{i}] = {float(X[t, i])!r} but the seed's Poisson draw with mean max(0.1, lambda_base + coupling * sum_j A[j,{i}] X[{t - 1},j]) "
                f"= {float(lam[t - 1][i])!r} is {float(regen[t, i])!r}")
    return None


# ----------------------------------------------------------------------------------------------
def run(chk):
    from causationentropy.datasets.synthetic import linear_stochastic_gaussian_process as lin
    from causationentropy.datasets.synthetic import poisson_coupled_oscillators as poi
    rng = np.random.default_rng(chk.seed)
    # tier 2 (mathcomp) theorems live in a file of their own; re-checked concurrently with the rest (own scratch directory)
    from concurrent.futures import ThreadPoolExecutor
    pool = ThreadPoolExecutor(max_workers=1)
    mx_job = pool.submit(lib.check_theorems, "C18Mx")
    chk.theorems()
    quick = chk.tier == "quick"
    chk.trusted += ["Coq 8.16.1 kernel + vm_compute",
                    "RNG replay: numpy default_rng(seed) draws (uniform weights, standard normals, Poisson variates) are re-created "
                    "by the harness in the documented order and fed to the model as data; numpy's bit-streams are not modelled",
                    "networkx erdos_renyi_graph(n, p, seed=seed, directed=True) is re-run by the harness to obtain 'the graph used' when no graph is supplied",
                    "spectral radius of CYCLIC samples: numpy/scipy eigvals (with an eigenvalue-condition guard) against rho; on the Coq side the "
                    "radius is a proved function over any numClosedFieldType with its scaling law (Properties/C18Mx.v), but the float the code "
                    "divides by is numpy's measurement of it, entering the model as data",
                    "acyclic samples: 'the graph used is acyclic' and its topological order come from networkx in the harness; the order is "
                    "CHECKED inside Coq against the adjacency of the graph used and against the returned matrix, and A^n = 0 is computed exactly in Coq",
                    "GeneratorsMxBridge.v: Qrat (Q -> rat, num/den) is the identification of the list model's rationals with mathcomp's",
                    "float rounding: the model is exact rational arithmetic; algebraic relations are compared within 1e-9 relative"]
    chk.assumptions += ["0 < rho < 1, epsilon > 0, coupling >= 0, lambda_base >= 0, integer seeds, n >= 1, T >= 1",
                        "user-supplied graphs are unweighted (Di)Graphs with node labels 0..n-1 (inserted in any order); matrix index k = k-th node of G.nodes() (networkx convention)",
                        "Poisson growth: T is shortened for super-critical couplings so that numpy's Poisson sampler accepts the rate "
                        "(means kept below ~1e7 in the random cases, below 1e13 in the dedicated long super-critical runs; the sampler's limit is ~9.2e18)"]

    # ------------------------------------------------------------------ linear process
    n_lin = 70 if quick else 2500
    n_reg = 3 if quick else 40
    KINDS = ["empty", "dag", "chain", "cycle", "selfloops", "complete", "one_edge", "undirected", "multi_scc"]
    n_scc = 8 if quick else 150
    confs = [dict(rho=0.5, n=20, T=100, p=0.1, epsilon=0.1, seed=42, kind="default-call", eps2=0.7)]
    for _ in range(n_lin):
        big = rng.random() < (0.04 if quick else 0.02)
        n = int(rng.integers(1, 21 if big else 9))
        T = int(rng.integers(1, 121 if big else 61)) if rng.random() < 0.85 else int(rng.integers(1, 4))
        kind = "erdos_renyi" if rng.random() < 0.5 else str(rng.choice(KINDS))
        confs.append(dict(rho=float(rng.choice([0.5, 0.9, 0.05, 0.999, rng.uniform(0.01, 0.99)])), n=n, T=T,
                          p=float(rng.choice([0.0, 0.05, 0.1, 0.2, 0.5, 1.0, rng.random(), 0.3 * rng.random()])),
                          epsilon=float(rng.choice([0.1, 1.0, 1e-3, 10.0, 10 ** rng.uniform(-3, 1)])),
                          seed=int(rng.integers(0, 2 ** 31)) if rng.random() < 0.8 else int(rng.integers(0, 50)),
                          kind=kind, eps2=float(10 ** rng.uniform(-3, 1))))
    for _ in range(n_scc):        # several cyclic strongly connected components: the dominant eigenvalue may sit in any of them
        confs.append(dict(rho=float(rng.choice([0.5, 0.9, rng.uniform(0.05, 0.99)])), n=int(rng.integers(2, 11)), T=int(rng.integers(2, 30)),
                          p=0.0, epsilon=float(10 ** rng.uniform(-2, 0)), seed=int(rng.integers(0, 2 ** 31)), kind="multi_scc",
                          eps2=float(10 ** rng.uniform(-3, 1))))
    for c in confs:               # histories: for Erdos-Renyi calls, sometimes another generator ran first with the same (n, p, seed)
        c["history"] = "logisic_dynamics(n,p,seed) called first" if c["kind"] == "erdos_renyi" and rng.random() < 0.4 else "none"
    for _ in range(n_reg):
        confs.append(dict(rho=float(rng.uniform(0.3, 0.95)), n=int(rng.integers(1, 5)), T=4000, p=float(rng.choice([0.3, 0.6, 1.0])),
                          epsilon=float(10 ** rng.uniform(-2, 1)), seed=int(rng.integers(0, 2 ** 31)),
                          kind=str(rng.choice(["erdos_renyi", "cycle", "selfloops", "dag"])), eps2=1.0, regress=True))
    # long records: the recursion must be the seed's innovations for EVERY row, also beyond any internal block size
    for Tlong in ([16389] if quick else [8193, 16389, 32771, 20000]):
        confs.append(dict(rho=float(rng.uniform(0.3, 0.9)), n=int(rng.integers(2, 4)), T=Tlong, p=1.0, epsilon=float(10 ** rng.uniform(-1, 0.5)),
                          seed=int(rng.integers(0, 2 ** 31)), kind=str(rng.choice(["erdos_renyi", "cycle"])), eps2=1.0, history="none"))
    cases, pf, desc = [], [], []
    for c in confs:
        n, T = c["n"], c["T"]
        G = None if c["kind"] in ("erdos_renyi", "default-call") else make_graph(rng, n, c["kind"])
        kw = dict(n=n, T=T, p=c["p"], epsilon=c["epsilon"], seed=c["seed"])
        if G is not None:
            kw["G"] = G
        if c.get("history", "none") != "none":
            logistic_first(n, c["p"], c["seed"])
            chk.count("lin.history.logistic_generator_called_first_with_same_n_p_seed")
        if c["kind"] == "default-call":
            out = call(lin, c["rho"])
        else:
            out = call(lin, c["rho"], **kw)
        perturb_globals(rng)
        out2 = call(lin, c["rho"], **kw)
        out3 = call(lin, c["rho"], **{**kw, "epsilon": c["eps2"]})
        Gu = graph_used(n, c["p"], c["seed"], G)
        adj = adjacency_of(Gu, n)
        acyclic, order = topo_order(adj)
        if acyclic != is_acyclic(adj):
            raise RuntimeError("harness: networkx and the boolean-power test disagree on acyclicity")
        R, W = replay_linear(c["seed"], n, T)
        d = {"generator": "linear_stochastic_gaussian_process", "call": {k: v for k, v in c.items() if not k.startswith("_") and k != "kind"},
             "graph": c["kind"], "edges_u_to_v": [[int(u), int(v)] for u, v in Gu.edges()] if n <= 10 else "large",
             "node_insertion_order": [int(u) for u in Gu.nodes()] if n <= 10 else "large", "undirected": not Gu.is_directed(),
             "graph_is_acyclic": acyclic, "topological_order_of_indices": order if acyclic else None}
        try:
            fail = lin_pred(c, out, out2, out3, R, W, adj)
        except Exception as e:   # malformed output is a property failure, not a machinery failure
            fail = f"predicate could not be evaluated on the returned values: {type(e).__name__}: {e}"
        pf.append(fail)
        XY, A = (None, None) if isinstance(out, Raised) else out
        M = adj.T * R
        m = float(np.max(np.abs(np.linalg.eigvals(M)))) if n > 0 else 0.0
        ok_shape = isinstance(XY, np.ndarray) and isinstance(A, np.ndarray) and XY.shape == (T, n) and A.shape == (n, n) \
            and np.all(np.isfinite(XY)) and np.all(np.isfinite(A))
        if ok_shape:
            rows = T if not c.get("regress") else 40
            if n * rows > 240:                       # keep the literal moderate: step-wise on a prefix
                rows = max(2, 240 // n)
            K = min(rows, max(2, 48 // n))
            # only the weights on edges matter (the model multiplies by adjacency^T); zeros keep the literal small
            cases.append(lin_case_term(c, adj, R * (adj.T != 0), m, W, A, XY, rows, K, acyclic, order))
            chk.count("lin.rows_compared_stepwise", rows)
            chk.count("lin.rows_compared_free_running", K)
        else:
            cases.append("(Build_lin_case 0 1 [] [] 0 0 0 [] [] [] 0 false [])")      # shape mismatch: rejected by the model side
        d["radius_check"] = c.get("_radius")
        d["returned_A"] = np.asarray(A).tolist() if np.size(A) <= 36 else "large"
        desc.append(d)
        chk.case(key=("lin",) + tuple(sorted((k, v) for k, v in c.items() if not k.startswith("_"))) + (tuple(map(tuple, adj.tolist())),),
                 nontrivial=T >= 2 and bool(adj.any()),
                 sample={**d, "X_first_rows": head(XY, 3)} if n <= 3 and T >= 2 and adj.any() and len(chk.samples) < 2 else None)
        chk.count("lin.calls")
        chk.count("lin.graph." + c["kind"])
        if G is not None and list(G.nodes()) != sorted(G.nodes()):
            chk.count("lin.user_graph_nodes_inserted_out_of_order")
        chk.count("lin.radius." + str(c.get("_radius")))
        ne = int(np.count_nonzero(adj))
        src = "user_graph" if G is not None else "erdos_renyi"
        chk.count(f"lin.{'acyclic' if acyclic else 'cyclic'}.{src}")
        if acyclic:
            chk.count("lin.acyclic.no_edge" if ne == 0 else "lin.acyclic.1_edge" if ne == 1 else "lin.acyclic.2+_edges")
            chk.count(f"lin.acyclic.{src}.with_edges" if ne else f"lin.acyclic.{src}.no_edge")
            if ok_shape:
                chk.count("lin.acyclic.witness_and_exact_nilpotency_evaluated_in_coq")
                depth = int(nx.dag_longest_path_length(nx.DiGraph([(int(u), int(v)) for u, v in np.argwhere(adj != 0)]))) if ne else 0
                chk.count("lin.acyclic.longest_path_" + ("0" if depth == 0 else "1" if depth == 1 else "2" if depth == 2 else "3+"))
            if "_acyclic_measured_radius" in c:
                chk.extra["acyclic_measured_radius_max"] = max(chk.extra.get("acyclic_measured_radius_max", 0.0), c["_acyclic_measured_radius"])
                chk.count("lin.acyclic.eigvals_measured_exactly_0" if c["_acyclic_measured_radius"] == 0.0 else "lin.acyclic.eigvals_measured_nonzero")
        chk.count("lin.n_le_3" if n <= 3 else "lin.n_4_8" if n <= 8 else "lin.n_9_20")
        chk.count("lin.T_1" if T == 1 else "lin.T_2_10" if T <= 10 else "lin.T_gt_10")
        if c.get("regress"):
            chk.count("lin.regression_checks")
            chk.extra.setdefault("regression_zmax", []).append(c.get("_zmax"))
    lib.correspond(chk, "linear_replay_model_vs_impl", IMPORTS, "lin_case", f"check_lin_case {TOLQ}", cases, pf,
                   lambda i: desc[i], shard=3 if quick else 8, jobs=14, timeout=1500)

    # ------------------------------------------------------------------ Poisson network
    n_poi = 90 if quick else 3000
    pconfs = [dict(n=10, T=100, p=0.2, lambda_base=2.0, coupling_strength=0.3, seed=42, kind="default-call")]
    for _ in range(n_poi):
        n = int(rng.integers(1, 9)) if rng.random() < 0.95 else int(rng.integers(9, 15))
        T = int(rng.integers(1, 61)) if rng.random() < 0.85 else int(rng.integers(1, 4))
        kind = "erdos_renyi" if rng.random() < 0.5 else str(rng.choice(KINDS))
        base = float(rng.choice([0.0, 0.0625, 0.5, 1.0, 2.0, 3.5, int(rng.integers(0, 97)) / 16, 0.05, 0.1, 0.3, 2.3, 12.0, 40.0]))
        cpl = float(rng.choice([0.0, 0.25, 0.5, 1.0, int(rng.integers(0, 17)) / 16, 0.3, 0.1, 0.03, 1.5]))
        pconfs.append(dict(n=n, T=T, p=float(rng.choice([0.0, 0.1, 0.2, 0.5, 1.0, rng.random()])), lambda_base=base,
                           coupling_strength=cpl, seed=int(rng.integers(0, 2 ** 31)) if rng.random() < 0.8 else int(rng.integers(0, 50)),
                           kind=kind))
    for c in pconfs:
        c["history"] = "logisic_dynamics(n,p,seed) called first" if c["kind"] == "erdos_renyi" and rng.random() < 0.4 else "none"
    for _ in range(4 if quick else 60):      # long super-critical runs: the conditional mean passes 1e9 and keeps growing (<= 1e13)
        pconfs.append(dict(n=int(rng.integers(1, 5)), T=400, p=0.0, lambda_base=float(rng.choice([2.0, 0.5, 5.0])),
                           coupling_strength=float(rng.choice([2.0, 1.5, 3.0])), seed=int(rng.integers(0, 2 ** 31)),
                           kind=str(rng.choice(["pure_cycle", "multi_scc", "cycle"])), history="none", long_run=True))
    # large sparse DIRECTED networks (sparse / edge-list code paths): in-neighbours and out-neighbours differ
    for nbig in ([100] if quick else [64, 80, 100, 128, 150]):
        pconfs.append(dict(n=nbig, T=int(rng.integers(5, 9)), p=0.0, lambda_base=float(rng.choice([1.0, 2.0])),
                           coupling_strength=float(rng.choice([0.5, 0.25])), seed=int(rng.integers(0, 2 ** 31)),
                           kind="sparse_directed", history="none"))
    runs = []
    for c in pconfs:
        n = c["n"]
        G = None if c["kind"] in ("erdos_renyi", "default-call") else make_graph(rng, n, c["kind"])
        Gu = graph_used(n, c["p"], c["seed"], G)
        adj = adjacency_of(Gu, n)
        indeg = float(adj.sum(axis=0).max()) if n else 0.0
        g = 1.0 + c["coupling_strength"] * indeg            # worst-case growth factor of the mean per step
        sr_mean = float(np.max(np.abs(np.linalg.eigvals(c["coupling_strength"] * adj)))) if n else 0.0
        if c.get("long_run"):
            # exact mean recursion m_0 = base, m_t = max(0.1, base + c A^T m_(t-1)); stop before any mean exceeds 1e13
            # (numpy's sampler accepts rates up to ~9.2e18; counts stay exactly representable)
            mvec, T1 = np.full(n, c["lambda_base"]), 1
            while T1 < c["T"]:
                mvec = np.maximum(0.1, c["lambda_base"] + c["coupling_strength"] * (adj.T @ mvec))
                if mvec.max() > 1e13:
                    break
                T1 += 1
            c["T"] = T1
            chk.count("poisson.long_supercritical_runs")
            chk.extra["poisson_long_run_largest_mean"] = max(chk.extra.get("poisson_long_run_largest_mean", 0.0), float(mvec.max()))
        elif sr_mean >= 0.9 and c["kind"] != "default-call":   # the mean dynamics m' = base + c A^T m is not safely contracting
            c["T"] = max(1, min(c["T"], int(math.log(1e6 / max(1.0, c["lambda_base"])) / math.log(g))))
        kw = dict(n=n, T=c["T"], p=c["p"], lambda_base=c["lambda_base"], coupling_strength=c["coupling_strength"], seed=c["seed"])
        if G is not None:
            kw["G"] = G
        if c.get("history", "none") != "none":
            logistic_first(n, c["p"], c["seed"])
            chk.count("poisson.history.logistic_generator_called_first_with_same_n_p_seed")
        out = call(poi) if c["kind"] == "default-call" else call(poi, **kw)
        perturb_globals(rng)
        out2 = call(poi, **kw)
        try:
            fail = pois_pred(c, out, out2, adj)
        except Exception as e:
            fail = f"predicate could not be evaluated on the returned values: {type(e).__name__}: {e}"
        runs.append((c, Gu, adj, (None, None) if isinstance(out, Raised) else out, fail))
    # The rates that regenerate the returned counts through the replayed rng.poisson (found by the predicate above) are
    # handed to Coq, where the model recomputes the rate table from the EMITTED counts and the RETURNED matrix and must
    # agree with them to 1e-12 relative: so the model's rates, pushed through the replayed generator, regenerate the counts.
    cases, pf, desc = [], [], []
    for k, (c, Gu, adj, (X, A), fail) in enumerate(runs):
        n, T = c["n"], c["T"]
        d = {"generator": "poisson_coupled_oscillators", "call": {kk: v for kk, v in c.items() if not kk.startswith("_") and kk != "kind"},
             "graph": c["kind"], "edges_u_to_v": [[int(u), int(v)] for u, v in Gu.edges()] if n <= 10 else "large",
             "node_insertion_order": [int(u) for u in Gu.nodes()] if n <= 10 else "large", "undirected": not Gu.is_directed(),
             "returned_A": np.asarray(A).tolist() if np.size(A) <= 36 else "large",
             "X_first_rows": head(X, 4) if n <= 6 else "large"}
        pf.append(fail)
        desc.append(d)
        edges = [(int(k), int(l)) for k, l in np.argwhere(adj != 0)]        # index pairs (positions in G.nodes())
        edges_c = coq_list([f"({u}%nat, {v}%nat)" for u, v in edges])
        floor_hits = 0
        ok = isinstance(X, np.ndarray) and isinstance(A, np.ndarray) and X.shape == (T, n) and A.shape == (n, n) \
            and np.all(np.isfinite(X)) and np.all(X == np.floor(X)) and np.all(np.isfinite(A)) and "_lam" in c
        if ok:
            used, regen = c["_lam"], c["_regen"]
            floor_hits = sum(1 for r in used for q in r if q == 0.1)
            chk.count("poisson.ulp_retries", c.get("_pred_retries", 0))
            cases.append("(Build_pois_case {n} {T} {e} {b} {c} {A} {X}%Z {lam} {rg}%Z)".format(
                n=n, T=T, e=edges_c, b=qlit(c["lambda_base"]), c=qlit(c["coupling_strength"]), A=qmat(A.tolist()),
                X=zmat(X.astype(np.int64).tolist()), lam=qmat(used), rg=zmat(regen.astype(np.int64).tolist())))
        else:
            cases.append("(Build_pois_case 0 1 [] 0 0 [] [] [] [])")
        coupled = bool(adj.any()) and c["coupling_strength"] > 0 and T >= 2
        chk.case(key=("poi",) + tuple(sorted((kk, v) for kk, v in c.items() if not kk.startswith("_"))) + (tuple(map(tuple, adj.tolist())),),
                 nontrivial=coupled, sample=d if n <= 3 and coupled and T >= 3 and sum(1 for s in chk.samples if s.get("generator", "").startswith("poisson")) < 2 else None)
        chk.count("poisson.calls")
        chk.count("poisson.graph." + c["kind"])
        if list(Gu.nodes()) != sorted(Gu.nodes()):
            chk.count("poisson.user_graph_nodes_inserted_out_of_order")
        chk.count("poisson.draws_replayed", n * T)
        chk.count("poisson.rates_at_floor", floor_hits)
        chk.count("poisson.coupled" if coupled else "poisson.uncoupled")
        chk.count("poisson.dyadic_parameters" if (c["lambda_base"] * 16).is_integer() and (c["coupling_strength"] * 16).is_integer()
                  else "poisson.non_dyadic_parameters")
    lib.correspond(chk, "poisson_model_rates_regenerate_counts", IMPORTS, "pois_case", f"check_pois_case {qlit(Fraction(1, 10 ** 12))}",
                   cases, pf, lambda i: desc[i], shard=10 if quick else 40, jobs=14, timeout=1500)

    for r in mx_job.result():
        chk.oblige("theorem", r["name"], r["ok"], r.get("error", "") or ("axioms: " + (", ".join(r["axioms"]) or "none")))
        chk.extra.setdefault("theorem_axioms", {})[r["name"]] = r["axioms"]
    pool.shutdown()
    if chk.tier == "thorough":
        coqchk_extra(chk, "C18Mx")

    chk.rule = (
        "Both generators are called through their public signatures: the default calls, Erdos-Renyi graphs from (n 1..20, p in {0,..,1}, seed) "
        "(p incl. 0.05..0.3 so that acyclic random graphs WITH edges occur) and user-supplied graphs (empty, DAG, chain, cycle incl. n=1 "
        "self-loop, digraphs with self-loops, complete, single edge, undirected, several disjoint cycles / self-loops joined acyclically = "
        "several cyclic strongly connected components); "
        "rho in (0,1) incl. 0.05 and 0.999, epsilon in [1e-3,10], T 1..120; Poisson lambda_base in [0,40] incl. values below the 0.1 floor, "
        "coupling in [0,1.5] (T shortened when the coupling is super-critical), plus long super-critical runs (coupling 1.5..3 on cycles) whose "
        "conditional means pass 1e9 and grow to <= 1e13. Each call is repeated with numpy's and Python's global RNG "
        "state perturbed in between (determinism), 40% of the Erdos-Renyi calls are preceded by a call of the module's third generator "
        "logisic_dynamics with the same (n, p, seed) (history), and the linear process is re-run with a second epsilon (linearity). "
        "Tie: the harness re-creates default_rng(seed) and draws the uniform weights, the standard-normal vectors and the Poisson variates in the "
        "documented order. Linear: inside Coq the exact-rational model (a) fed with the replayed noise and the RETURNED A reproduces the returned "
        "series within 1e-9*(eps+|x|) -- free-running on a prefix and step-wise on every row --, (b) rebuilds the returned A as "
        "s*(adjacency^T o replayed weights) with s from the measured radius, (c) checks the support on the transposed graph, (d) whenever the "
        "graph used is acyclic (networkx; acyclic/cyclic counts by source in the statistics): the topological order supplied by the harness is "
        "checked against the adjacency of the graph used AND against the returned matrix (dag_witness_ok: every non-zero A[i][j] has j strictly "
        "before i) and A^n = 0 is computed in exact rational arithmetic (nilpotent_red_ok) -- by Properties/C18Mx.v that witness test means "
        "char poly X^n, only eigenvalue 0, spectral radius 0. Poisson: the Coq model "
        "computes the rate table from the returned counts and matrix; those rates pushed through the replayed rng.poisson must regenerate the "
        "returned counts exactly, and the returned matrix must equal the 0/1 adjacency of the graph used. "
        "Predicate on the implementation (no model involved): shapes, determinism, support/orientation, spectral radius rho by numpy "
        "(if the graph is acyclic: the non-zero pattern of A has no directed cycle and A^n = 0 in exact Fractions, numpy's eigvals value only "
        "recorded; skipped with a count when the eigenvalue is ill-conditioned), X_t - A X_(t-1) = eps * replayed normal within 1e-9, "
        "X(eps2)/eps2 = X(eps)/eps, integer non-negative counts, A = 0/1 adjacency, counts regenerated by the replayed Poisson draws with mean "
        "max(0.1, base + c * sum_j A[j,i] X[t-1,j]). Statistical: OLS of X_t on X_(t-1) at T=4000 must be within 8 standard errors of the returned A "
        f"entrywise (two-sided Gaussian tail 1.3e-15 per entry; <= 16 entries x {n_reg} runs: error budget < 1e-9). "
        "Distinct = distinct (arguments, graph); non-trivial = at least one coupled step on a graph with an edge.")
