"""C01 -- a reported edge u->v at lag tau really is X_u(t-tau) informing X_v(t)."""
import numpy as np
import pandas as pd

import lib
import translate
from discover_spy import Spy
from lib import zlist, zmat, coq_list

IMPORTS = ("From Coq Require Import List ZArith Bool.\nImport ListNotations.\n"
           "From CE Require Import Model.Harness Model.Lagged.\nOpen Scope Z_scope.\n")
CASE_T = "list (list Z) * nat * nat * list nat * nat * list Z * list Z * list (list Z) * (nat * nat * nat)"
SC = 2 ** 20
METHODS = ["standard", "alternative", "information_lasso", "lasso"]


def to_int(a):
    v = np.asarray(a, dtype=float) * SC
    r = np.rint(v)
    if not np.array_equal(v, r):
        raise ValueError("cell not on the 2^-20 grid")
    return r.astype(np.int64)


def cols_of(Z):
    return [] if Z is None else [tuple(to_int(Z[:, k]).tolist()) for k in range(Z.shape[1])]


def expected(series, L, u, tau):
    T = series.shape[0]
    return tuple(to_int([series[t - tau, u] for t in range(L, T)]).tolist())


def edges_into(G, names, v):
    out = []
    for a, b, d in G.edges(data=True):
        if b == names[v]:
            out.append((names.index(a), d["lag"], d["cmi"], d["p_value"]))
    return out


def judge_target(series, L, names, G, spy, i, cases, pf, desc, chk, meta, recompute=None):
    """All edges into target i: match each to the emission-phase estimator / test calls and check the property."""
    T, n = series.shape
    S = spy.S.get(i, [])
    ecalls = [c for c in spy.cmi_calls if c["target"] == i and c["phase"] == "emit"]
    tcalls = [c for c in spy.test_calls if c["target"] == i and c["phase"] == "emit"]
    edges = edges_into(G, names, i)
    lab = lambda s: (s // L, s % L + 1)
    if sorted((u, lag) for u, lag, _, _ in edges) != sorted(lab(s) for s in S):
        cases.append("([], 1%nat, 0%nat, [], 0%nat, [1%Z], [], [], (0%nat,0%nat,0%nat))")
        pf.append(f"edges into {names[i]} {[(u, lag) for u, lag, _, _ in edges]} are not one per selected predictor {[lab(s) for s in S]}")
        desc.append(dict(meta, target=i, S=S))
        return
    parents = {(u, lag) for u, lag, _, _ in edges}
    for k, s in enumerate(S):
        u, tau = lab(s)
        e = [x for x in edges if (x[0], x[1]) == (u, tau)][0]
        c, p = e[2], e[3]
        fail = None
        call = ecalls[k] if k < len(ecalls) else None
        tcall = tcalls[k] if k < len(tcalls) else None
        expX, expY = expected(series, L, u, tau), tuple(to_int(series[L:, i]).tolist())
        expZ = sorted(expected(series, L, uu, tt) for (uu, tt) in parents if (uu, tt) != (u, tau))
        # which estimator call produced this edge's cmi?
        src = [x for x in ecalls if x["value"] is c or (isinstance(x["value"], float) and x["value"] == c)]
        if call is None or tcall is None:
            fail = "edge emitted without an estimator/test evaluation of its own"
        elif not src:
            fail = f"cmi {c} of edge {names[u]}->{names[i]} lag {tau} is not the value of any estimator call made for that target's edges"
        else:
            x = call if any(call is y for y in src) else src[0]
            if tuple(to_int(x["X"][:, 0]).tolist()) != expX or x["X"].shape[1] != 1:
                fail = f"cmi of edge {names[u]}->{names[i]} lag {tau} was computed on a predictor column that is not series[t-{tau},{u}], t={L}..{T-1}"
            elif tuple(to_int(x["Y"][:, 0]).tolist()) != expY:
                fail = f"cmi of edge into {names[i]} was computed on a target column that is not series[t,{i}], t={L}..{T-1}"
            elif sorted(cols_of(x["Z"])) != expZ:
                fail = (f"cmi of edge {names[u]}->{names[i]} lag {tau} was conditioned on {len(cols_of(x['Z']))} column(s) that are not "
                        f"exactly the other reported parents of {names[i]} ({len(expZ)})")
            else:
                ts = [y for y in tcalls if y["result"]["P_value"] == p and y["observed"] == c
                      and tuple(to_int(y["X"][:, 0]).tolist()) == expX and tuple(to_int(y["Y"][:, 0]).tolist()) == expY
                      and sorted(cols_of(y["Z"])) == expZ]
                if not ts:
                    fail = (f"p_value {p} of edge {names[u]}->{names[i]} lag {tau} does not come from a test of that delayed predictor "
                            f"against that target given the other parents with observed value {c}")
        if fail is None and recompute is not None:
            fail = recompute(i, u, tau, c, p, [(uu, tt) for (uu, tt) in [lab(z) for z in S] if (uu, tt) != (u, tau)], tcall)
        pf.append(fail)
        X = call["X"] if call is not None else np.zeros((1, 1))
        try:
            cases.append("(%s, %d%%nat, %d%%nat, %s, %d%%nat, %s, %s, %s, (%d%%nat, %d%%nat, %d%%nat))" % (
                zmat(to_int(series).tolist()), L, i, coq_list([f"{z}%nat" for z in S]), s,
                zlist(to_int(X[:, 0]).tolist()), zlist(to_int(call["Y"][:, 0]).tolist()) if call else "[]",
                zmat([list(z) for z in cols_of(call["Z"])]) if call else "[]", e[0], i, int(e[1])))
        except ValueError:
            cases.append("([], 1%nat, 0%nat, [], 0%nat, [1%Z], [], [], (0%nat,0%nat,0%nat))")
        desc.append(dict(meta, target=i, S=S, edge={"source": u, "lag": tau, "cmi": float(c), "p_value": float(p)},
                         series=series.tolist()))
        chk.case(key=(cases[-1]), nontrivial=True, sample=desc[-1] if len(chk.samples) < 3 and T < 9 else None)


def run(chk):
    import causationentropy.core.discovery as disc
    from causationentropy.core.information.conditional_mutual_information import conditional_mutual_information as CMI
    rng = np.random.default_rng(chk.seed)
    chk.theorems()
    lib.translator_lemma(chk, "discover_facts", translate.discover_facts, translate.coq_discover_facts, "")
    chk.trusted += ["Coq 8.16.1 kernel + vm_compute", "harness/discover_spy.py (spies at the module seam; phase tracking by driver wrappers)",
                    "harness/translate.py (discover_network anchors, fail-closed)",
                    "the estimator itself is an oracle here (its formulas are C08-C13)"]
    chk.assumptions += ["series cells lie on the 2^-20 dyadic grid so that columns are compared exactly as integers"]
    cases, pf, desc = [], [], []
    # ---------------- stream A: structural (scripted drivers / estimator / test), every method
    nA = 250 if chk.tier == "quick" else 15000
    seam_errors = []
    for t in range(nA):
        L = int(rng.integers(1, 5))
        T = L + 3 if t % 5 == 0 else int(rng.integers(L + 3, 16))
        n = int(rng.integers(1, 5))
        method = METHODS[t % 4]
        if rng.random() < 0.5:
            series = np.arange(T * n, dtype=float).reshape(T, n)
        else:
            series = rng.integers(-40, 41, (T, n)).astype(float) / 16
        if n >= 2 and rng.random() < 0.2:            # a dead channel: one variable is constant over the whole record
            series[:, int(rng.integers(0, n))] = float(rng.integers(-3, 4))
            chk.count("structural.dead_channel")
        use_df = rng.random() < 0.35
        names = [f"v{7 * j + 3}" for j in range(n)] if use_df else [f"X{j}" for j in range(n)]
        data = pd.DataFrame(series, columns=names) if use_df else series
        sel = {}

        def select(i, name, a, kw, sel=sel, n=n, L=L):
            k = int(rng.integers(0, min(4, n * L) + 1))
            sel[i] = [int(x) for x in rng.choice(n * L, k, replace=False)]
            return list(sel[i])
        try:
            if not use_df and rng.random() < 0.3:
                # call history on one array object: another record of the same shape is analysed first, then the buffer is
                # refilled in place with `series` and analysed (with the same max_lag) -- the edges must be about the CURRENT contents
                buf = rng.integers(-40, 41, (T, n)).astype(float) / 16
                with Spy(disc, select=lambda i, name, a, kw: [], estimator=lambda k, r: 1.0, test=lambda k, r: {
                        "Threshold": 0.0, "Value": r["observed"], "Pass": True, "P_value": 0.0}), lib.quiet():
                    disc.discover_network(buf, method=method, information="gaussian", max_lag=L, n_shuffles=13)
                buf[:] = series
                data = buf
                chk.count("structural.second_analysis_of_a_buffer_refilled_in_place")
            with Spy(disc, select=select, estimator=lambda k, r: 1.0 + k / 1024, test=lambda k, r: {
                    "Threshold": 0.0, "Value": r["observed"], "Pass": True, "P_value": (k % 13) / 13}) as spy, lib.quiet():
                G = disc.discover_network(data, method=method, information="gaussian", max_lag=L, n_shuffles=13)
        except Exception as e:       # the scripted selection no longer fits what discover_network builds: the seam is broken
            seam_errors.append(f"{type(e).__name__}: {e} (T={T}, n={n}, max_lag={L}, method={method})"[:200])
            continue
        for i in range(n):
            judge_target(series, L, names, G, spy, i, cases, pf, desc, chk,
                         {"stream": "structural", "method": method, "T": T, "n": n, "max_lag": L, "dataframe": use_df})
        chk.count("structural." + method)
        chk.count("structural.boundary_T" if T == L + 3 else "structural.T_other")
    chk.oblige("correspondence", "discover_network accepts scripted selections over the n*max_lag candidate columns (seam of stream A)",
               not seam_errors, f"{len(seam_errors)} runs raised" + (f", e.g. {seam_errors[0]}" if seam_errors else ""))
    # ---------------- stream B: semantic (real selection, real estimators), cmi and p-value recomputed independently
    nB = 28 if chk.tier == "quick" else 500
    plan = ["gaussian"] * 4 + ["knn"] * 2 + ["poisson"] * 2 + ["kde", "geometric_knn"]
    for t in range(nB):
        info = plan[t % len(plan)]
        method = METHODS[(t // len(plan) + t) % 4]
        n, L = int(rng.integers(2, 4)), int(rng.integers(1, 3))
        T = int(rng.integers(26, 40)) if info not in ("kde", "geometric_knn") else 24
        if info == "poisson":
            series = rng.poisson(3.0, (T, n)).astype(float)
            for tt in range(1, T):
                series[tt, 1] = rng.poisson(0.5 + 1.5 * series[tt - 1, 0])
        else:
            series = rng.standard_normal((T, n))
            for tt in range(1, T):
                series[tt, 1] = 0.9 * series[tt - 1, 0] + 0.3 * series[tt, 1]
            series = np.rint(series * SC) / SC
        if t % 3 == 1 and info in ("knn", "gaussian", "poisson"):      # dead channel in front of the coupled pair
            n = 3
            base = series[:, :2]
            series = np.column_stack([np.full(T, 2.0), base[:, 0], base[:, 1]])
            if info != "poisson":
                series[1:, 2] = np.rint((0.9 * series[:-1, 1] + 0.3 * series[1:, 2]) * SC) / SC
            method = ["lasso", "information_lasso", "alternative", "standard"][(t // 3) % 4] if info != "gaussian" else ["lasso", "information_lasso"][(t // 3) % 2]
            chk.count("semantic.dead_channel")
        nsh, k = 8, 3
        # every second run uses non-default estimator settings: cmi AND the surrogates behind p must be computed with them
        metric_, bw_ = "euclidean", "silverman"
        if (t // 2) % 2 == 1 or info == "kde":
            metric_ = str(rng.choice(["chebyshev", "cityblock"])) if info in ("knn", "geometric_knn") else "euclidean"
            bw_ = [2.0, "scott", 0.5][t % 3] if info == "kde" else "silverman"
            k = int(rng.integers(2, 6))
        names = [f"X{j}" for j in range(n)]
        with Spy(disc) as spy, lib.quiet():
            G = disc.discover_network(series, method=method, information=info, max_lag=L, n_shuffles=nsh, k_means=k,
                                      alpha_forward=0.2, alpha_backward=0.2, metric=metric_, bandwidth=bw_)

        def recompute(i, u, tau, c, p, others, tcall, series=series, L=L, info=info, k=k, nsh=nsh, metric_=metric_, bw_=bw_):
            Tn = series.shape[0]
            Xe = np.array([[series[tt - tau, u]] for tt in range(L, Tn)])
            Ye = np.array([[series[tt, i]] for tt in range(L, Tn)])
            Ze = np.array([[series[tt - t2, u2] for (u2, t2) in others] for tt in range(L, Tn)]) if others else None
            v = CMI(Xe, Ye, Ze, method=info, metric=metric_, k=k, bandwidth=bw_)
            if not (np.isfinite(v) and np.isfinite(c)):
                return None if (np.isnan(v) and np.isnan(c)) or v == c else f"edge cmi {c} but independent evaluation gives {v}"
            if abs(v - c) > 1e-9 * max(1.0, abs(v)):
                return (f"edge X{u}->X{i} lag {tau}: reported cmi {c} but the {info} estimator on (X{u}(t-{tau}), X{i}(t) | other parents) gives {v}")
            # the test behind the edge's p-value must be run on the SAME statistic: same estimator and settings as the cmi
            import inspect
            try:
                ba = inspect.signature(spy.saved["shuffle_test"]).bind_partial(None, None, None, 0.0, *tcall["args"], **tcall["kw"])
                ba.apply_defaults()
                used = {a: ba.arguments.get(a) for a in ("information", "metric", "k_means", "bandwidth")}
                want = {"information": info, "metric": metric_, "k_means": k, "bandwidth": bw_}
                rel = {"kde": ["information", "bandwidth"], "knn": ["information", "metric", "k_means"],
                       "geometric_knn": ["information", "metric", "k_means"]}.get(info, ["information"])
                bad = [a for a in rel if used[a] != want[a]]
                if bad:
                    return (f"edge X{u}->X{i} lag {tau}: its p-value comes from a permutation test run with {({a: used[a] for a in bad})} "
                            f"while the edge's cmi uses {({a: want[a] for a in bad})}: not the fraction of surrogates of the SAME estimator")
            except TypeError:
                pass
            g = tcall["rng_copy"]
            if g is None:
                return None
            cnt = 0
            for _ in range(nsh):
                perm = g.permutation(len(Xe))
                cnt += CMI(Xe[perm, :], Ye, Ze, method=info, metric=metric_, k=k, bandwidth=bw_) >= c
            if abs(cnt / nsh - p) > 1e-12:
                return (f"edge X{u}->X{i} lag {tau}: p_value {p} but {cnt}/{nsh} row-shuffled surrogates of that delayed predictor "
                        f"(same generator state) have information >= {c}")
            return None
        for i in range(n):
            judge_target(series, L, names, G, spy, i, cases, pf, desc, chk,
                         {"stream": "semantic", "method": method, "information": info, "T": T, "n": n, "max_lag": L},
                         recompute=recompute)
        chk.count("semantic." + info)
        chk.count("semantic.edges", G.number_of_edges())
    lib.correspond(chk, "edge_triples_vs_model", IMPORTS, CASE_T, "check_edge_case", cases, pf, lambda i: desc[i],
                   shard=250, jobs=12)
    chk.rule = ("Stream A (structural): discover_network with scripted drivers returning random selected sets (0..4 predictors, own lags "
                "included), scripted estimator returning a unique value per call, all 4 methods, T from the boundary max_lag+3, n 1..4, "
                "max_lag 1..4, ndarray and labelled DataFrame; every (X,Y,Z) handed to the estimator/test for an edge is compared "
                "cell-for-cell with the Coq model's edge_triple and with explicit time-index loops. Stream B (semantic): real selection "
                "and real estimators (5) on planted systems; each edge's cmi is recomputed through the public estimator on explicitly "
                "built delayed columns and its p-value from surrogates regenerated from a copy of the generator state. "
                "One evaluation = one emitted edge.")
