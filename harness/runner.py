#!/venv/bin/python
"""./check <property> [--tier quick|thorough] [--seed N] [--replay FILE]"""
import argparse
import importlib
import json
import os
import sys
import traceback
import warnings

warnings.filterwarnings("ignore")

sys.path.insert(0, os.path.dirname(os.path.abspath(__file__)))
import lib  # noqa: E402


def main():
    ap = argparse.ArgumentParser()
    ap.add_argument("pid")
    ap.add_argument("--tier", default=os.environ.get("VERIF_TIER", "quick"))
    ap.add_argument("--seed", type=int, default=int(os.environ.get("VERIF_SEED", "20260926")))
    ap.add_argument("--replay", default=None)
    a = ap.parse_args()
    if a.tier not in ("quick", "thorough"):
        a.tier = "quick"
    mod = importlib.import_module(f"props.{a.pid}")
    chk = lib.Check(a.pid, a.tier, a.seed)
    try:
        lib.ensure_built()
        if a.replay:
            rep = json.load(open(a.replay))
            if hasattr(mod, "replay"):
                mod.replay(chk, rep)
            else:   # deterministic checks: the replay is the same generated stream (same seed and tier)
                chk.seed, chk.tier = int(rep.get("seed", chk.seed)), rep.get("tier", chk.tier)
                mod.run(chk)
        else:
            mod.run(chk)
    except Exception as e:  # machinery failure: never silently pass
        traceback.print_exc()
        chk.oblige("machinery", "check ran to completion", False, f"{type(e).__name__}: {e}"[:2000])
    sys.exit(chk.finish())


if __name__ == "__main__":
    main()
