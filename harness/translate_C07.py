"""Fail-closed translator for C07: reads every package module reachable (by imports) from
causationentropy/core/discovery.py with `ast` and emits the EFFECT TABLE of coq/Model/Effects.v:

  per function   the package functions it references (call graph) with what each call site passes in the
                 callee's `rng` slot, the uses of hidden / ambient state in its body (flags), and how it obtains
                 its random generator (rngk).

Flagged (anything that could make a call depend on, or change, state outside (data, parameters)):
  numpy.random.<x> for x outside the local-generator API (default_rng, Generator, bit generators, SeedSequence);
  random.<x> (stdlib) other than random.Random; a bare reference to either module (aliasing);
  generator constructors called without an integer literal seed (default_rng(), default_rng(None),
  default_rng(expr), PCG64(), RandomState(), random.Random(), ...) -- except default_rng(<own parameter `rng`>),
  the pass-through normalisation, which is accounted for by the threading check instead;
  `global` / `nonlocal`; reading a module-level name bound to a non-constant; storing through a module-level
  name (attribute / item / augmented assignment); cache decorators; non-constant default arguments;
  time / datetime / os.urandom / os.getpid / secrets / uuid; id / hash / open / input / eval / exec / globals /
  vars / setattr / delattr / __import__.
NOT flagged: methods of local objects (rng.permutation on a LOCAL Generator), anything in functions that are not
reachable from discover_network (plotting, datasets, stats) -- reachability is decided in Coq on the emitted graph.

Unavailable (not a violation) on shapes the reader does not understand: classes in a scoped module, unknown
decorators, star-imports from outside the package, unresolvable package names, missing anchors.
"""
import ast
import builtins
import os

import translate
from translate import Unavailable

PKG = "causationentropy"
ROOT_MODULE = "causationentropy.core.discovery"
ROOT_FUNC = "discover_network"
TEST_FUNCS = ["shuffle_test"]

NP_LOCAL_API = {"default_rng", "Generator", "BitGenerator", "SeedSequence", "PCG64", "PCG64DXSM", "Philox", "SFC64", "MT19937"}
SEEDED_CTORS = {"numpy.random.default_rng", "numpy.random.SeedSequence", "numpy.random.PCG64", "numpy.random.PCG64DXSM",
                "numpy.random.Philox", "numpy.random.SFC64", "numpy.random.MT19937", "numpy.random.RandomState",
                "random.Random"}
ENTROPY_PREFIXES = ("time", "datetime", "secrets", "uuid", "os.urandom", "os.getpid", "os.getrandom", "os.times")
BAD_BUILTINS = {"id", "hash", "open", "input", "eval", "exec", "globals", "vars", "setattr", "delattr", "__import__"}
CACHE_DECORATORS = {"lru_cache", "cache", "cached", "memoize", "memoized", "cached_property", "Memory"}
BUILTIN_NAMES = set(dir(builtins))
SOURCE_OVERRIDES = {}     # module name -> source text (used by the self-test only)


def mod_path(modname):
    """dotted module name -> repo-relative file (module or package), or None"""
    base = modname.replace(".", "/")
    for rel in (base + ".py", base + "/__init__.py"):
        if os.path.exists(os.path.join(translate.REPO, rel)):
            return rel
    return None


def short(modname):
    return modname[len(PKG) + 1:] if modname.startswith(PKG + ".") else modname


def is_const_expr(n):
    if isinstance(n, ast.Constant):
        return True
    if isinstance(n, ast.UnaryOp) and isinstance(n.op, (ast.USub, ast.UAdd)) and isinstance(n.operand, ast.Constant):
        return True
    if isinstance(n, ast.Tuple):
        return all(is_const_expr(e) for e in n.elts)
    return False


class Module:
    def __init__(self, modname):
        self.name = modname
        self.rel = mod_path(modname)
        if self.rel is None:
            raise Unavailable(f"module {modname} not found")
        self.is_pkg = self.rel.endswith("__init__.py")
        self.tree = ast.parse(SOURCE_OVERRIDES[modname]) if modname in SOURCE_OVERRIDES else translate.parse(self.rel)
        self.imports = {}     # local alias -> dotted target
        self.stars = []       # dotted modules star-imported
        self.funcs = {}       # name -> FunctionDef
        self.vars = {}        # module-level assigned name -> is constant
        self.classes = set()
        self._scan()

    def _abs_from(self, node):
        if node.level == 0:
            return node.module
        parts = self.name.split(".")
        if not self.is_pkg:
            parts = parts[:-1]
        parts = parts[:len(parts) - (node.level - 1)]
        return ".".join(parts + ([node.module] if node.module else []))

    def _scan_import(self, node, into):
        if isinstance(node, ast.Import):
            for a in node.names:
                if a.asname:
                    into[a.asname] = a.name
                else:
                    into[a.name.split(".")[0]] = a.name.split(".")[0]
        else:
            base = self._abs_from(node)
            for a in node.names:
                if a.name == "*":
                    self.stars.append(base)
                else:
                    into[a.asname or a.name] = f"{base}.{a.name}"

    def _scan(self):
        for st in self.tree.body:
            if isinstance(st, (ast.Import, ast.ImportFrom)):
                self._scan_import(st, self.imports)
            elif isinstance(st, (ast.FunctionDef, ast.AsyncFunctionDef)):
                self.funcs[st.name] = st
            elif isinstance(st, ast.ClassDef):
                self.classes.add(st.name)
            elif isinstance(st, (ast.Assign, ast.AnnAssign, ast.AugAssign)):
                targets = st.targets if isinstance(st, ast.Assign) else [st.target]
                val = st.value
                for t in targets:
                    for nm in ast.walk(t):
                        if isinstance(nm, ast.Name):
                            const = isinstance(st, ast.Assign) and val is not None and is_const_expr(val)
                            self.vars[nm.id] = const and self.vars.get(nm.id, True)
            elif isinstance(st, ast.Expr) and isinstance(st.value, ast.Constant):
                pass                                   # docstring
            elif isinstance(st, ast.If) and ast.unparse(st.test).replace(" ", "") in (
                    "__name__=='__main__'", '__name__=="__main__"'):
                pass                                   # script entry, not executed on import
            elif isinstance(st, (ast.Try, ast.If, ast.With, ast.For, ast.While)):
                # conditional definitions at module level: too clever for this reader
                raise Unavailable(f"{self.rel}: compound statement at module level (line {st.lineno})")
            else:
                # bare calls etc. at import time do not belong to a call of discover_network; but a `del` or
                # re-binding of a function would invalidate the def table
                if isinstance(st, ast.Delete):
                    raise Unavailable(f"{self.rel}: del at module level")


class Reader:
    def __init__(self):
        self.modules = {}

    def module(self, name):
        if name not in self.modules:
            self.modules[name] = Module(name)
        return self.modules[name]

    def is_pkg_module(self, dotted):
        return dotted == PKG or (dotted.startswith(PKG + ".") and mod_path(dotted) is not None)

    def resolve_pkg(self, dotted, depth=0):
        """dotted name inside the package -> ('func', module, name) | ('module', modname) | ('var', module, name, const)"""
        if depth > 8:
            raise Unavailable(f"import chain too long at {dotted}")
        if self.is_pkg_module(dotted):
            return ("module", dotted)
        modname, _, attr = dotted.rpartition(".")
        if not self.is_pkg_module(modname):
            # attribute of something inside a module (e.g. module.func.attr): resolve the prefix
            r = self.resolve_pkg(modname, depth + 1)
            if r[0] == "func":
                return ("funcattr", r[1], r[2], attr)
            raise Unavailable(f"cannot resolve package name {dotted}")
        m = self.module(modname)
        if attr in m.funcs:
            return ("func", modname, attr)
        if attr in m.classes:
            raise Unavailable(f"class {dotted} referenced (classes are not modelled)")
        if attr in m.vars:
            return ("var", modname, attr, m.vars[attr])
        if attr in m.imports:
            tgt = m.imports[attr]
            if tgt.startswith(PKG):
                return self.resolve_pkg(tgt, depth + 1)
            return ("external", tgt)
        for s in m.stars:
            if s.startswith(PKG):
                try:
                    return self.resolve_pkg(f"{s}.{attr}", depth + 1)
                except Unavailable:
                    continue
        raise Unavailable(f"cannot resolve package name {dotted}")


def func_locals(fdef):
    """every name bound anywhere inside the function (parameters, assignments, loops, withs, comprehensions,
    nested defs, exception names) -- an over-approximation of its local scope"""
    names = set()
    for n in ast.walk(fdef):
        if isinstance(n, ast.arg):
            names.add(n.arg)
        elif isinstance(n, ast.Name) and isinstance(n.ctx, (ast.Store, ast.Del)):
            names.add(n.id)
        elif isinstance(n, (ast.FunctionDef, ast.AsyncFunctionDef, ast.ClassDef)) and n is not fdef:
            names.add(n.name)
        elif isinstance(n, ast.ExceptHandler) and n.name:
            names.add(n.name)
    return names


def params_of(fdef):
    a = fdef.args
    return [x.arg for x in a.posonlyargs + a.args + a.kwonlyargs] + \
           ([a.vararg.arg] if a.vararg else []) + ([a.kwarg.arg] if a.kwarg else [])


def chain(node):
    """Name / Attribute chain -> (base Name node, [attrs]) or None"""
    attrs = []
    while isinstance(node, ast.Attribute):
        attrs.append(node.attr)
        node = node.value
    if isinstance(node, ast.Name):
        return node, attrs[::-1]
    return None


def analyse_function(rd, m, fdef):
    qual = f"{short(m.name)}:{fdef.name}"
    flags, calls = [], []
    if isinstance(fdef, ast.AsyncFunctionDef):
        raise Unavailable(f"{qual}: async function")
    # ---- decorators and defaults
    for d in fdef.decorator_list:
        target = d.func if isinstance(d, ast.Call) else d
        c = chain(target)
        last = (c[1][-1] if c and c[1] else (c[0].id if c else ""))
        if last in CACHE_DECORATORS:
            flags.append(f"cache_decorator:{ast.unparse(target)}")
        else:
            raise Unavailable(f"{qual}: unknown decorator {ast.unparse(d)}")
    a = fdef.args
    pos = a.posonlyargs + a.args
    for arg, dv in list(zip(pos[len(pos) - len(a.defaults):], a.defaults)) + \
            [(k, v) for k, v in zip(a.kwonlyargs, a.kw_defaults) if v is not None]:
        if not is_const_expr(dv):
            flags.append(f"nonconstant_default:{arg.arg}={ast.unparse(dv)}")
    # ---- scopes
    local_imports = {}
    for n in ast.walk(fdef):
        if isinstance(n, (ast.Import, ast.ImportFrom)):
            m._scan_import(n, local_imports)
        if isinstance(n, ast.ClassDef):
            raise Unavailable(f"{qual}: class definition inside a function")
    locs = func_locals(fdef) - set(local_imports)
    params = params_of(fdef)
    parents = {}
    for n in ast.walk(fdef):
        for c in ast.iter_child_nodes(n):
            parents[c] = n

    def resolve(base, attrs):
        """-> ('local',) | ('external', dotted) | ('builtin', name) | result of rd.resolve_pkg | ('modvar', name, const)"""
        nm = base.id
        if nm in local_imports:
            tgt = local_imports[nm]
        elif nm in locs:
            return ("local",)
        elif nm in m.funcs:
            tgt = f"{m.name}.{nm}"
        elif nm in m.classes:
            raise Unavailable(f"{qual}: class {nm} referenced")
        elif nm in m.imports:
            tgt = m.imports[nm]
        elif nm in m.vars:
            return ("modvar", nm, m.vars[nm])
        else:
            for s in m.stars:
                if s.startswith(PKG):
                    try:
                        r = rd.resolve_pkg(f"{s}.{nm}")
                        if r[0] == "external":
                            return ("external", ".".join([r[1]] + attrs))
                        return r
                    except Unavailable:
                        continue
            if nm in BUILTIN_NAMES:
                return ("builtin", nm)
            if any(not s.startswith(PKG) for s in m.stars):
                raise Unavailable(f"{qual}: name {nm} may come from an external star-import")
            raise Unavailable(f"{qual}: unresolved name {nm}")
        dotted = ".".join([tgt] + attrs)
        if tgt == PKG or tgt.startswith(PKG + "."):
            # longest package prefix that resolves
            parts = dotted.split(".")
            for k in range(len(parts), 0, -1):
                head = ".".join(parts[:k])
                try:
                    r = rd.resolve_pkg(head)
                except Unavailable:
                    continue
                if r[0] == "external":
                    return ("external", ".".join([r[1]] + parts[k:]))
                if r[0] == "module" and k < len(parts):
                    raise Unavailable(f"{qual}: cannot resolve {dotted}")
                return r
            raise Unavailable(f"{qual}: cannot resolve {dotted}")
        return ("external", dotted)

    def seed_arg_kind(call):
        """what a generator constructor is seeded with"""
        if any(isinstance(x, ast.Starred) for x in call.args) or any(k.arg is None for k in call.keywords):
            return "other", ast.unparse(call)
        arg = call.args[0] if call.args else next((k.value for k in call.keywords if k.arg in ("seed", "x")), None)
        if arg is None or (isinstance(arg, ast.Constant) and arg.value is None):
            return "none", ""
        if isinstance(arg, ast.Constant) and isinstance(arg.value, int) and not isinstance(arg.value, bool):
            return "literal", arg.value
        if isinstance(arg, ast.Name) and arg.id in params:
            return "param", arg.id
        if isinstance(arg, ast.Call):
            c = chain(arg.func)
            if c:
                r = resolve(*c)
                if r[0] == "external" and r[1] in SEEDED_CTORS:
                    return "ctor", r[1]              # nested constructor: judged at the inner call
        return "other", ast.unparse(arg)

    seeded_locals = {}       # name -> (seed, assignment node) for  name = default_rng(<int literal>)
    passthrough_ok = set()   # Assign nodes of the form  rng = default_rng(rng)
    aliases = set()          # local names bound by such an assignment (the function's generator from then on)
    # ---- walk: names / attribute chains (maximal), calls, stores, global statements
    for n in ast.walk(fdef):
        if isinstance(n, ast.Global):
            flags.append("global_stmt:" + ",".join(n.names))
        elif isinstance(n, ast.Nonlocal):
            flags.append("nonlocal_stmt:" + ",".join(n.names))
        if isinstance(n, (ast.Name, ast.Attribute)) and not (isinstance(parents.get(n), ast.Attribute) and parents[n].value is n):
            c = chain(n)
            if c is None:
                continue           # attribute of a call result / subscript: a local object
            base, attrs = c
            store = isinstance(n.ctx, (ast.Store, ast.Del))
            if not attrs and store:
                continue           # plain local binding
            r = resolve(base, attrs)
            kind = r[0]
            par = parents.get(n)
            is_callee = isinstance(par, ast.Call) and par.func is n
            if kind == "local":
                continue
            if store:
                flags.append(f"writes_module_state:{ast.unparse(n)}")
                continue
            # stores through a subscript of a module-level name: X[k] = v
            p2 = par
            while isinstance(p2, ast.Subscript) and isinstance(p2.ctx, ast.Load):
                p2 = parents.get(p2)
            if isinstance(par, ast.Subscript) and par.value is n and isinstance(p2, ast.Subscript) and \
                    isinstance(p2.ctx, (ast.Store, ast.Del)):
                flags.append(f"writes_module_state:{ast.unparse(n)}[...]")
            if kind == "modvar":
                if not r[2]:
                    flags.append(f"module_state:{r[1]}")
            elif kind == "var":
                if not r[3]:
                    flags.append(f"module_state:{short(r[1])}.{r[2]}")
            elif kind == "funcattr":
                flags.append(f"function_attribute:{short(r[1])}:{r[2]}.{r[3]}")
                calls.append((f"{short(r[1])}:{r[2]}", "ArgOther" if "rng" in params_of(rd.module(r[1]).funcs[r[2]]) else "ArgNA"))
            elif kind == "module":
                flags.append(f"module_object:{short(r[1])}")   # a package module passed around as a value
            elif kind == "builtin":
                if r[1] in BAD_BUILTINS:
                    flags.append(f"builtin:{r[1]}")
            elif kind == "external":
                d = r[1]
                if d == "numpy.random" or d == "random":
                    flags.append(f"rng_module_alias:{d}")
                elif d.startswith("numpy.random."):
                    member = d.split(".")[2]
                    if member not in NP_LOCAL_API and d not in SEEDED_CTORS:
                        flags.append(f"global_numpy_rng:{d}")
                    elif not is_callee and d in SEEDED_CTORS:
                        flags.append(f"unseeded_generator:{d} (passed around uncalled)")
                elif d.startswith("random."):
                    if d not in SEEDED_CTORS:
                        flags.append(f"global_python_rng:{d}")
                    elif not is_callee:
                        flags.append(f"unseeded_generator:{d} (passed around uncalled)")
                elif any(d == p or d.startswith(p + ".") for p in ENTROPY_PREFIXES):
                    flags.append(f"ambient_entropy:{d}")
                if is_callee and d in SEEDED_CTORS:
                    k, v = seed_arg_kind(par)
                    asg = parents.get(par)
                    simple_target = isinstance(asg, ast.Assign) and asg.value is par and len(asg.targets) == 1 and \
                        isinstance(asg.targets[0], ast.Name)
                    if k == "literal":
                        if d == "numpy.random.default_rng" and simple_target and asg in fdef.body:
                            nm = asg.targets[0].id
                            seeded_locals.setdefault(nm, []).append((v, asg))
                    elif k == "ctor":
                        pass
                    elif k == "param" and d == "numpy.random.default_rng" and v == "rng" and simple_target and asg in fdef.body:
                        passthrough_ok.add(asg)          # rng = np.random.default_rng(rng)   (any local name on the left)
                        aliases.add(asg.targets[0].id)
                    elif k == "none":
                        flags.append(f"unseeded_generator:{d}()")
                    else:
                        flags.append(f"nonliteral_seed:{d}({v})")
            elif kind == "func":
                callee = rd.module(r[1]).funcs[r[2]]
                cq = f"{short(r[1])}:{r[2]}"
                cparams = [x.arg for x in callee.args.posonlyargs + callee.args.args]
                all_params = params_of(callee)
                if "rng" not in all_params:
                    calls.append((cq, "ArgNA"))
                elif not is_callee:
                    calls.append((cq, "ArgOther"))
                else:
                    call = par
                    passed = None
                    for kw in call.keywords:
                        if kw.arg == "rng":
                            passed = kw.value
                    # an explicit `rng=` keyword cannot be overridden by a `**mapping` in the same call (duplicate keywords raise);
                    # without it, star-arguments make the passed generator unreadable
                    # ... nor can a positional `rng` (a second value for the same parameter raises), provided no *iterable
                    # precedes its position
                    if passed is None and "rng" in cparams and cparams.index("rng") < len(call.args) and \
                            not any(isinstance(x, ast.Starred) for x in call.args[:cparams.index("rng") + 1]):
                        passed = call.args[cparams.index("rng")]
                    if passed is None and (any(isinstance(x, ast.Starred) for x in call.args) or any(k.arg is None for k in call.keywords)):
                        calls.append((cq, "ArgOther"))
                        continue
                    calls.append((cq, ("Missing", None) if passed is None else ("Expr", passed)))
    # ---- the function's own generator
    rng_assigns = [n for n in ast.walk(fdef) if isinstance(n, (ast.Assign, ast.AugAssign, ast.AnnAssign, ast.For, ast.With,
                                                               ast.NamedExpr, ast.Delete))]

    def binds(node, name):
        tg = []
        if isinstance(node, ast.Assign):
            tg = node.targets
        elif isinstance(node, (ast.AugAssign, ast.AnnAssign, ast.NamedExpr, ast.For)):
            tg = [node.target]
        elif isinstance(node, ast.With):
            tg = [i.optional_vars for i in node.items if i.optional_vars is not None]
        elif isinstance(node, ast.Delete):
            tg = node.targets
        return any(isinstance(x, ast.Name) and x.id == name for t in tg for x in ast.walk(t))

    nested_rebind = lambda name: any(isinstance(n, ast.arg) and n.arg == name for f in ast.walk(fdef)
                                     if isinstance(f, (ast.FunctionDef, ast.Lambda)) and f is not fdef for n in ast.walk(f.args))
    own, rngk = None, "NoRng"
    if "rng" in params:
        own = "rng"
        others = [n for n in rng_assigns if (binds(n, "rng") or any(binds(n, a_) for a_ in aliases)) and n not in passthrough_ok]
        rngk = "RngParam" if not others and len(passthrough_ok) <= 1 and not nested_rebind("rng") and \
            not any(nested_rebind(a_) for a_ in aliases) else "RngBad"
    elif seeded_locals:
        if len(seeded_locals) == 1:
            own, lst = next(iter(seeded_locals.items()))
            others = [n for n in rng_assigns if binds(n, own) and n is not lst[0][1]]
            rngk = f"RngSeeded {lst[0][0]}" if len(lst) == 1 and not others and not nested_rebind(own) else "RngBad"
        else:
            rngk = "RngBad"
    if passthrough_ok and rngk != "RngParam":
        rngk = "RngBad"
    out_calls = []
    for cq, a in calls:
        if isinstance(a, tuple):
            if a[0] == "Missing":
                a = "ArgMissing"
            else:
                a = "ArgRng" if own is not None and isinstance(a[1], ast.Name) and (a[1].id == own or (own == "rng" and a[1].id in aliases)) else "ArgOther"
        if (cq, a) not in out_calls:
            out_calls.append((cq, a))
    uniq = []
    for f in flags:
        if f not in uniq:
            uniq.append(f)
    return {"name": qual, "calls": out_calls, "flags": uniq, "rngk": rngk}


def effect_table():
    rd = Reader()
    root = rd.module(ROOT_MODULE)
    if ROOT_FUNC not in root.funcs:
        raise Unavailable(f"function {ROOT_FUNC}")
    for tf in TEST_FUNCS:
        if tf not in root.funcs or "rng" not in params_of(root.funcs[tf]):
            raise Unavailable(f"{tf} with a parameter `rng`")
    done, table = set(), []
    queue = [ROOT_MODULE]
    while queue:
        mn = queue.pop(0)
        if mn in done:
            continue
        done.add(mn)
        m = rd.module(mn)
        for name, fdef in m.funcs.items():
            table.append(analyse_function(rd, m, fdef))
        # modules whose functions may be referenced from here
        for tgt in list(m.imports.values()) + m.stars:
            if tgt == PKG or tgt.startswith(PKG + "."):
                parts = tgt.split(".")
                for k in range(len(parts), 0, -1):
                    cand = ".".join(parts[:k])
                    if mod_path(cand) is not None:
                        if cand not in done and cand not in queue:
                            queue.append(cand)
                        break
        for n in (x for f in m.funcs.values() for x in ast.walk(f)):       # function-level imports
            if isinstance(n, ast.ImportFrom):
                base = m._abs_from(n)
                if base and (base == PKG or base.startswith(PKG + ".")) and mod_path(base) and base not in done:
                    queue.append(base)
    # modules discovered lazily through resolve_pkg (re-exports) are analysed as well
    changed = True
    while changed:
        changed = False
        for mn in list(rd.modules):
            if mn not in done:
                done.add(mn)
                changed = True
                m = rd.modules[mn]
                for name, fdef in m.funcs.items():
                    table.append(analyse_function(rd, m, fdef))
    names = [e["name"] for e in table]
    if len(set(names)) != len(names):
        raise Unavailable("duplicate function names in the table")
    rootq = f"{short(ROOT_MODULE)}:{ROOT_FUNC}"
    seed = next(e["rngk"] for e in table if e["name"] == rootq)
    return {"root": rootq, "tests": [f"{short(ROOT_MODULE)}:{t}" for t in TEST_FUNCS],
            "modules": sorted(short(x) for x in done), "root_rng": seed, "functions": table}


def coq_str(s):
    return '"' + s.replace('"', "'") + '"'


def coq_table(fact):
    rows = []
    for e in fact["functions"]:
        calls = "[" + "; ".join(f"({coq_str(c)}, {a})" for c, a in e["calls"]) + "]"
        flags = "[" + "; ".join(coq_str(f) for f in e["flags"]) + "]"
        k = e["rngk"]
        if k.startswith("RngSeeded"):
            v = int(k.split()[1])
            k = f"(RngSeeded ({v}))"
        rows.append(f"mk_fn {coq_str(e['name'])} {calls} {flags} {k}")
    return "[" + ";\n   ".join(rows) + "]"


def render(observed):
    """observed: package functions seen executing (sys.setprofile) during real discover_network calls"""
    def r(fact):
        tests = "[" + "; ".join(coq_str(t) for t in fact["tests"]) + "]"
        obs = "[" + "; ".join(coq_str(o) for o in observed) + "]"
        return f"""From Coq Require Import List ZArith String.
From CE Require Import Model.Effects Proofs.EffectsProofs.
Import ListNotations.
Open Scope string_scope.
Open Scope Z_scope.
(* regenerated from the current source of {PKG} (modules: {", ".join(fact["modules"])}) *)
Definition src_table : table :=
  {coq_table(fact)}.
Definition src_root : string := {coq_str(fact["root"])}.
Definition src_tests : list string := {tests}.
Definition dyn_observed : list string := {obs}.
Lemma src_no_global_rng_reachable : no_global_rng_reachable src_table src_root = true.
Proof. vm_compute. reflexivity. Qed.
Lemma src_seed_is_literal : seed_is_literal src_table src_root = true.
Proof. vm_compute. reflexivity. Qed.
Lemma src_rng_threaded_to_every_test : rng_threaded_to_every_test src_table src_root src_tests = true.
Proof. vm_compute. reflexivity. Qed.
(* every package function seen running during real calls is in the static reachable set *)
Lemma src_static_covers_dynamic : covers src_table src_root dyn_observed = true.
Proof. vm_compute. reflexivity. Qed.
(* hence (general theorems of Proofs/EffectsProofs.v instantiated on today's source) *)
Lemma src_reachable_functions_are_clean : forall f, Reach src_table src_root f ->
  exists e, lookup_fn src_table f = Some e /\\ flags e = [].
Proof. exact (no_global_rng_sound _ _ src_no_global_rng_reachable). Qed.
"""
    return r


# ---------------------------------------------------------------------------------------------------
# self-test: the reader must flag the kinds of change it exists to detect.  Each variant is a textual edit of
# the CURRENT discovery.py held in memory (nothing is written); variants whose anchor text is absent are skipped.
# ---------------------------------------------------------------------------------------------------
SELFTEST_EDITS = [
    ("global_permutation", [("rng.permutation(len(X))", "np.random.permutation(len(X))")]),
    ("unseeded_generator", [("np.random.default_rng(42)", "np.random.default_rng()")]),
    ("time_seed", [("np.random.default_rng(42)", "np.random.default_rng(int(time.time()))"), ("import copy\n", "import copy\nimport time\n")]),
    ("urandom_seed", [("np.random.default_rng(42)", "np.random.default_rng(int.from_bytes(os.urandom(4), 'big'))"),
                      ("import copy\n", "import copy\nimport os\n")]),
    ("module_cache", [("import copy\n", "import copy\n_CACHE = {}\n"),
                      ("    rng = np.random.default_rng(42)\n", "    rng = np.random.default_rng(42)\n    if 0 in _CACHE:\n        return _CACHE[0]\n")]),
    ("module_level_generator", [("import copy\n", "import copy\n_RNG = np.random.default_rng(42)\n"),
                                ("    rng = np.random.default_rng(42)\n", "    rng = _RNG\n")]),
    ("lru_cache", [("import copy\n", "import copy\nimport functools\n"), ("def shuffle_test(", "@functools.lru_cache(maxsize=None)\ndef shuffle_test(")]),
    ("rng_not_threaded", [("rng=rng", "rng=None")]),
    ("python_random", [("import copy\n", "import copy\nimport random\n"), ("    S = copy.deepcopy(S_init)", "    random.shuffle(S_init)\n    S = copy.deepcopy(S_init)")]),
    ("aliased_global", [("import copy\n", "import copy\nfrom numpy.random import permutation as _perm\n"), ("rng.permutation(S_init)", "_perm(S_init)")]),
    ("global_statement", [("    rng = np.random.default_rng(42)\n", "    global _calls\n    _calls = 1\n    rng = np.random.default_rng(42)\n")]),
    ("mutable_default", [("n_jobs=-1,", "n_jobs=-1, _memo={},")]),
]


def selftest_tables():
    """-> list of (variant name, fact) for the variants whose anchors exist in today's source"""
    rel = mod_path(ROOT_MODULE)
    with open(os.path.join(translate.REPO, rel)) as f:
        src = f.read()
    out = []
    for name, edits in SELFTEST_EDITS:
        text = src
        ok = True
        for old, new in edits:
            if old not in text:
                ok = False
                break
            text = text.replace(old, new, 1) if name != "rng_not_threaded" else text.replace(old, new)
        if not ok:
            continue
        SOURCE_OVERRIDES[ROOT_MODULE] = text
        try:
            out.append((name, effect_table()))
        except (Unavailable, SyntaxError):
            pass
        finally:
            SOURCE_OVERRIDES.pop(ROOT_MODULE, None)
    return out
