"""Fail-closed reader of the C12 anchors (geometric_knn_entropy and the two signed sums).

Facts are read with `ast` from the CURRENT source.  A statement whose SHAPE the small grammar does not recognise raises
translate.Unavailable (the check then relies on the correspondence tie alone and says so in the evidence); a statement
of a recognised shape with different CONTENT (other slice bounds, index, constant, factor, reducer, sign, floor) yields
facts on which the regenerated lemmas fail.  Local variable names are resolved through their defining statements
(`N, d = X.shape`), so renaming them is harmless."""
import ast
from fractions import Fraction

from translate import Unavailable, affine, func, is_name, one, parse, src

ENT = "causationentropy/core/information/entropy.py"
MI = "causationentropy/core/information/mutual_information.py"
CMI = "causationentropy/core/information/conditional_mutual_information.py"


def _const_q(n, anchor):
    """numeric literal (possibly negated) -> Fraction of its decimal text"""
    neg = False
    if isinstance(n, ast.UnaryOp) and isinstance(n.op, ast.USub):
        neg, n = True, n.operand
    if not (isinstance(n, ast.Constant) and isinstance(n.value, (int, float)) and not isinstance(n.value, bool)):
        raise Unavailable(f"{anchor}: not a numeric literal")
    f = Fraction(str(n.value))
    return -f if neg else f


def _signs(expr, anchor):
    """a +- b +- c ... over plain names -> [(name, +1/-1)]"""
    if isinstance(expr, ast.Name):
        return [(expr.id, 1)]
    if isinstance(expr, ast.BinOp) and isinstance(expr.op, (ast.Add, ast.Sub)) and isinstance(expr.right, ast.Name):
        return _signs(expr.left, anchor) + [(expr.right.id, 1 if isinstance(expr.op, ast.Add) else -1)]
    raise Unavailable(f"{anchor}: not a signed sum of names: `{src(expr)}`")


def _blocks(n, anchor):
    """X -> 'X';  np.hstack((X, Z)) -> 'X,Z'"""
    if isinstance(n, ast.Name):
        return n.id
    if (isinstance(n, ast.Call) and src(n.func) in ("np.hstack", "np.column_stack") and len(n.args) == 1 and not n.keywords
            and isinstance(n.args[0], ast.Tuple) and all(isinstance(e, ast.Name) for e in n.args[0].elts)):
        return ",".join(e.id for e in n.args[0].elts)
    raise Unavailable(f"{anchor}: sample argument `{src(n)}`")


def _entropy_args(f, anchor):
    """name -> blocks of the sample argument of `name = geometric_knn_entropy(sample, dist, k)`; k must be passed through"""
    out = {}
    for n in ast.walk(f):
        if (isinstance(n, ast.Assign) and len(n.targets) == 1 and isinstance(n.targets[0], ast.Name) and isinstance(n.value, ast.Call)
                and src(n.value.func) == "geometric_knn_entropy"):
            c = n.value
            if len(c.args) != 3 or c.keywords:
                raise Unavailable(f"{anchor}: geometric_knn_entropy call `{src(c)}`")
            out[n.targets[0].id] = (_blocks(c.args[0], anchor), src(c.args[2]))
    return out


def _floor(f, var, anchor):
    """True if the function returns max(0.0, var), False if it returns var itself"""
    kinds = set()
    for n in ast.walk(f):
        if isinstance(n, ast.Return) and n.value is not None:
            v = n.value
            if is_name(v, var):
                kinds.add(False)
            elif (isinstance(v, ast.Call) and is_name(v.func, "max") and len(v.args) == 2 and not v.keywords
                  and any(is_name(a, var) for a in v.args)):
                other = [a for a in v.args if not is_name(a, var)]
                if len(other) != 1 or _const_q(other[0], anchor) != 0:
                    raise Unavailable(f"{anchor}: `{src(v)}`")
                kinds.add(True)
            elif var in {x.id for x in ast.walk(v) if isinstance(x, ast.Name)}:
                raise Unavailable(f"{anchor}: return `{src(v)}`")
    if len(kinds) != 1:
        raise Unavailable(f"{anchor}: returns of {var}: {sorted(kinds)}")
    return kinds.pop()


def _reducer(c, anchor):
    if isinstance(c, ast.Call) and src(c.func) in ("np.sum", "np.mean") and len(c.args) == 1 and not c.keywords and isinstance(c.args[0], ast.Name):
        return src(c.func)[3:], c.args[0].id
    raise Unavailable(f"{anchor}: `{src(c)}`")


def geo_facts():
    f = func(parse(ENT), "geometric_knn_entropy")
    if [a.arg for a in f.args.args] != ["X", "Xdist", "k"]:
        raise Unavailable("geometric_knn_entropy signature")
    env = {"k": "k"}
    # N, d = X.shape
    sh = one((n for n in ast.walk(f) if isinstance(n, ast.Assign) and src(n.value).replace(" ", "") == "X.shape"), "X.shape")
    tg = sh.targets[0]
    if not (isinstance(tg, ast.Tuple) and len(tg.elts) == 2 and all(isinstance(e, ast.Name) for e in tg.elts)):
        raise Unavailable("X.shape unpacking")
    role = {tg.elts[0].id: "rows", tg.elts[1].id: "cols"}
    # Xknn[i, :] = np.argsort(Xdist[i, :])[lo : hi]
    a = one((n for n in ast.walk(f) if isinstance(n, ast.Assign) and src(n.targets[0]).replace(" ", "") == "Xknn[i,:]"), "Xknn row")
    v = a.value
    if not (isinstance(v, ast.Subscript) and isinstance(v.slice, ast.Slice) and v.slice.step is None and v.slice.lower is not None
            and v.slice.upper is not None and src(v.value).replace(" ", "") == "np.argsort(Xdist[i,:])"):
        raise Unavailable(f"Xknn row: `{src(v)}`")
    lo, hi = affine(v.slice.lower, env), affine(v.slice.upper, env)
    # dist = l2dist(X[i, :], X[Xknn[i, idx], :])
    d = one((n for n in ast.walk(f) if isinstance(n, ast.Assign) and is_name(n.targets[0], "dist")), "dist")
    c = d.value
    if not (isinstance(c, ast.Call) and src(c.func) == "l2dist" and len(c.args) == 2 and src(c.args[0]).replace(" ", "") == "X[i,:]"):
        raise Unavailable(f"dist: `{src(c)}`")
    b = c.args[1]
    ok = (isinstance(b, ast.Subscript) and is_name(b.value, "X") and isinstance(b.slice, ast.Tuple) and len(b.slice.elts) == 2
          and isinstance(b.slice.elts[0], ast.Subscript) and is_name(b.slice.elts[0].value, "Xknn")
          and isinstance(b.slice.elts[0].slice, ast.Tuple) and len(b.slice.elts[0].slice.elts) == 2
          and is_name(b.slice.elts[0].slice.elts[0], "i") and src(b.slice.elts[1]) == ":")
    if not ok:
        raise Unavailable(f"dist neighbour: `{src(b)}`")
    ridx = affine(b.slice.elts[0].slice.elts[1], env)
    # guards: every comparison `<something> > <float literal>` inside the function, and the literal fallbacks
    thr = set()
    for n in ast.walk(f):
        if isinstance(n, ast.Compare) and len(n.ops) == 1 and isinstance(n.ops[0], ast.Gt) and isinstance(n.comparators[0], ast.Constant) \
                and isinstance(n.comparators[0].value, float):
            thr.add(_const_q(n.comparators[0], "guard"))
    if len(thr) != 1:
        raise Unavailable(f"guards: thresholds {sorted(thr)}")
    def float_lit(n):
        if isinstance(n, ast.UnaryOp) and isinstance(n.op, ast.USub):
            n = n.operand
        return isinstance(n, ast.Constant) and isinstance(n.value, float)
    fall = {_const_q(n.args[0], "fallback") for n in ast.walk(f)
            if isinstance(n, ast.Call) and src(n.func).endswith(".append") and len(n.args) == 1 and float_lit(n.args[0])}
    fall |= {_const_q(n.value, "fallback") for n in ast.walk(f)
             if isinstance(n, ast.AugAssign) and isinstance(n.target, ast.Name) and float_lit(n.value)}
    if len(fall) != 1:
        raise Unavailable(f"fallbacks {sorted(fall)}")
    # the singular-value loop: for l in range(min(<cols>, len(<S>), k)) over the loop that reads <S>[l]
    loops = [n for n in ast.walk(f) if isinstance(n, ast.For) and isinstance(n.target, ast.Name)
             and any(isinstance(x, ast.Subscript) and isinstance(x.value, ast.Name) and x.value.id.startswith("sing")
                     and is_name(x.slice, n.target.id) for x in ast.walk(n))]
    lp = one(iter(loops), "singular-value loop")
    it = lp.iter
    if not (isinstance(it, ast.Call) and is_name(it.func, "range") and len(it.args) == 1 and not it.keywords):
        raise Unavailable(f"singular-value loop range `{src(it)}`")
    def bound(n):
        if isinstance(n, ast.Call) and is_name(n.func, "min") and n.args and not n.keywords:
            parts = [bound(a) for a in n.args]
            out = parts[-1]
            for q in reversed(parts[:-1]):
                out = f"(Nat.min {q} {out})"
            return out
        if isinstance(n, ast.Name) and role.get(n.id) == "cols":
            return "cols"
        if is_name(n, "k"):
            return "k"
        if isinstance(n, ast.Call) and is_name(n.func, "len") and len(n.args) == 1 and isinstance(n.args[0], ast.Name) and n.args[0].id.startswith("sing"):
            return "len"
        raise Unavailable(f"singular-value loop bound `{src(n)}`")
    svb = bound(it.args[0])
    # H_X += <cols> / <rows> * np.sum(<list>);  H_X += np.mean(<list>)
    aug = []
    for n in ast.walk(f):
        if isinstance(n, ast.AugAssign) and is_name(n.target, "H_X") and isinstance(n.op, ast.Add):
            v = n.value
            if isinstance(v, ast.BinOp) and isinstance(v.op, ast.Mult):
                fac = v.left
                if not (isinstance(fac, ast.BinOp) and isinstance(fac.op, ast.Div)):
                    raise Unavailable(f"accumulation factor `{src(fac)}`")
                num = role.get(fac.left.id, fac.left.id) if isinstance(fac.left, ast.Name) else src(fac.left)
                den = role.get(fac.right.id, fac.right.id) if isinstance(fac.right, ast.Name) else src(fac.right)
                red, what = _reducer(v.right, "accumulation")
                aug.append((n.lineno, f"{num}/{den}*{red}"))
            else:
                red, what = _reducer(v, "accumulation")
                aug.append((n.lineno, red))
    aug = [s for _, s in sorted(aug)]
    # the two signed sums
    fm = func(parse(MI), "geometric_knn_mutual_information")
    mi = one((n for n in ast.walk(fm) if isinstance(n, ast.Assign) and is_name(n.targets[0], "mi")), "mi")
    mi_args = _entropy_args(fm, "mi")
    fc = func(parse(CMI), "geometric_knn_conditional_mutual_information")
    cmi = one((n for n in ast.walk(fc) if isinstance(n, ast.Assign) and is_name(n.targets[0], "cmi")), "cmi")
    cmi_args = _entropy_args(fc, "cmi")
    try:
        mi_terms = [(mi_args[nm][0], mi_args[nm][1], s) for nm, s in _signs(mi.value, "mi")]
        cmi_terms = [(cmi_args[nm][0], cmi_args[nm][1], s) for nm, s in _signs(cmi.value, "cmi")]
    except KeyError as e:
        raise Unavailable(f"signed sum over a name that is not a geometric entropy: {e}")
    thr = thr.pop()
    fall = fall.pop()
    return {"lo": lo, "hi": hi, "ridx": ridx, "thr": [thr.numerator, thr.denominator], "fallback": [fall.numerator, fall.denominator],
            "aug": aug, "svb": svb, "mi": sorted(mi_terms), "mi_floor": _floor(fm, "mi", "mi return"),
            "cmi": sorted(cmi_terms), "cmi_floor": _floor(fc, "cmi", "cmi return")}


def _terms(ts):
    return "[" + "; ".join('("%s", "%s", %s)' % (a, kk, "true" if s > 0 else "false") for a, kk, s in ts) + "]"


def _strs(xs):
    return "[" + "; ".join('"%s"' % x for x in xs) + "]"


def coq_geo_facts(f):
    return f"""From Coq Require Import String List ZArith QArith Lia.
From CE Require Import Model.GeoKnn.
Import ListNotations.
Open Scope Z_scope.
Definition src_lo (k : Z) : Z := {f['lo']}.
Definition src_hi (k : Z) : Z := {f['hi']}.
Definition src_ridx (k : Z) : Z := {f['ridx']}.
Definition src_thr : Q := {f['thr'][0]} # {f['thr'][1]}.
Definition src_fallback : Q := ({f['fallback'][0]}) # {f['fallback'][1]}.
Definition src_aug : list string := {_strs(f['aug'])}%string.
Definition src_mi : list (string * string * bool) := {_terms(f['mi'])}%string.
Definition src_mi_floor : bool := {'true' if f['mi_floor'] else 'false'}.
Definition src_cmi : list (string * string * bool) := {_terms(f['cmi'])}%string.
Definition src_cmi_floor : bool := {'true' if f['cmi_floor'] else 'false'}.
(* the slice starts right after the sample itself, holds k indices, and the radius is taken at its LAST entry: the
   neighbour of rank k, which is index k of the sorted distances (Model/GeoKnn.v: rho2 = nth k (sort ...)) *)
Lemma src_slice_is_modelled : forall k, 1 <= k -> src_lo k = 1 /\\ src_hi k - src_lo k = k /\\ src_lo k + src_ridx k = k.
Proof. intros k Hk. unfold src_lo, src_hi, src_ridx. lia. Qed.
(* the guards are decided on squares in the model: thr^2 = thr24, the fallback is -12 *)
Lemma src_guards_are_modelled : (src_thr * src_thr == thr24)%Q /\\ (src_fallback == -12 # 1)%Q.
Proof. split; vm_compute; reflexivity. Qed.
(* the singular values the ratio loop reads: of the list the SVD returned, the first min(cols, len, k) -- the model keeps the first k
   in [loc_of] / [locs_of] and reads the first d of those in [sv_term] *)
Definition src_sv_bound (cols len k : nat) : nat := {f['svb']}.
Lemma src_sv_bound_is_modelled : forall cols k (sv : list Q), firstn (src_sv_bound cols (length sv) k) sv = firstn cols (firstn k sv).
Proof.
  intros cols k sv. unfold src_sv_bound. rewrite firstn_firstn.
  destruct (Nat.le_gt_cases (length sv) (Nat.min cols k)) as [H|H]; [rewrite !firstn_all2 by lia; reflexivity|f_equal; lia].
Qed.
(* d/N times the SUM of the log radii, then the MEAN of the corrections (geo_expr_of) *)
Lemma src_accumulation_is_modelled : src_aug = ["cols/rows*sum"; "mean"]%string.
Proof. reflexivity. Qed.
(* the signed sums (every entropy with the caller's k) and the floors (geo_mi_expr / floor0, geo_cmi_expr) *)
Lemma src_sums_are_modelled :
  src_mi = [("X", "k", true); ("X,Y", "k", false); ("Y", "k", true)]%string /\\ src_mi_floor = true /\\
  src_cmi = [("X,Y,Z", "k", false); ("X,Z", "k", true); ("Y,Z", "k", true); ("Z", "k", false)]%string /\\ src_cmi_floor = false.
Proof. repeat split; reflexivity. Qed.
"""
