"""Whole-graph seam for discover_network: a scripted estimator that is a deterministic function of the ABSTRACT
identity of the columns it is handed, plus recorders for the visiting order of backward() and for the order in
which edges are inserted.  Used by harness/props/C06.py (stream `pipeline`).

Column identification does not use any index arithmetic of the library: the lagged columns are rebuilt here with
explicit time loops (series[t - tau, j], t = L..T-1) and matched by content; a row-shuffled (surrogate) X matches no
lagged column but has the sorted content of exactly one."""
import hashlib
from fractions import Fraction

import networkx as nx
import numpy as np

SCALE = 16          # estimator values are integers / SCALE (exact in binary floating point)


def _b(col):
    return np.ascontiguousarray(np.asarray(col, dtype=float)).tobytes()


def h(*parts):
    return int.from_bytes(hashlib.sha256(repr(parts).encode()).digest()[:8], "big")


class Scripted:
    """mode 'graded': values >= 0 at the discovery seam; per (target, column) a strength class (none/medium/strong)
    plus a conditioning-set dependent part, surrogates uniform on 0..9 grid units.
    mode 'ties': RAW values in -2..2 (surrogates -2..1) handed to the real dispatcher, which floors them: exact ties,
    the floor value 0 and all-tied null samples are the rule."""

    def __init__(self, series, L, nsh, salt, mode):
        self.series, self.L, self.nsh, self.salt, self.mode = np.asarray(series), L, nsh, salt, mode
        T, n = self.series.shape
        self.exact, self.sorted, self.ycols = {}, {}, {}
        self.ok = True
        for j in range(n):
            for tau in range(1, L + 1):
                col = np.array([self.series[t - tau, j] for t in range(L, T)], dtype=float)
                self.exact[_b(col)] = (j, tau)
                self.sorted[_b(np.sort(col))] = (j, tau)
            self.ycols[_b(np.array([self.series[t, j] for t in range(L, T)], dtype=float))] = j
        if len(self.exact) != n * L or len(self.sorted) != n * L or len(self.ycols) != n:
            self.ok = False                  # two columns with the same (sorted) content: identities would be ambiguous
        self.cnt, self.cmi_tab, self.sur_keys = {}, {}, set()
        self.log = []                        # (kind, key, Z labels in stacking order)
        self.bad = []                        # calls on columns that are not what the model can name
        self.last_target = None

    # ---- the scripted oracle as a pure function of the abstract query
    def obs(self, key):
        i, x, zs = key
        if self.mode == "ties":
            return h(self.salt, "o", key) % 5 - 2
        cls = [0, 0, 0, 1, 2][h(self.salt, "s", i, x) % 5]
        return 5 * cls + h(self.salt, "o", key) % 6

    def surv(self, key, k):
        if self.mode == "ties":
            return h(self.salt, "n", key, k) % 4 - 2
        return h(self.salt, "n", key, k) % 10

    def surrogates(self, key):
        return [self.surv(key, k) for k in range(self.nsh)]

    # ---- the function installed in place of the estimator
    def __call__(self, X, Y, Z=None, **kw):
        X, Y = np.asarray(X), np.asarray(Y)
        i = self.ycols.get(_b(Y[:, 0])) if Y.ndim == 2 and Y.shape[1] == 1 else None
        if i is None:
            self.bad.append("target column is not series[t, i], t = max_lag..T-1, of any variable i")
            return 0.0
        self.last_target = i
        if X.ndim != 2 or X.shape[1] != 1:
            self.bad.append(f"predictor block of shape {X.shape}, not one column")
            return 0.0
        xl, kind = self.exact.get(_b(X[:, 0])), "obs"
        if xl is None:
            xl, kind = self.sorted.get(_b(np.sort(np.asarray(X[:, 0], dtype=float)))), "sur"
        if xl is None:
            self.bad.append(f"predictor column handed to the estimator (target {i}) is neither a lagged column of the data nor a "
                            f"row permutation of one")
            return 0.0
        zl = []
        if Z is not None:
            Z = np.asarray(Z)
            for c in range(Z.shape[1]):
                l = self.exact.get(_b(Z[:, c]))
                if l is None:
                    self.bad.append(f"conditioning column {c} (target {i}, predictor {xl}) is not a lagged column of the data")
                    return 0.0
                zl.append(l)
        key = (i, xl, tuple(sorted(set(zl))))
        self.log.append((kind, key, tuple(zl)))
        if kind == "obs":
            v = self.obs(key)
            self.cmi_tab[key] = v
        else:
            k = self.cnt.get(key, 0)
            self.cnt[key] = k + 1
            self.sur_keys.add(key)
            v = self.surv(key, k % self.nsh)
        return v / SCALE


class RecGen(np.random.Generator):
    """numpy Generator that records every permutation of a SEQUENCE (backward()'s visiting order); permutations of
    range(len(X)) inside shuffle_test are passed through unrecorded.  Same stream as the Generator it replaces."""

    def permutation(self, x, axis=0):
        r = super().permutation(x, axis)
        if not isinstance(x, (int, np.integer)):
            self.orders.append((self.scripted.last_target, [int(v) for v in r]))
        return r


class _Random:
    def __init__(self, real, scripted, orders):
        self._real, self._scripted, self._orders = real, scripted, orders

    def default_rng(self, seed=None):
        if isinstance(seed, np.random.Generator):
            return seed
        g = RecGen(np.random.PCG64(seed))
        g.scripted, g.orders = self._scripted, self._orders
        return g

    def __getattr__(self, name):
        return getattr(self._real, name)


class NPProxy:
    """stands for the numpy module inside causationentropy.core.discovery; only default_rng differs"""

    def __init__(self, scripted, orders):
        self.random = _Random(np.random, scripted, orders)

    def __getattr__(self, name):
        return getattr(np, name)


class RecGraph(nx.MultiDiGraph):
    def add_edge(self, u, v, key=None, **attr):
        if not hasattr(self, "_ins"):
            self._ins = []
        self._ins.append((u, v, dict(attr)))
        return super().add_edge(u, v, key=key, **attr)


class NXProxy:
    MultiDiGraph = RecGraph

    def __getattr__(self, name):
        return getattr(nx, name)


def run_real(disc, cmi_mod, data, series, method, L, nsh, a_f, a_b, salt, mode, floor_seam):
    """Runs the REAL discover_network with the scripted estimator.  floor_seam: the scripted function replaces the
    gaussian estimator BELOW the real dispatcher (so the dispatcher's floor runs); otherwise it replaces the
    dispatcher at causationentropy.core.discovery.conditional_mutual_information."""
    scr = Scripted(series, L, nsh, salt, mode)
    orders, supports = [], []
    saved = (disc.conditional_mutual_information, disc.np, disc.nx, cmi_mod.gaussian_conditional_mutual_information,
             disc.lasso_optimal_causation_entropy)
    if floor_seam:
        cmi_mod.gaussian_conditional_mutual_information = scr
    else:
        disc.conditional_mutual_information = scr
    orig_lasso = saved[4]

    def lasso(*a, **kw):
        S = orig_lasso(*a, **kw)
        supports.append([int(s) for s in S])
        return S
    disc.lasso_optimal_causation_entropy = lasso
    disc.np, disc.nx = NPProxy(scr, orders), NXProxy()
    try:
        G = disc.discover_network(data, method=method, information="gaussian", max_lag=L, alpha_forward=a_f,
                                  alpha_backward=a_b, n_shuffles=nsh)
    finally:
        (disc.conditional_mutual_information, disc.np, disc.nx, cmi_mod.gaussian_conditional_mutual_information,
         disc.lasso_optimal_causation_entropy) = saved
    return G, scr, orders, supports


def frac(alpha):
    f = Fraction(alpha)
    return f if f.denominator <= 4096 else f.limit_denominator(1000)


def dyadic(alpha):
    return Fraction(alpha).denominator <= 4096


def float_boundary(scr, alphas):
    """For a level that is not a dyadic rational, 100*(1-alpha)/100*(n-1) is not exact in floating point; the library's
    verdict can then differ from the exact one only when the observed value EQUALS the exact interpolated threshold
    while the neighbouring order statistics differ.  Returns True if some test of the run is in that situation."""
    for key in scr.sur_keys:
        if key not in scr.cmi_tab:
            continue
        o = max(0, scr.cmi_tab[key])
        s = sorted(max(0, v) for v in scr.surrogates(key))
        for al in alphas:
            if dyadic(al):
                continue
            f = frac(al)
            a, b = f.numerator, f.denominator
            hh = (len(s) - 1) * (b - a)
            lo, rem = hh // b, hh % b
            vlo = s[lo]
            vhi = s[lo + 1] if lo + 1 < len(s) else vlo
            if vlo * b + rem * (vhi - vlo) == o * b:
                near = [s[k] for k in (lo - 1, lo, lo + 1) if 0 <= k < len(s)]
                if len(set(near)) > 1:
                    return True
    return False


# ---- Coq literals
def lab(l):
    return f"({l[0]}, {l[1]})"


def keylit(key):
    i, x, zs = key
    return f"({i}, {lab(x)}, [" + "; ".join(lab(z) for z in zs) + "])"


def tables(scr):
    tc = "[" + "; ".join(f"({keylit(k)}, ({v})%Z)" for k, v in scr.cmi_tab.items()) + "]"
    ts = "[" + "; ".join(f"({keylit(k)}, [" + "; ".join(str(v) if v >= 0 else f"({v})" for v in scr.surrogates(k)) + "]%Z)"
                         for k in sorted(scr.sur_keys)) + "]"
    return tc, ts


def stats_of(scr, chk, prefix):
    """distribution of what happened inside the run, read off the call log"""
    n_sur = sum(1 for k, _, _ in scr.log if k == "sur")
    chk.count(prefix + "tests", n_sur // max(1, scr.nsh))
    run, ties, rounds = [], 0, 0
    for kind, key, _ in scr.log + [("end", None, None)]:
        if kind == "obs" and (not run or (run[-1][0], run[-1][2]) == (key[0], key[2])):
            run.append(key)
            continue
        if len(run) >= 2:
            vals = [max(0, scr.cmi_tab[k]) for k in run]
            rounds += 1
            ties += vals.count(max(vals)) >= 2
        run = [key] if kind == "obs" else []
    chk.count(prefix + "forward_rounds_with_2plus_candidates", rounds)
    chk.count(prefix + "forward_rounds_with_tie_at_maximum", ties)
    chk.count(prefix + "estimator_values_floored_to_0", sum(1 for v in scr.cmi_tab.values() if v < 0))
